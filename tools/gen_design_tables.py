#!/usr/bin/env python3
"""Regenerate the generated tables of DESIGN.md (between BEGIN/END GENERATED markers) from
known_findings.json and seeded/*/meta.json."""
import glob, json, os, re
ROOT = os.path.dirname(os.path.dirname(os.path.abspath(__file__)))
k = json.load(open(os.path.join(ROOT, "known_findings.json")))

def esc(x):
    return str(x).replace("|", "\\|").replace("\n", " ")


def findings():
    out = ["Fixed in /repo — one `fix:` commit each, existing suite unedited and passing; a regression witness of each is replayed by the monitor of its property:", "",
           "| Property | Commit | What failed |", "|---|---|---|"]
    for f in k["fixed"]:
        m = re.match(r"fixed: property=(\S+) (\S+) (.*)", f)
        if m:
            out.append(f"| {m.group(1)} | `{m.group(2)}` | {esc(m.group(3))} |")
    out += ["", "Recorded as known findings (exact signatures; printed as `KNOWN-FINDING`, any other signature of the same property still fails the check):", "",
            "| Property | Finding | Why it is recorded rather than repaired |", "|---|---|---|"]
    for f in k["findings"]:
        out.append(f"| {f['property']} | {esc(f['what'])} | {esc(f['why_recorded_not_fixed'])} |")
    return "\n".join(out)

def seeded():
    out = ["| Seeded change | Property | What it does | Needs | Caught by | Note |", "|---|---|---|---|---|---|"]
    for d in sorted(glob.glob(os.path.join(ROOT, "seeded", "*"))):
        try:
            m = json.load(open(os.path.join(d, "meta.json")))
        except (OSError, ValueError):
            continue
        c = esc
        det = m.get("detected_by", [])
        out.append(f"| {os.path.basename(d)} | {m.get('property')} | {c(m.get('summary',''))[:260]} | {c(m.get('needs',''))[:260]} | {c('; '.join(det) if det else 'NOT CAUGHT')[:300]} | {c('; '.join(m['history']) if isinstance(m.get('history'), list) else m.get('history',''))[:420]} |")
    return "\n".join(out)

p = os.path.join(ROOT, "DESIGN.md")
s = open(p).read()
for name, fn in (("findings", findings), ("seeded", seeded)):
    b, e = f"<!-- BEGIN GENERATED {name} -->", f"<!-- END GENERATED {name} -->"
    if b in s:
        s = s[:s.index(b) + len(b)] + "\n" + fn() + "\n" + s[s.index(e):]
open(p, "w").write(s)
print("DESIGN.md tables regenerated")
