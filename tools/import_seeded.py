#!/usr/bin/env python3
"""usage: tools/import_seeded.py <agent-out-dir>/<id> <Cxx: what the check printed> [--history TEXT]...

Copies one seeded-break delivery (patch.diff, demonstration, meta.json) into /verif/seeded/<id>/ and
adds the lead's own fields: origin, confirmed_by_lead, detected_by, history."""
import json, os, shutil, sys

ROOT = os.path.dirname(os.path.dirname(os.path.abspath(__file__)))


def main():
    args = sys.argv[1:]
    src = args.pop(0).rstrip("/")
    sid = os.path.basename(src)
    detected, history = [], []
    while args:
        a = args.pop(0)
        if a == "--history":
            history.append(args.pop(0))
        else:
            detected.append(a)
    dst = os.path.join(ROOT, "seeded", sid)
    os.makedirs(dst, exist_ok=True)
    for f in os.listdir(src):
        p = os.path.join(src, f)
        if os.path.isfile(p) and os.path.getsize(p) < 400_000:
            shutil.copy(p, os.path.join(dst, f))
    mp = os.path.join(dst, "meta.json")
    m = json.load(open(mp)) if os.path.exists(mp) else {}
    m.setdefault("property", sid.split("-")[0])
    demos = [f for f in os.listdir(dst) if f.endswith(".rs")]
    if demos:
        m.setdefault("demonstration", demos[0])
    m["origin"] = "written by a fresh sub-agent that saw only the property text and its own scratch worktree of /repo (nothing from /verif)"
    m["confirmed_by_lead"] = "patch applied to a scratch worktree at /repo HEAD with tools/try_seeded.sh; check run with VERIF_REPO=<worktree> ./check <id> (quick tier, seed 1)"
    m["detected_by"] = detected
    if history:
        m["history"] = history
    json.dump(m, open(mp, "w"), indent=1, ensure_ascii=False)
    print("imported", sid, "->", dst)


main()
