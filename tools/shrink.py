#!/usr/bin/env python3
"""Greedy delta-reduction of a text-based replay case: keeps removing chunks of `case[field]`
while `vrun <prop> --replay` still reports a violation whose signature starts with the given prefix.

usage: tools/shrink.py <prop> <replay.json> <signature-prefix> [field=text]
"""
import json
import os
import subprocess
import sys
import tempfile

ROOT = os.path.dirname(os.path.dirname(os.path.abspath(__file__)))
VRUN = os.path.join(ROOT, "harness", "target", "debug", "vrun")


def fails(prop, case, prefix, tmp):
    path = os.path.join(tmp, "c.json")
    out = os.path.join(tmp, "o.json")
    json.dump({"case": case}, open(path, "w"))
    try:
        p = subprocess.run([VRUN, prop, "--replay", path, "--out", out], stdout=subprocess.DEVNULL,
                           stderr=subprocess.DEVNULL, timeout=60)
    except subprocess.TimeoutExpired:
        return False
    if p.returncode != 0:
        return prefix.startswith("crash")
    try:
        r = json.load(open(out))
    except (OSError, ValueError):
        return False
    return any(v["signature"].startswith(prefix) for v in r["violations"])


def main():
    prop, replay, prefix = sys.argv[1:4]
    field = sys.argv[4] if len(sys.argv) > 4 else "text"
    case = json.load(open(replay))["case"]
    text = case[field]
    # hex-encoded byte fields are reduced in units of one byte (two hex digits)
    unit = 2 if field.endswith("_hex") else 1
    if unit == 2:
        text = [text[i:i + 2] for i in range(0, len(text), 2)]
    join = (lambda t: "".join(t)) if unit == 2 else (lambda t: t)
    with tempfile.TemporaryDirectory(dir=os.path.join(ROOT, "harness", "target")) as tmp:
        assert fails(prop, case, prefix, tmp), "case does not reproduce with that signature prefix"
        n = 2
        while len(text) >= 2:
            chunk = max(1, len(text) // n)
            reduced = False
            i = 0
            while i < len(text):
                cand = text[:i] + text[i + chunk:]
                c2 = dict(case)
                c2[field] = join(cand)
                try:
                    join(cand).encode("utf-8")
                except UnicodeEncodeError:
                    i += chunk
                    continue
                if cand != text and fails(prop, c2, prefix, tmp):
                    text = cand
                    reduced = True
                else:
                    i += chunk
            if not reduced:
                if chunk == 1:
                    break
                n = min(len(text), n * 2)
    case[field] = join(text)
    print(json.dumps(case, ensure_ascii=False))


if __name__ == "__main__":
    main()
