#!/usr/bin/env python3
"""Generate /verif/MANIFEST.json from checklib/meta.py so the manifest and the checks cannot drift."""
import json
import os
import subprocess
import sys

ROOT = os.path.dirname(os.path.dirname(os.path.abspath(__file__)))
sys.path.insert(0, ROOT)
from checklib.meta import META, NOT_APPLICABLE  # noqa: E402

props = [json.loads(l) for l in open(os.path.join(ROOT, "properties.jsonl"))]
ids = [p["id"] for p in props]

hook_commits = []
try:
    out = subprocess.run(["git", "-C", "/repo", "log", "--format=%H %s"], capture_output=True, text=True).stdout
    for line in out.splitlines():
        h, _, subj = line.partition(" ")
        if subj.startswith("verif-hooks"):
            hook_commits.append(h)
except OSError:
    pass

checks = []
for pid in ids:
    if pid not in META:
        continue
    m = META[pid]
    checks.append({
        "property_id": pid,
        "quick_cmd": f"./check {pid} --tier quick",
        "thorough_cmd": f"./check {pid} --tier thorough",
        "evidence_file": f"/verif/evidence/{pid}.json",
        "replay_cmd_template": f"./check {pid} --replay {{path}}",
        "engine": "vharness",
        "level_claimed": {"category": "exploration", "text": m["level_text"], "design_ref": m["design_ref"]},
        "level_note": m["level_note"],
        "technique": m["technique"],
    })

na = []
for pid in ids:
    if pid not in META:
        na.append({"property_id": pid, "reason": NOT_APPLICABLE.get(pid, "check not built yet in this session; not claimed")})

manifest = {
    "version": 1,
    "setup_cmd": "cd /verif && CARGO_NET_OFFLINE=true ./check --setup",
    "hooks": {
        "guard": "cargo feature `verif-hooks` of crate apollo-compiler (off by default)",
        "enable": "the harness crate /verif/harness depends on /repo/crates/apollo-compiler by path with features = [\"verif-hooks\"]; ./check rebuilds it from /repo's working tree on every run",
        "baseline_off_cmd": "cd /repo && cargo test --workspace --no-fail-fast --offline",
        "source_commits": hook_commits,
        "add_only": True,
    },
    "engines": [
        {"name": "vharness", "path": "/verif/harness",
         "serves_properties": [c["property_id"] for c in checks],
         "kind_free_text": "Rust worker binary `vrun` (one runtime monitor per property: generators, reference models, invariant walkers, shadow models) driven by the python orchestrator ./check (sharding, crash attribution, known-finding filter, evidence)"},
    ],
    "checks": checks,
    "not_applicable": na,
    "notes": "Runtime monitoring only: every check executes the real crates built from /repo's working tree and decides with an oracle over observed executions. known_findings.json lists recorded defects (exact signatures) and fixed defects. See DESIGN.md.",
}
json.dump(manifest, open(os.path.join(ROOT, "MANIFEST.json"), "w"), indent=1)
print(f"MANIFEST.json: {len(checks)} checks, {len(na)} not claimed")
