#!/bin/bash
# usage: tools/try_seeded.sh <patch.diff> <Cxx> [tier]
# Applies a seeded break to a scratch worktree of /repo HEAD, runs the check against it through a
# shadow harness crate (VERIF_REPO), prints the verdict lines, and resets the worktree.
set -u
PATCH=$(realpath "$1"); PROP=$2; TIER=${3:-quick}
WT=${SEEDED_WT:-/tmp/wt-seeded}
HEAD=$(git -C /repo rev-parse HEAD)
if [ ! -d $WT ]; then git -C /repo worktree add -q --detach $WT $HEAD; fi
git -C $WT reset -q --hard $HEAD; git -C $WT clean -qfd
if ! git -C $WT apply "$PATCH" 2>/tmp/try_seeded_apply.log; then
  if ! (cd $WT && patch -p1 --fuzz=3 -s --no-backup-if-mismatch < "$PATCH" >>/tmp/try_seeded_apply.log 2>&1); then
    echo "PATCH-DOES-NOT-APPLY $(tail -3 /tmp/try_seeded_apply.log | tr '\n' ' ')"; git -C $WT reset -q --hard $HEAD; git -C $WT clean -qfd; exit 3
  fi
fi
find $WT -name '*.rej' -o -name '*.orig' | grep -q . && echo "WARNING: rejects present"
cd /verif && VERIF_REPO=$WT ./check $PROP --tier $TIER 2>&1 | grep -E "^C[0-9]+ tier|signature=|VIOLATION|INCONCLUSIVE|HARNESS|KNOWN|^error" | cut -c1-220
git -C $WT reset -q --hard $HEAD; git -C $WT clean -qfd
