#!/bin/bash
# usage: tools/confirm_seeded_tests.sh <seeded-id>...   — re-runs the repository's own test suite with
# each seeded patch applied (scratch worktree /tmp/wt-confirm) and records the summary in meta.json.
WT=/tmp/wt-confirm
HEAD=$(git -C /repo rev-parse HEAD)
[ -d $WT ] || git -C /repo worktree add -q --detach $WT $HEAD
cp /repo/Cargo.lock $WT/ 2>/dev/null
for id in "$@"; do
  git -C $WT reset -q --hard $HEAD; git -C $WT clean -qfd -e target -e Cargo.lock
  if ! git -C $WT apply /verif/seeded/$id/patch.diff 2>/dev/null && ! (cd $WT && patch -p1 --fuzz=3 -s --no-backup-if-mismatch < /verif/seeded/$id/patch.diff >/dev/null 2>&1); then echo "$id PATCH-DOES-NOT-APPLY"; continue; fi
  out=$(cd $WT && CARGO_NET_OFFLINE=true cargo test --workspace --no-fail-fast --offline 2>&1 | grep -E "^test result|FAILED|error\[" )
  fails=$(echo "$out" | grep -c -E "FAILED| [1-9][0-9]* failed|error\[")
  passed=$(echo "$out" | grep -oE "ok\. [0-9]+ passed" | awk '{s+=$2} END {print s}')
  echo "$id suite: passed=$passed failing-lines=$fails"
  python3 - "$id" "$passed" "$fails" <<'PY'
import json,sys
p=f"/verif/seeded/{sys.argv[1]}/meta.json"; m=json.load(open(p))
m["suite_rerun_by_lead"]={"command":"cargo test --workspace --no-fail-fast --offline (patch applied at /repo HEAD)","tests_passed":int(sys.argv[2] or 0),"failing_lines":int(sys.argv[3])}
json.dump(m,open(p,"w"),indent=1,ensure_ascii=False)
PY
done
git -C $WT reset -q --hard $HEAD
