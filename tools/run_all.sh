#!/bin/bash
# usage: tools/run_all.sh [tier] [seed] [Cxx ...]  — runs every claimed check (or the listed ones) and prints one summary line each
TIER=${1:-quick}; SEED=${2:-1}
cd "$(dirname "$(realpath "$0")")/.."
shift; shift
LIST="$*"
[ -n "$LIST" ] || LIST=$(python3 -c "import json; print(' '.join(x['property_id'] for x in json.load(open('MANIFEST.json'))['checks']))")
for c in $LIST; do
  t0=$(date +%s)
  out=$(VERIF_SEED=$SEED ./check $c --tier $TIER 2>&1); rc=$?
  echo "$c rc=$rc $(( $(date +%s) - t0 ))s | $(echo "$out" | grep -E "^C[0-9]+ tier" | cut -c1-160)"
  echo "$out" | grep -aE "VIOLATION|INCONCLUSIVE|HARNESS" | cut -c1-200 | head -5
done
