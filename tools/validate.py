#!/usr/bin/env python3-vt
"""Validate MANIFEST.json and evidence/*.json against the schemas in /root/.vp (tooling venv)."""
import glob
import json
import sys

import jsonschema

ok = True
m = json.load(open("/verif/MANIFEST.json"))
jsonschema.validate(m, json.load(open("/root/.vp/MANIFEST.schema.json")))
print("MANIFEST.json valid;", len(m["checks"]), "checks")
es = json.load(open("/root/.vp/EVIDENCE.schema.json"))
for f in sorted(glob.glob("/verif/evidence/*.json")):
    try:
        jsonschema.validate(json.load(open(f)), es)
        print("ok  ", f)
    except jsonschema.ValidationError as e:
        ok = False
        print("FAIL", f, e.message[:200])
sys.exit(0 if ok else 1)
