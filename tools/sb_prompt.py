#!/usr/bin/env python3
"""Print the prompt for a seeded-break sub-agent (property text only, nothing from /verif)."""
import json, sys
props = {json.loads(l)["id"]: json.loads(l) for l in open("/verif/properties.jsonl")}
ids = sys.argv[2:]
tag = sys.argv[1]
out = []
out.append(f"""You are testing how well a verification suite (which you cannot see and must not look for) detects realistic regressions in apollo-rs, a Rust GraphQL toolchain (crates apollo-parser, apollo-compiler, apollo-smith) checked out at /repo (a git repository; pinned commit plus a few local commits). There is no network; everything needed builds offline.

For EACH of the semantic properties below, produce TWO independent source changes to apollo-rs that BREAK the property while (a) still compiling and (b) still passing the whole existing test suite unedited. Prefer changes that look like plausible refactoring slips or "optimisations", and that need something SPECIFIC to manifest — an unusual input, a particular configuration, a multi-step sequence of operations, a particular interleaving, or two cooperating sites that each look fine alone — not ones that ordinary use or the existing tests would expose at once. The two changes for one property must have different root causes in different functions.

Rules:
- Do NOT read, list or use anything under /verif or /root/.vp, and do not search the filesystem for verification tooling: your changes must be independent of it.
- Work ONLY in your own scratch git worktree: `git -C /repo worktree add /tmp/sb-{tag} HEAD` then `cp /repo/Cargo.lock /tmp/sb-{tag}/` (Cargo.lock is git-ignored but needed offline). Never edit /repo itself and never commit anything.
- The existing test suite is `cd /tmp/sb-{tag} && CARGO_NET_OFFLINE=true cargo test --workspace --no-fail-fast --offline` (369 tests plus doc-tests; the first build takes several minutes; other builders share the 16 cores). ALL of it must still pass with each change applied on its own. Check that honestly and paste the `test result:` summary lines.
- For each change write a DEMONSTRATION: a small Rust integration test (a file to drop into `crates/<crate>/tests/` — note apollo-compiler has `autotests = false`, so for that crate write it as a `[[test]]`-free file under `crates/apollo-compiler/examples/` with a `main` that exits non-zero / panics on violation, run with `cargo run --offline -p apollo-compiler --example <name>`) that FAILS with the change applied and PASSES on the unchanged tree. Run it both ways and paste the outputs.
- Deliver each change in its own directory `/tmp/sb-{tag}-out/<property id>-<n>/` containing: `patch.diff` (output of `git -C /tmp/sb-{tag} diff` for that change alone, against HEAD), the demonstration source file(s) with their intended path in a comment at the top, and `meta.json` with keys `property` (id), `summary` (one sentence: what the change does), `needs` (what specific input / configuration / sequence / interleaving it needs in order to manifest), `files` (changed files), `tests` (the summary lines of the full test-suite run with the change), `demo_with_change` and `demo_without_change` (the observed outcomes). Reset the worktree (`git -C /tmp/sb-{tag} checkout -- . && git -C /tmp/sb-{tag} clean -fd -e target -e Cargo.lock`) between changes.
- When completely done: `git -C /repo worktree remove --force /tmp/sb-{tag}` (this also deletes its target directory) and leave only /tmp/sb-{tag}-out.

Your final message must list, per change: the directory, the one-sentence summary, what it needs to manifest, and the evidence that tests pass and the demonstration discriminates. If you could not make a change satisfy all constraints, say so rather than delivering a weaker one.

THE PROPERTIES
""")
for i in ids:
    p = props[i]
    out.append(f"""## {i} — {p['title']}
Statement: {p['statement']}
Quantified over: {p['quantifier']['text']}
Code that is meant to make it hold (starting points): {', '.join(p['anchors']['files'])}
""")
print("\n".join(out))
