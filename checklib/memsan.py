"""Sanitizer / Miri / memcheck variants for the memory-safety and data-race properties (C30, C31).

Called by ./check after the strict run (META[prop]["plugin"] == "memsan"):

  1. asan      nightly -Zsanitizer=address build of the same worker, smaller budget, LSan on
  2. tsan      nightly -Zsanitizer=thread -Zbuild-std build, threaded phases
  3. miri      cargo +nightly miri run ... --miri  (tiny Name/Node/FileId-only workload, Tree Borrows,
               -Zmiri-many-seeds); own target dir harness/target-miri
  4. memcheck  (thorough tier, C30 only) valgrind on the strict binary, second mechanism

Verdict rules: a sanitizer/Miri/memcheck report is a violation with a signature made of the tool,
the report kind and the first frame under crates/; a variant that cannot be built or run (or whose
worker is killed by the watchdog / OOM killer) is INCONCLUSIVE for that variant -- never a
violation and never a silent pass. All paths derive from the arguments; nothing is hard-coded.
"""
import json
import os
import re
import shutil
import subprocess
import time

# per-variant sizes: (workers, budget seconds per worker)
PLAN = {
    "C30": {
        "quick": {"asan": (6, 8), "tsan": (6, 8), "miri_seeds": 16, "miri_timeout": 900},
        "thorough": {"asan": (8, 90), "tsan": (8, 90), "miri_seeds": 64, "miri_timeout": 3600,
                     "memcheck": (4, 40)},
    },
    "C31": {
        "quick": {"asan": (4, 8), "tsan": (4, 10), "miri_seeds": 16, "miri_timeout": 900, "cold_rounds": 3},
        "thorough": {"asan": (8, 60), "tsan": (8, 60), "miri_seeds": 128, "miri_timeout": 3600, "cold_rounds": 16},
    },
}

# which `--mode` each variant runs the monitor in
MODES = {
    # "san": after a shadow-model violation the history still runs to its end and the pool is
    # dropped, so that the tool itself sees the use-after-free / double free / leak
    "C30": {"asan": "san", "tsan": "threads+san+tsan", "memcheck": "san"},
    "C31": {"asan": "small", "tsan": "small"},
}

FRAME_RE = re.compile(r"(crates/apollo-[a-z]+/src/[A-Za-z0-9_/]+\.rs)")


def _read(path, limit=400000):
    try:
        with open(path, "rb") as f:
            return f.read()[-limit:].decode("utf-8", "replace")
    except OSError:
        return ""


def _first_repo_frame(text):
    """First stack frame that lies in the repository under test, searched over the whole report
    (access, previous access, allocation and free stacks): its file when the symbolizer gave one,
    else its module path (apollo_compiler::name), so that line numbers and hashes do not matter."""
    m = FRAME_RE.search(text)
    if m:
        return m.group(1)
    m = re.search(r"(apollo_(?:compiler|parser|smith)::[a-z_]+)", text)
    if m:
        return m.group(1)
    return "no-repo-frame"


def _inflight_case(path):
    """The case the worker recorded before running it (same format as the orchestrator reads)."""
    try:
        b = open(path, "rb").read()
        if len(b) < 8:
            return None
        kl = int.from_bytes(b[0:4], "little")
        bl = int.from_bytes(b[4:8], "little")
        body = b[8 + kl:8 + kl + bl].decode("utf-8", "replace")
    except OSError:
        return None
    try:
        return json.loads(body)
    except ValueError:
        return {"text": body[:2000]}


def _load_result_of_dead_worker(rec):
    """A worker that wrote its result and then died at exit (LSan runs at exit) still has one."""
    if "result" in rec:
        return
    try:
        rec["result"] = json.load(open(rec["out"]))
    except (OSError, ValueError):
        pass


def _asan_kind(text):
    m = re.search(r"ERROR: (AddressSanitizer|LeakSanitizer): ([^\n]*)", text)
    if not m:
        return None
    tool, rest = m.group(1), m.group(2)
    if tool == "LeakSanitizer":
        return "leak"
    kind = rest.split(" on ")[0].split(" in ")[0].split(":")[0].strip()
    kind = re.sub(r"0x[0-9a-f]+", "", kind)
    kind = re.sub(r"\d+", "#", kind).strip()
    return kind[:60] or "report"


def _tsan_kind(text):
    m = re.search(r"(?:WARNING|ERROR): ThreadSanitizer: ([^\n(]*)", text)
    if not m:
        return None
    kind = m.group(1).split(" on ")[0]
    kind = re.sub(r"0x[0-9a-f]+", "", kind)
    return kind.strip()[:60] or "report"


def _merge_counters(extra, prefix, results, keys_sum=None):
    """Add the workers' measured counters to the evidence under `<variant>:` keys."""
    workers = 0
    for rec in results:
        r = rec.get("result")
        if not r:
            continue
        workers += 1
        extra["counters"][f"{prefix}:evaluations"] = extra["counters"].get(f"{prefix}:evaluations", 0) + r["evaluations"]
        for k, v in r["counters"].items():
            if k.startswith("max:"):
                key = f"max:{prefix}:{k[4:]}"
                extra["counters"][key] = max(extra["counters"].get(key, 0), v)
            else:
                key = f"{prefix}:{k}"
                extra["counters"][key] = extra["counters"].get(key, 0) + v
        for v in r["violations"]:
            # the shadow model also runs inside the sanitizer build
            extra["violations"].append(dict(v))
        for inc in r["inconclusive"]:
            extra["inconclusive"].append(dict(inc, variant=prefix))
    extra["counters"][f"{prefix}:workers_completed"] = extra["counters"].get(f"{prefix}:workers_completed", 0) + workers
    return workers


def _try_build(build, variant, extra):
    t0 = time.time()
    try:
        binpath, secs = build(variant)
        return binpath, secs
    except SystemExit:
        extra["inconclusive"].append({"why": f"variant {variant}: build failed (not a verdict)", "variant": variant,
                                      "build_s": round(time.time() - t0, 1)})
    except Exception as e:  # noqa: BLE001 - any toolchain problem is inconclusive, not a verdict
        extra["inconclusive"].append({"why": f"variant {variant}: build could not be started: {e}", "variant": variant})
    return None, 0.0


def _sanitizer_variant(variant, prop, tier, seed, build, run_workers, scratch, extra, plan):
    nworkers, budget = plan[variant]
    t0 = time.time()
    binpath, build_s = _try_build(build, variant, extra)
    note = {"build_s": round(build_s, 1), "workers": nworkers, "budget_s_per_worker": budget}
    if binpath is None:
        extra["notes"][f"memsan_{variant}"] = dict(note, status="build failed: inconclusive")
        extra["counters"][f"{variant}:reports"] = 0
        return
    mode = MODES[prop].get(variant)
    args = ["--mode", mode] if mode else None
    if variant == "asan":
        env = {"ASAN_OPTIONS": "detect_leaks=1:halt_on_error=1:abort_on_error=1:symbolize=1:detect_stack_use_after_return=0",
               "RUST_BACKTRACE": "0"}
    else:
        # ThreadSanitizer does not model atomic fences. triomphe 0.1.16 (third party, behind
        # `Node`) frees an allocation after `fetch_sub(Release)` + `fence(Acquire)`, which TSan
        # reports as a race between `free` and the other thread's atomic decrement (std's own Arc
        # avoids the fence under cfg(sanitize = "thread"); `Name` uses std's Arc and stays fully
        # visible). Exactly that frame is suppressed; the number of matches is recorded.
        os.makedirs(scratch + "-" + variant, exist_ok=True)
        supp = os.path.join(scratch + "-" + variant, "tsan.supp")
        with open(supp, "w") as f:
            f.write("race:triomphe::arc::Arc*drop_slow\n")
        env = {"TSAN_OPTIONS": f"halt_on_error=1:exitcode=66:second_deadlock_stack=1:suppressions={supp}:print_suppressions=1",
               "RUST_BACKTRACE": "0"}
    results = run_workers(binpath, prop, "quick", seed, nworkers, budget, scratch + "-" + variant,
                          extra_env=env, extra_args=args, tag=variant)
    reports = 0
    for rec in results:
        log = _read(rec["log"])
        if variant == "asan":
            kind = _asan_kind(log)
            tool = "asan"
        else:
            kind = _tsan_kind(log)
            if kind is None and rec.get("rc") == 66:
                kind = "report-without-text"
            tool = "tsan"
        case = _inflight_case(rec["inflight"])
        _load_result_of_dead_worker(rec)
        shadow = bool(rec.get("result", {}).get("violations"))
        if kind == "leak" and shadow and "san" not in (mode or "").split("+"):
            # outside "san" mode the monitor deliberately leaks the objects involved in a shadow-model
            # violation (it must not run destructors on a heap it no longer trusts): LSan's report is
            # that, not a new finding
            extra["notes"].setdefault("memsan_lsan_after_shadow_violation", 0)
            extra["notes"]["memsan_lsan_after_shadow_violation"] += 1
            kind = None
            rec["status"] = "ok"
        if kind is not None:
            reports += 1
            pos = log.find("Sanitizer")
            frame = _first_repo_frame(log[max(0, pos - 200):])
            sig = f"{tool}|{kind}|{frame}"
            excerpt = log[max(0, pos - 100):pos + 1800]
            extra["violations"].append({
                "signature": sig, "count": 1,
                "message": f"{tool} build of the worker (shard {rec['shard']}, rc={rec.get('rc')}) reported: {excerpt}",
                "case": case if case is not None else {"note": "no in-flight case recorded"},
            })
        elif rec["status"] == "watchdog":
            extra["inconclusive"].append({"why": f"variant {variant}: wall-clock watchdog fired (not a verdict)", "variant": variant, "shard": rec["shard"]})
        elif rec["status"] != "ok" or "result" not in rec:
            rc = rec.get("rc")
            if rc in (-9, 137):
                extra["inconclusive"].append({"why": f"variant {variant}: worker killed (rc={rc}, OOM killer?), not a verdict", "variant": variant, "shard": rec["shard"]})
            else:
                # died under the sanitizer without a report text (e.g. a signal the runtime did not intercept)
                reports += 1
                extra["violations"].append({
                    "signature": f"{tool}|worker-died|rc{rc}", "count": 1,
                    "message": f"{tool} build of the worker (shard {rec['shard']}) died with rc={rc} without a sanitizer report; log tail: {log[-600:]}",
                    "case": case if case is not None else {"note": "no in-flight case recorded"},
                })
    if variant == "tsan":
        matched = 0
        for rec in results:
            for m in re.finditer(r"^(\d+) race:triomphe", _read(rec["log"]), re.M):
                matched += int(m.group(1))
        extra["counters"]["tsan:suppressed_triomphe_fence_reports"] = matched
    done = _merge_counters(extra, variant, results)
    extra["counters"][f"{variant}:reports"] = extra["counters"].get(f"{variant}:reports", 0) + reports
    extra["counters"][f"{variant}:workers"] = nworkers
    if done == 0 and reports == 0:
        extra["inconclusive"].append({"why": f"variant {variant}: no worker completed", "variant": variant})
    extra["notes"][f"memsan_{variant}"] = dict(note, mode=mode or "full", workers_completed=done, reports=reports,
                                               wall_s=round(time.time() - t0, 1))


MIRI_ERR_RE = re.compile(r"^error: (.*)$", re.M)


def _miri_kind(msg):
    m = msg.lower()
    if "data race" in m:
        return "data-race"
    if "memory leaked" in m:
        return "leak"
    if "undefined behavior" in m:
        # one class for all UB: the message depends on where a dangling pointer first surfaces;
        # the first frame under crates/ (part of the signature) separates root causes
        return "ub"
    if "deadlock" in m:
        return "deadlock"
    return None


def _miri(prop, tier, seed, scratch, extra, env_offline, plan, hdir):
    seeds = plan["miri_seeds"]
    t0 = time.time()
    target = os.path.join(hdir, "target-miri")
    outdir = scratch + "-miri"
    os.makedirs(outdir, exist_ok=True)
    out = os.path.join(outdir, "miri.json")
    log = os.path.join(outdir, "miri.log")
    env = env_offline()
    flags = f"-Zmiri-tree-borrows -Zmiri-disable-isolation -Zmiri-many-seeds=0..{seeds}"
    if prop == "C31":
        # the FileId race workload: make the scheduler preempt often so that a non-atomic
        # read-modify-write of the counter is interleaved under most seeds
        flags += " -Zmiri-preemption-rate=0.3"
    env["MIRIFLAGS"] = flags
    env.pop("RUSTFLAGS", None)
    cmd = ["cargo", "+nightly", "miri", "run", "--offline", "--bin", "vrun", "--target-dir", target, "--",
           prop, "--tier", tier, "--seed", str(seed), "--shard", "0/1", "--budget-s", "600", "--out", out, "--miri"]
    note = {"seeds": seeds, "flags": flags}
    # Build first (interpreting only `vrun --list`), so that the seeds' timeout does not include
    # compiling the dependencies for Miri.
    benv = dict(env)
    benv["MIRIFLAGS"] = "-Zmiri-disable-isolation"
    bcmd = cmd[:cmd.index("--") + 1] + ["--list"]
    tb = time.time()
    try:
        with open(os.path.join(outdir, "miri-build.log"), "wb") as lf:
            bp = subprocess.run(bcmd, cwd=hdir, env=benv, stdout=lf, stderr=subprocess.STDOUT, timeout=5400)
        brc = bp.returncode
    except (subprocess.TimeoutExpired, OSError) as e:
        brc = f"{type(e).__name__}"
    note["build_s"] = round(time.time() - tb, 1)
    if brc != 0:
        extra["inconclusive"].append({"why": f"variant miri: building/starting the worker under Miri failed ({brc}), not a verdict",
                                      "variant": "miri", "log_tail": _read(os.path.join(outdir, "miri-build.log"))[-600:]})
        extra["notes"]["memsan_miri"] = dict(note, status="build failed: inconclusive")
        extra["counters"]["miri:reports"] = 0
        return
    try:
        with open(log, "wb") as lf:
            p = subprocess.run(cmd, cwd=hdir, env=env, stdout=lf, stderr=subprocess.STDOUT, timeout=plan["miri_timeout"])
        rc = p.returncode
    except subprocess.TimeoutExpired:
        extra["inconclusive"].append({"why": f"variant miri: timed out after {plan['miri_timeout']} s (not a verdict)", "variant": "miri"})
        extra["notes"]["memsan_miri"] = dict(note, status="timeout: inconclusive", wall_s=round(time.time() - t0, 1))
        extra["counters"]["miri:reports"] = 0
        return
    except OSError as e:
        extra["inconclusive"].append({"why": f"variant miri: cannot run cargo miri: {e}", "variant": "miri"})
        extra["notes"]["memsan_miri"] = dict(note, status="cannot run: inconclusive")
        extra["counters"]["miri:reports"] = 0
        return
    text = _read(log, 4000000)
    seeds_done = 0
    orders = set()
    shadow_violations = 0
    for line in text.splitlines():
        if line.startswith("VERIF-MIRI-SUMMARY "):
            try:
                r = json.loads(line[len("VERIF-MIRI-SUMMARY "):])
            except ValueError:
                continue
            seeds_done += 1
            extra["counters"]["miri:evaluations"] = extra["counters"].get("miri:evaluations", 0) + r.get("evaluations", 0)
            for k, v in r.get("counters", {}).items():
                if k.startswith("max:"):
                    key = f"max:miri:{k[4:]}"
                    extra["counters"][key] = max(extra["counters"].get(key, 0), v)
                else:
                    extra["counters"][f"miri:{k}"] = extra["counters"].get(f"miri:{k}", 0) + v
            for o in r.get("notes", {}).get("id_orders", []):
                orders.add(o)
            for v in r.get("violations", []):
                shadow_violations += 1
                extra["violations"].append(dict(v))
    reports = 0
    for m in MIRI_ERR_RE.finditer(text):
        kind = _miri_kind(m.group(1))
        if kind is None:
            continue
        reports += 1
        tail = text[m.start():m.start() + 3000]
        frame = _first_repo_frame(tail)
        extra["violations"].append({
            "signature": f"miri|{kind}|{frame}", "count": 1,
            "message": f"Miri (Tree Borrows, {flags}) reported: {tail[:1500]}",
            "case": {"command": " ".join(cmd[cmd.index('--') + 1:]), "MIRIFLAGS": flags},
        })
    extra["counters"]["miri:seeds_completed"] = seeds_done
    extra["counters"]["miri:seeds_requested"] = seeds
    extra["counters"]["miri:reports"] = reports
    if orders:
        extra["counters"]["miri:distinct_id_orders_observed"] = len(orders)
    status = "ok"
    if reports == 0 and shadow_violations == 0 and (rc != 0 or seeds_done < seeds):
        # build failure, unsupported operation, interpreter abort: no verdict from this variant
        status = f"rc={rc}, {seeds_done}/{seeds} seeds completed: inconclusive"
        extra["inconclusive"].append({"why": f"variant miri: cargo miri exited with {rc} after {seeds_done}/{seeds} seeds without a UB/race/leak report (not a verdict)",
                                      "variant": "miri", "log_tail": text[-800:]})
    extra["notes"]["memsan_miri"] = dict(note, status=status, seeds_completed=seeds_done, reports=reports,
                                         wall_s=round(time.time() - t0, 1))


def _memcheck(prop, tier, seed, run_workers, scratch, extra, plan, strict_bin):
    if "memcheck" not in plan:
        return
    t0 = time.time()
    vg = shutil.which("valgrind")
    if vg is None:
        extra["inconclusive"].append({"why": "variant memcheck: valgrind not found (not a verdict)", "variant": "memcheck"})
        return
    nworkers, budget = plan["memcheck"]
    outdir = scratch + "-memcheck"
    os.makedirs(outdir, exist_ok=True)
    wrapper = os.path.join(outdir, "vg-vrun.sh")
    with open(wrapper, "w") as f:
        f.write("#!/bin/sh\nexec '%s' --error-exitcode=9 --leak-check=full --errors-for-leak-kinds=definite "
                "--show-leak-kinds=definite -q '%s' \"$@\"\n" % (vg, strict_bin))
    os.chmod(wrapper, 0o755)
    mode = MODES[prop].get("memcheck")
    results = run_workers(wrapper, prop, "quick", seed, nworkers, budget, outdir,
                          extra_args=["--mode", mode] if mode else None, tag="memcheck")
    reports = 0
    for rec in results:
        log = _read(rec["log"])
        bad = re.search(r"==\d+== (Invalid (read|write|free)[^\n]*|Mismatched free[^\n]*|[\d,]+ bytes in [\d,]+ blocks are definitely lost[^\n]*|Use of uninitialised[^\n]*|Conditional jump[^\n]*)", log)
        if bad or rec.get("rc") == 9:
            reports += 1
            what = bad.group(1) if bad else "error-exitcode"
            kind = re.sub(r"[\d,]+", "#", what.split(" of size")[0])[:50]
            frame = _first_repo_frame(log[bad.start():] if bad else log)
            extra["violations"].append({
                "signature": f"memcheck|{kind}|{frame}", "count": 1,
                "message": f"valgrind memcheck on the strict worker (shard {rec['shard']}) reported: {log[bad.start():bad.start() + 1500] if bad else log[-1500:]}",
                "case": {"note": "see the worker log", "shard": rec["shard"]},
            })
        elif rec["status"] != "ok":
            extra["inconclusive"].append({"why": f"variant memcheck: worker {rec['status']} rc={rec.get('rc')} without a memcheck report (not a verdict)",
                                          "variant": "memcheck", "log_tail": log[-400:]})
    done = _merge_counters(extra, "memcheck", results)
    extra["counters"]["memcheck:reports"] = reports
    extra["notes"]["memsan_memcheck"] = {"workers": nworkers, "budget_s_per_worker": budget, "workers_completed": done,
                                         "reports": reports, "wall_s": round(time.time() - t0, 1)}


def _cold_processes(prop, tier, seed, run_workers, scratch, extra, plan, strict_bin):
    """C31: many short fresh processes whose first action is the cold-start race."""
    rounds = plan.get("cold_rounds", 0)
    t0 = time.time()
    procs = 0
    for r in range(rounds):
        results = run_workers(strict_bin, prop, "quick", seed * 1000 + r, 16, 5, scratch + "-cold",
                              extra_args=["--mode", "cold"], tag=f"cold{r}_")
        procs += _merge_counters(extra, "cold", results)
        for rec in results:
            if rec["status"] != "ok" or "result" not in rec:
                extra["inconclusive"].append({"why": f"cold-start process {rec['status']} rc={rec.get('rc')} (not a verdict)",
                                              "variant": "cold", "log_tail": _read(rec["log"])[-300:]})
    extra["notes"]["memsan_cold"] = {"rounds": rounds, "processes_completed": procs, "wall_s": round(time.time() - t0, 1)}


def run(prop, tier, seed, build, run_workers, scratch, extra, root, harness, env_offline, strict_bin, **_):
    plan = PLAN[prop][tier if tier in PLAN[prop] else "quick"]
    # the crate that was built for this run (a shadow copy when VERIF_REPO points elsewhere):
    # scratch = <crate>/target/runs/<prop>-<tier>
    hdir = os.path.normpath(os.path.join(scratch, "..", "..", ".."))
    if not os.path.exists(os.path.join(hdir, "Cargo.toml")):
        hdir = harness
    skip = set(filter(None, os.environ.get("VERIF_MEMSAN_SKIP", "").split(",")))
    if prop == "C31" and "cold" not in skip:
        _cold_processes(prop, tier, seed, run_workers, scratch, extra, plan, strict_bin)
    for variant in ("asan", "tsan"):
        if variant in skip:
            extra["inconclusive"].append({"why": f"variant {variant}: skipped by VERIF_MEMSAN_SKIP", "variant": variant})
            continue
        _sanitizer_variant(variant, prop, tier, seed, build, run_workers, scratch, extra, plan)
    if "miri" in skip:
        extra["inconclusive"].append({"why": "variant miri: skipped by VERIF_MEMSAN_SKIP", "variant": "miri"})
    else:
        _miri(prop, tier, seed, scratch, extra, env_offline, plan, hdir)
    if "memcheck" in skip:
        if "memcheck" in plan:
            extra["inconclusive"].append({"why": "variant memcheck: skipped by VERIF_MEMSAN_SKIP", "variant": "memcheck"})
    else:
        _memcheck(prop, tier, seed, run_workers, scratch, extra, plan, strict_bin)
