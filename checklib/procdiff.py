"""C22 plug-in: offline checker over the per-process digest logs.

Every worker process computed the digests of the same seed-derived input list (the monitor puts
them in notes `digests_shard_<i>`); equal inputs must give equal digests in all processes."""

OUTPUT_KINDS = [
    "schema_serialization", "schema_diagnostics", "executable_serialization", "executable_diagnostics",
    "mixed_diagnostics", "standalone_diagnostics", "introspection_json", "multi_file_diagnostics", "smith_document",
]


def run(extra, notes, results, **_):
    logs = {}
    hashes = set()
    for k in list(notes.keys()):
        if k.startswith("digests_shard_"):
            logs[int(k.rsplit("_", 1)[1])] = notes.pop(k)
        elif k.startswith("input_list_hash_shard_"):
            hashes.add(notes.pop(k))
    inputs = notes.pop("inputs", [])
    procs = sorted(logs)
    notes["processes_compared"] = len(procs)
    if len(procs) < 2:
        extra["inconclusive"].append({"why": "fewer than two worker processes produced a digest log"})
        return
    if len(hashes) != 1:
        extra["inconclusive"].append({"why": "workers did not derive the same input list (harness problem, not a verdict)"})
        return
    n = min(len(logs[p]) for p in procs)
    compared = 0
    differing = {}
    for i in range(n):
        rows = [logs[p][i] for p in procs]
        if any(r is None for r in rows):
            continue
        for k, kind in enumerate(OUTPUT_KINDS):
            vals = {r[k] for r in rows}
            compared += 1
            if len(vals) > 1:
                sig = f"cross-process-nondeterminism|{kind}"
                case = dict(inputs[i]) if i < len(inputs) else {"index": i}
                case["digests"] = rows[0]
                cur = differing.get(sig)
                if cur is None or len(str(case)) < len(str(cur["case"])):
                    differing[sig] = {"signature": sig, "count": differing.get(sig, {}).get("count", 0) + 1,
                                      "message": f"{len(vals)} different {kind} outputs for the same input across {len(procs)} processes",
                                      "case": case}
                else:
                    cur["count"] += 1
    extra["violations"].extend(differing.values())
    extra["counters"]["cross_process_digest_comparisons"] = compared
    notes["inputs_compared_across_processes"] = n
