"""Per-property metadata used by ./check (budgets, coverage floors, evidence wording) and by
tools/gen_manifest.py (MANIFEST.json is generated from this table so the two cannot drift)."""

COMMON_ASSUMPTIONS = [
    "explored, not proved: the verdict covers exactly the executions counted in coverage",
    "worker built from /repo's current working tree with opt-level=2, debug-assertions and overflow-checks on, feature verif-hooks",
]

def _per_tier(common, key, quick, thorough):
    """Floors that are the same in both tiers except for one class set (the exhaustive bounds)."""
    q = dict(common)
    q[key] = quick
    t = dict(common)
    t[key] = thorough
    return {"quick": q, "thorough": t}


_C17_RULES = [
    "ExecutableDefinitions", "OperationNameUniqueness", "LoneAnonymousOperation", "UndefinedRootOperationType",
    "SingleRootField", "SubscriptionRootSkipInclude", "FieldsOnCorrectType", "OverlappingFieldsCanBeMerged",
    "ScalarLeafs", "KnownArgumentNames", "UniqueArgumentNames", "ProvidedRequiredArguments",
    "FragmentNameUniqueness", "FragmentSpreadTypeExistence", "FragmentsOnCompositeTypes", "NoUnusedFragments",
    "KnownFragmentNames", "NoFragmentCycles", "PossibleFragmentSpreads", "ValuesOfCorrectType",
    "UniqueInputFieldNames", "KnownDirectives", "UniqueDirectivesPerLocation", "UniqueVariableNames",
    "VariablesAreInputTypes", "NoUndefinedVariables", "NoUnusedVariables", "VariablesInAllowedPosition",
]


META = {
    "C01": {
        "budget": {"quick": 45, "thorough": 600},
        "rule": "inputs: regression witnesses, 28 nesting/chain families x depths around every limit constant x limit settings, "
                "char-boundary prefixes of every corpus file, then random char/lexeme soup, token mutants, splices, wrapped and infix corpus texts "
                "with random token/recursion limits; every case goes through lexer (lex + externally driven iterator with a len+2 progress bound), "
                "the three apollo-parser entry points and the compiler's parse entry points under catch_unwind (2 MiB stack when longer than 256 bytes). "
                "distinct_nontrivial = distinct (text, token limit, recursion limit) triples executed",
        "assumptions": COMMON_ASSUMPTIONS + [
            "stack safety is claimed for recursion limits up to the default (500) on a 2 MiB stack; larger user-set limits are combined only with inputs of at most 500 opening brackets",
            "non-termination is observed through the parser's compiled-in progress assertions, the step-bounded lexer driver and the run watchdog (whose firing is inconclusive, never a violation)",
        ],
        "floors": {"any": {"source": ["nested", "corpus_prefix_sweep", "char_soup", "lexeme_soup", "corpus_mutant"]}},
        "crash_class": "parse",
        "technique": "runtime monitoring: panic/abort/progress monitors over generated hostile inputs x limit configurations, child-process crash attribution",
        "level_text": "Exploration: every parse entry point is executed on 10^5-10^7 hostile inputs x limit settings with panic, abort and progress monitors; a universally quantified no-panic claim can only be sampled, and the sample is aimed at the limit constants and error-recovery paths.",
        "level_note": "Trusts catch_unwind + process-death attribution to see every panic/overflow; hangs are seen via debug assertions compiled into the parser and a step-bounded lexer driver; wall-clock is never a verdict.",
        "design_ref": "DESIGN.md section 6, C01",
    },
    "C02": {
        "budget": {"quick": 35, "thorough": 480},
        "rule": "inputs: one lexical/syntactic error injected or substituted at every token position of valid corpus documents, all corpus files (also with recursion limits 0,1,2,5), "
                "then random hostile inputs; oracle walks descendants_with_tokens(): contiguous token ranges from 0 to len, token text == input slice, node range == span of children, char boundaries. "
                "distinct_nontrivial = distinct inputs that had at least one parse error AND at least one ERROR token in the tree",
        "assumptions": COMMON_ASSUMPTIONS + [
            "no token limit is set (as the property states); with a recursion-limit error only the prefix property is required",
        ],
        "floors": {"any": {"source": ["inject_at_position", "replace_at_position", "corpus", "corpus_mutant"]}},
        "technique": "runtime monitoring: structural invariant walk of the CST against the input on generated and error-injected inputs",
        "level_text": "Exploration: the lossless-tree invariant is asserted on every tree produced for 10^5-10^6 inputs with errors injected at every grammar position reached by the corpus.",
        "level_note": "Trusts rowan's text_range/descendants_with_tokens as the observation of the tree; inputs that make the parser panic are C01's business and are skipped here (counted).",
        "design_ref": "DESIGN.md section 6, C02",
    },
    "C12": {
        "budget": {"quick": 35, "thorough": 480},
        "rule": "schema texts: hand-written specials (implicit/explicit schema, schema extensions, renamed roots, redefined built-in directives, built-in scalar extensions), "
                "EXHAUSTIVE root-name matrix (per operation kind: default-named type absent / object / interface x schema entry none / default name / custom-named object, 729 documents), "
                "EXHAUSTIVE placements of one definition plus every subset of up to three extensions of the same type in every order for all six type kinds, the type-system part of every corpus file, "
                "apollo-smith schemas, and model-generated schemas (plain and with random trivia); for each schema built without errors: serialize (default and no_indent), re-parse, "
                "compare ordered digest (types, fields, arguments, enum values, members, interfaces, directive applications, root operations in order), PartialEq, second serialization byte-identical, validity preserved. "
                "distinct_nontrivial = distinct texts that built without errors and have >= 8 digest lines",
        "assumptions": COMMON_ASSUMPTIONS + [
            "schemas that do not build cleanly are outside the property and are skipped (counted)",
            "the ordered digest is computed by the harness through apollo's public Schema API; built-in types and unredefined built-in directives are not part of it",
        ],
        "floors": {"any": {"source": ["special", "default_named_non_object_root", "root_name_matrix", "extension_interleaving", "corpus", "model_plain", "model_trivia", "smith"],
                           "interleaving_kind": ["type", "interface", "enum", "input", "union", "scalar"]}},
        "exhaustive_subspaces": {"quick": ["all orders of {definition} + every subset of 3 (2 for scalar) extensions of one type, for the six type kinds (256 placements)", "root-name matrix: 9^3 = 729 documents"],
                                 "thorough": ["all orders of {definition} + every subset of 3 (2 for scalar) extensions of one type, for the six type kinds (256 placements)", "root-name matrix: 9^3 = 729 documents"]},
        "technique": "runtime monitoring: metamorphic round-trip monitor with an ordered-digest oracle over generated, corpus and exhaustively interleaved schemas",
        "level_text": "Exploration: every schema that builds cleanly among 10^5-10^6 generated/corpus/smith inputs plus an exhaustive small space of definition/extension placements is serialized, re-parsed and compared by an order-sensitive digest.",
        "level_note": "Metamorphic: trusts apollo's parser to read back what the serializer wrote (C08/C05 cover that separately); the digest is the harness's own walk of the public Schema API.",
        "design_ref": "DESIGN.md section 6, C12",
    },
    "C13": {
        "budget": {"quick": 35, "thorough": 480},
        "rule": "model-generated type-system documents (with extensions), 2/3 of them with one deliberate collision (duplicate type/directive, kind-mismatched or orphan extension, duplicate component in an extension, "
                "extra schema definition, duplicate root operation, built-in redefinition, executable definition in a schema source), printed one definition at a time; claim 1: every cut into <= 3 consecutive sources "
                "(exhaustive for <= 6 definitions, random beyond) fed to Schema::builder (with and without adopt_orphan_extensions) vs the concatenation: same ok/err, same ordered digest, same ordered diagnostic messages; "
                "claim 2: every extension sitting after its definition is moved before it: same ok/err, PartialEq, digest (ordered when it is the only extension of its target), same multiset of messages; "
                "claim 1 also for executable documents through ExecutableDocument::builder with and without schema (duplicate definitions, several anonymous operations, type-system definitions mixed in). "
                "distinct_nontrivial = distinct multi-source splits that contain an extension or produce a diagnostic, plus distinct moves",
        "assumptions": COMMON_ASSUMPTIONS + [
            "each source is a sequence of complete definitions (as the property's quantifier states)",
            "for the move claim, when the target has several extensions only the order-insensitive digest is compared (the property says the built schema does not change; Schema equality ignores map order)",
        ],
        "floors": {"any": {"collision": ["duplicate-type", "kind-mismatched-extension", "orphan-type-extension", "duplicate-component-in-extension", "extra-schema-definition", "none"],
                           "move_kind": ["type-extension", "kind-mismatched-type-extension", "schema-extension"],
                           "exec_split_mode": ["with-schema", "without-schema"],
                           "split_outcome": ["builds", "build-errors"]}},
        "technique": "runtime monitoring: metamorphic monitor comparing multi-source builder histories with the concatenated build (ordered digest + diagnostic messages) on generated documents with injected collisions",
        "level_text": "Exploration: 10^5-10^6 builder histories (all cuts of small documents, all extension moves) are compared with the single-source build by an order-sensitive digest and the diagnostic message list.",
        "level_note": "Metamorphic: both sides go through apollo's parser and builder; the relation between them is the property. The digest is the harness's own walk of the public Schema API.",
        "design_ref": "DESIGN.md section 6, C13",
    },
    "C16": {
        "budget": {"quick": 25, "thorough": 240},
        "rule": "valid schemas from the model generator, the corpus (type-system part) and fixed bases; (a) re-validate unchanged: must succeed with equal schema, equal ordered digest and equal type-name set; "
                "(b) random histories of 2-12 steps {add field / argument / input field / directive definition of built-in scalar type T, remove last added, validate} plus, for every base x every built-in scalar x every edit kind, "
                "the exact history validate, add, validate, remove, validate, add, validate; after every validate the built-in scalars present in `types` must equal the referenced ones recomputed by the harness's own walk (shadow model) and validation must succeed; "
                "(c) Valid<ExecutableDocument>::into_inner().validate(schema) succeeds and leaves the document unchanged. distinct_nontrivial = distinct (schema, history) pairs with >= 2 validate steps",
        "assumptions": COMMON_ASSUMPTIONS + [
            "edits are validity-preserving by construction (fresh names, nullable built-in scalar types)",
            "`referenced` = inner named type of any field, argument, input field or directive-definition argument, built-in definitions included (so String and Boolean are always referenced)",
        ],
        "floors": {"any": {"step": ["add_field", "add_argument", "add_input_field", "add_directive_definition", "remove_last_added", "validate", "exec_revalidate"],
                           "source": ["model", "corpus"]}},
        "technique": "runtime monitoring: history monitor with a shadow model (set of referenced built-in scalars) over validate/unwrap/edit/validate sequences",
        "level_text": "Exploration: 10^5 validate/edit histories over generated and corpus schemas are checked after every validate against a shadow model recomputed independently.",
        "level_note": "The shadow model is the harness's own walk of the public Schema API; edits go through Node::make_mut on the unwrapped schema as a user would.",
        "design_ref": "DESIGN.md section 6, C16",
    },
    "C19": {
        "budget": {"quick": 35, "thorough": 480},
        "rule": "valid (schema, executable) pairs from the model generators (plain and trivia printing), corpus and apollo-smith mixed documents; each valid executable document is serialized with 17 configurations "
                "(default, no_indent, 5 whitespace prefixes x 3 initial levels), re-parsed and re-validated against the same schema and compared with PartialEq, second serialization byte-identical; "
                "field sets generated against object/interface types (with and without outer braces) likewise; mixed texts: parse_mixed_validate, serialize both, concatenate, parse_mixed_validate, equal schema and document. "
                "distinct_nontrivial = distinct valid documents / field sets / mixed texts round-tripped",
        "assumptions": COMMON_ASSUMPTIONS + [
            "validity (the property's precondition) is judged by apollo itself; invalid pairs are skipped and counted",
            "documents without any definition are excluded: an empty ExecutableDocument serializes to the empty string, which is not a GraphQL Document",
        ],
        "floors": {"any": {"kind": ["doc", "field_set", "mixed"], "source": ["model", "corpus_mixed", "smith_mixed"]}},
        "technique": "runtime monitoring: metamorphic round-trip monitor over generated valid pairs x serialization configurations",
        "level_text": "Exploration: 10^4-10^5 valid documents, field sets and mixed texts x 17 serialization configurations are round-tripped and compared.",
        "level_note": "Metamorphic: trusts ExecutableDocument/FieldSet PartialEq (which ignores locations) as the notion of `equal document`.",
        "design_ref": "DESIGN.md section 6, C19",
    },
    "C21": {
        "budget": {"quick": 55, "thorough": 720},
        "quiet_stderr": True,
        "rule": "texts: chains of five kinds (nested/flat fragment chains, directive-definition chains, input-object chains, nested selections) at 1/4, 1/2, limit-1, limit, limit+1, 2x, 3x each documented limit and random lengths, "
                "25 hand-written cycles and edge files (fragment, input-object, directive-definition and interface cycles, also behind acyclic prefixes), random reference graphs over 2-6 fragments / input objects / directive definitions / interfaces, every corpus file, token mutants of corpus and model documents, apollo-smith documents (also mutated), hostile text soup; each text runs the whole pipeline on a 2 MiB stack: "
                "Document::parse, AST serialization, to_schema, to_schema_validate, to_executable(_validate), to_mixed_validate, validate_standalone_executable, check_max_depth, full introspection query through partial_execute, "
                "and every diagnostic of every list is rendered (Display, Debug/colour path, to_report, to_json, unstable compat JSON, line_column_range) and the list order is checked. "
                "distinct_nontrivial = distinct texts that produced at least one diagnostic",
        "assumptions": COMMON_ASSUMPTIONS + [
            "limit probes keep a factor-2 margin on both sides of each documented limit so that off-by-one choices are not judged",
            "documents are capped at 64 KiB and chains at 600 links (validation cost is legitimately quadratic in chain length)",
        ],
        "floors": {"any": {"source": ["limit_chain", "cycle_or_edge", "corpus", "corpus_mutant", "model_mutant", "smith", "random_fragment_graph", "random_definition_graph"],
                           "stage_with_diagnostics_or_output": ["parse", "to_schema_validate", "to_executable_validate", "to_mixed_validate", "standalone", "introspection"]}},
        "crash_class": "compiler",
        "technique": "runtime monitoring: panic/abort monitor over the whole build-validate-serialize-introspect-render pipeline on adversarial generated inputs, plus sortedness and limit-enforcement assertions",
        "level_text": "Exploration: 10^4-10^5 adversarial texts run the complete pipeline on a 2 MiB stack in child processes; every diagnostic produced is rendered in every format.",
        "level_note": "Trusts catch_unwind + process-death attribution; wall-clock is never a verdict; ariadne's stderr complaints about missing sources are not panics and are ignored.",
        "design_ref": "DESIGN.md section 6, C21",
    },
    "C22": {
        "budget": {"quick": 120, "thorough": 900},
        "plugin": "procdiff",
        "rule": "a seed-derived list of 5000 (quick) / 40000 (thorough) inputs — hand-written diagnostics-rich documents with every problem at >= 3 (here 6) distinct names, corpus diagnostics/ok files, "
                "valid and token-mutated model documents, apollo-smith byte strings — is processed by EVERY worker process (16 independent processes, each with its own random hash seeds); per input 9 outputs are digested "
                "(schema serialization, schema diagnostics with positions, executable serialization and diagnostics, mixed and standalone diagnostics, introspection JSON, multi-file build diagnostics, smith document) "
                "and the per-process logs are compared offline; each worker also computes everything twice. distinct_nontrivial = distinct inputs with >= 2 non-empty outputs (counted once although every process handles them)",
        "assumptions": COMMON_ASSUMPTIONS + [
            "an order dependence over a 2-element collection survives K processes with probability 2^-(K-1) per site; inputs therefore carry >= 3 elements per order-dependent collection and K = 16",
            "the budget is a cap, not the work size: every process completes the same list",
        ],
        "floors": {"any": {"output_kind_observed": ["schema_serialization", "schema_diagnostics", "executable_serialization", "executable_diagnostics", "mixed_diagnostics",
                                                     "standalone_diagnostics", "introspection_json", "multi_file_diagnostics", "smith_document"],
                           "source": ["rich", "corpus_diagnostics", "model_valid", "model_mutant", "smith_bytes"]}},
        "technique": "runtime monitoring: offline checker over per-process output-digest logs from 16 independently hash-seeded processes",
        "level_text": "Exploration: the same 5000-40000 inputs are compiled, validated, serialized and introspected in 16 independent processes and all outputs compared byte-wise through digests.",
        "level_note": "Compares digests (64-bit FNV) rather than full outputs; a collision could hide a difference with probability ~2^-64 per comparison.",
        "design_ref": "DESIGN.md section 6, C22",
    },
    "C32": {
        "budget": {"quick": 50, "thorough": 720},
        "rule": "byte strings of length 0-16 KiB (random, constant, ramps, sparse, tiny byte alphabets that make generated names short and colliding, mutants of inputs that produced a new definition kind) with 1-6 definitions per kind or DocumentBuilder's default configuration: DocumentBuilder::build must not panic, "
                "an Ok document must have no syntax errors and pass to_mixed_validate, and two builds from the same bytes must be identical (cross-process determinism is C22's); "
                "operations from with_document(parsed schema).operation_definition() for schemas from the model generator (explicit schema definition), the corpus and apollo-smith itself must validate against that schema and generation must not panic. "
                "Any arbitrary::Error counts as the allowed `input exhausted` outcome. distinct_nontrivial = distinct generated documents plus distinct (schema, operation) pairs",
        "assumptions": COMMON_ASSUMPTIONS + [
            "documents or operations nested deeper than apollo's default parser recursion limit cannot be judged by apollo and are counted, not judged",
            "validity is judged by apollo-compiler (C14/C17 check that validator against reference models)",
        ],
        "floors": {"any": {"outcome": ["document"], "operation_outcome": ["operation"],
                           "configuration": ["default", "max-per-kind"],
                           "operation_schema_source": ["model", "corpus", "smith"],
                           "definition_kind_generated": ["type", "interface", "union", "enum", "input", "scalar", "directive", "query"]}},
        "crash_class": "smith",
        "technique": "runtime monitoring: validity and determinism monitor over apollo-smith outputs for generated byte strings, with child-process crash attribution",
        "level_text": "Exploration: 10^4-10^5 byte strings and (schema, bytes) pairs are fed to apollo-smith; every output is parsed and validated and generation is repeated to check determinism.",
        "level_note": "Trusts apollo-compiler's validation as the judge of validity; stack overflows are attributed through the in-flight case file and confirmed in a fresh process.",
        "design_ref": "DESIGN.md section 6, C32",
    },
    "C24": {
        "budget": {"quick": 45, "thorough": 700},
        "rule": "inputs: (A) model path - schemas from the harness generator (all six kinds, descriptions, @deprecated on fields/args/input fields/enum values, "
                "default values of every allowed kind, interfaces implementing interfaces, unions, custom scalars with @specifiedBy, repeatable directives, "
                "type and schema extensions before/after the definition, renamed roots, schema description), printed plainly (3/4) or with random trivia and block strings (1/4); "
                "(B) parsed path - two fixed schemas, every corpus file whose type-system part apollo-rs validates, apollo-smith documents, converted from apollo's AST. "
                "For each schema apollo-rs validates: the graphql-js v16 full introspection query (descriptions, specifiedByURL, isRepeatable, schema description, input-value deprecation) "
                "is run through introspection::partial_execute; errors must be empty and data, after sorting types/directives by name and the fields of __* types by name, "
                "must equal RefIntrospection(model); then the same query with one concrete root field (required arguments supplied, with or without alias, before or after __schema) "
                "must give the same data with no key for that field and no error. "
                "distinct_nontrivial = distinct SDL texts that apollo-rs validated, that lie inside the envelope, and whose whole response was compared with the reference",
        "assumptions": COMMON_ASSUMPTIONS + [
            "the oracle is a reference model written in the harness from the October 2021 specification and graphql-js v16 semantics (buildASTSchema + introspectionFromSchema); it is not graphql-js or graphql-core, which are not available offline",
            "default values are restricted to the class where graphql-js's coerce-and-reprint is unambiguous: 32-bit Int, Float with a non-zero fraction in plain decimal form, printable-ASCII strings without quote or backslash, "
            "booleans, enum values, null, list literals of those, input-object literals with fields in definition order that omit no field having a default, ID strings that do not look like integers; "
            "schemas with other defaults are skipped and counted (generated ones are inside by construction)",
            "descriptions of the built-in __* types (their fields, arguments, enum values), of Int/Float/String/Boolean/ID and of @skip/@include/@deprecated/@specifiedBy and their arguments are not compared (reference wording not available offline); their structure is",
            "don't-care bands that are not generated and are skipped on the parsed path: @deprecated(reason: null) (graphql-js v16: not deprecated; specification text: deprecated), @specifiedBy on a scalar extension "
            "(graphql-js v16 reads it from the definition only), redefinition of built-in scalars/directives, schema extension without schema definition",
            "response key order inside an object is not compared (execution order is C26's subject); every list except types, directives and fields of __* types is compared in order, including interfaces and possibleTypes",
        ],
        "floors": {"any": {
            "kind": ["SCALAR", "OBJECT", "INTERFACE", "UNION", "ENUM", "INPUT_OBJECT", "LIST", "NON_NULL"],
            "feature": ["deprecated_field", "deprecated_arg", "deprecated_enum_value", "deprecated_input_field", "deprecated_default_reason",
                        "specifiedBy", "repeatable_directive", "non_repeatable_directive", "interface_implements_interface", "union",
                        "interface_with_several_possible_types", "non_null_list_of_non_null", "type_extension", "extension_before_definition", "extension_adds_interface",
                        "schema_extension", "renamed_roots", "schema_description", "description_type", "description_field", "description_arg",
                        "description_enum_value", "description_input_field", "description_directive", "unreferenced_builtin_scalar_omitted"],
            "default_kind": ["int", "float", "string", "boolean", "enum", "null", "list", "object"],
            "path": ["model", "parsed"],
            "source": ["model_plain", "model_trivia", "fixed", "corpus", "smith"],
        }},
        "technique": "runtime monitoring: differential comparison of partial_execute's response with an independent reference model of graphql-js v16 introspection over generated, corpus and apollo-smith schemas",
        "level_text": "Exploration: the full introspection response of 10^4-10^6 valid schemas covering every feature in the property's quantifier is compared field by field with an independent reference model; the skip-concrete-fields clause is checked on the same schemas.",
        "level_note": "The oracle is a reference model written in the harness from the specification (section 4) and graphql-js v16 semantics, NOT graphql-js/graphql-core themselves (not available offline). "
                      "Envelope of certainty: default values only from the class graphql-js reprints unambiguously (32-bit Int, Float with non-zero fraction, simple ASCII strings, booleans, enum values, null, lists of those, "
                      "input objects in definition order with no defaulted field omitted, non-integer-looking ID strings); everything else is skipped and counted. "
                      "Descriptions of built-in __* types, built-in scalars and built-in directives (and their arguments) are not compared, only their structure. "
                      "@deprecated(reason: null) and @specifiedBy on a scalar extension are don't-care bands (graphql-js v16 and the specification text differ) and are not generated. "
                      "interfaces and possibleTypes are compared in order (both sides: definition order), nothing is compared as a set. On the parsed path (corpus, smith, replays) the model is converted from apollo's own AST.",
        "design_ref": "DESIGN.md section 6, C24",
    },
    "C08": {
        "budget": {"quick": 40, "thorough": 480},
        "rule": "inputs: every corpus file, model documents (random ast::Document values covering all 17 definition/extension kinds, directives at every location, "
                "all value kinds nested, the shorthand-query placement scenarios) printed by the harness's own printer with random trivia and, as a second route, by apollo-rs itself, "
                "apollo-smith output for random bytes, and token mutants of all of these; only inputs that ast::Document::parse accepts WITHOUT errors reach the oracle (the rest is counted). "
                "Each accepted document d is serialized with 22 configurations (default and no_indent, each also with initial_indent_level 1 and 3; indent_prefix in {'', ' ', tab, 4 spaces, ' '+tab} x initial_indent_level in {0,1,3}; indent_prefix('  ') at level 0): "
                "parse(ser(d)) must have no errors and equal d, and ser(parse(ser(d))) must equal ser(d) byte-wise. "
                "evaluations = input texts; distinct_nontrivial = distinct texts that parsed without errors (each round-tripped under all 22 configurations; counter config_roundtrips)",
        "assumptions": COMMON_ASSUMPTIONS + [
            "equality of documents is ast::Document's PartialEq (definitions compared, source locations ignored), as the property states",
            "indent prefixes are GraphQL WhiteSpace (space, tab) only",
            "documents on which the parser itself panics are C01's business and are skipped (counted)",
        ],
        "floors": {"any": {
            "source": ["corpus", "model", "model_printed_by_apollo", "smith", "corpus_mutant", "generated_mutant"],
            "feature": ["def:OperationDefinition", "def:FragmentDefinition", "def:DirectiveDefinition", "def:SchemaDefinition", "def:ScalarTypeDefinition",
                        "def:ObjectTypeDefinition", "def:InterfaceTypeDefinition", "def:UnionTypeDefinition", "def:EnumTypeDefinition", "def:InputObjectTypeDefinition",
                        "def:SchemaExtension", "def:ScalarTypeExtension", "def:ObjectTypeExtension", "def:InterfaceTypeExtension", "def:UnionTypeExtension",
                        "def:EnumTypeExtension", "def:InputObjectTypeExtension",
                        "op:shorthand-eligible-first", "op:shorthand-eligible-not-first", "op:anonymous-after-described-definition",
                        "op:anonymous-with-directives", "op:anonymous-with-variables",
                        "directive-at:QUERY", "directive-at:MUTATION", "directive-at:SUBSCRIPTION", "directive-at:FIELD", "directive-at:FRAGMENT_DEFINITION",
                        "directive-at:FRAGMENT_SPREAD", "directive-at:INLINE_FRAGMENT", "directive-at:VARIABLE_DEFINITION", "directive-at:SCHEMA", "directive-at:SCALAR",
                        "directive-at:OBJECT", "directive-at:FIELD_DEFINITION", "directive-at:ARGUMENT_DEFINITION", "directive-at:INTERFACE", "directive-at:UNION",
                        "directive-at:ENUM", "directive-at:ENUM_VALUE", "directive-at:INPUT_OBJECT", "directive-at:INPUT_FIELD_DEFINITION",
                        "value-nested:Null", "value-nested:Enum", "value-nested:Variable", "value-nested:String", "value-nested:Float", "value-nested:Int",
                        "value-nested:Boolean", "value-nested:List", "value-nested:Object",
                        "default-at:VARIABLE_DEFINITION", "default-at:INPUT_FIELD_DEFINITION", "default-at:ARGUMENT_DEFINITION"],
        }},
        "technique": "runtime monitoring: metamorphic round-trip oracle (parse . serialize = id, serialize idempotent) over corpus, generated and mutated documents x 22 serialization configurations",
        "level_text": "Exploration: the round-trip relation is checked on 10^4-10^6 distinct error-free documents x 22 configurations, generated so that every definition kind, directive location, value kind and shorthand-placement case occurs in every run; the universally quantified claim is sampled, not proved.",
        "level_note": "Trusts ast::Document's PartialEq as the notion of equal ASTs (the property's own notion). A structural diff written in the harness only names the first differing component for the signature; it is not part of the verdict.",
        "design_ref": "DESIGN.md section 6, C08",
    },
    "C09": {
        "budget": {"quick": 40, "thorough": 420},
        "rule": "a host ast::Document is built programmatically (no parsing) with the string S in each of its 78 string slots: descriptions of schema definition, object/interface/union/scalar/enum/input types, "
                "fields, field arguments, enum values, input fields, directive definitions and their arguments; string values as directive arguments (on schema, types, fields, arguments, enum values, operations, "
                "variables, selections, fragments), as field arguments in operations and fragments, as default values of variables, input fields and argument definitions, each also inside a list, inside an object "
                "and nested two levels deeper; the host is serialized with 21 configurations, re-parsed, and every slot (located by the harness's own AST walk) must read back exactly S. "
                "Every 4th random case puts S in a single random slot only. S: ALL strings over {quote, backslash, LF, CR, space, tab, a, e-acute} up to length 5 (quick) / 6 (thorough), then random Unicode "
                "weighted to quotes, backslashes, C0 controls, U+007F, U+2028/9, U+0085, BOM, triple quotes, leading/trailing whitespace, common indentation, trailing quote/backslash, byte lengths 66..75. "
                "evaluations = (S, layout) cases, each under all 21 configurations; distinct_nontrivial = distinct S that need escaping or block-string care "
                "(contain a quote, backslash, control or line terminator, U+007F/2028/2029/0085/FEFF, start or end with whitespace, or are longer than 70 bytes)",
        "assumptions": COMMON_ASSUMPTIONS + [
            "the property is about strings only: names, numbers and structure of the host are fixed and valid",
            "indent prefixes are GraphQL WhiteSpace (space, tab) only",
        ],
        "floors": _per_tier({
            "source": ["exhaustive", "exhaustive_line_shapes", "random"],
            "layout": ["every-slot", "single-slot"],
            "slot": ["description:schema", "description:object", "description:object.field", "description:object.field.argument", "description:enum.value",
                     "description:directive-definition", "description:directive-definition.argument", "description:input-object.field", "description:interface",
                     "description:union", "description:scalar", "description:enum", "description:input-object",
                     "directive-argument:object", "directive-argument:object/list", "directive-argument:object/object",
                     "field-argument:operation", "field-argument:operation/list", "field-argument:operation/object",
                     "default-value:operation.variable", "default-value:operation.variable/list", "default-value:operation.variable/object",
                     "default-value:input-object.field", "default-value:input-object.field/list", "default-value:input-object.field/object"],
            "string_feature": ["quote", "triple-quote", "four-quotes", "backslash", "LF", "CR", "CRLF", "C0-control", "U+007F", "U+2028", "leading-whitespace",
                               "trailing-whitespace", "leading-LF", "trailing-LF", "trailing-quote", "trailing-backslash", "common-indent", "whitespace-only-line",
                               "len-70", "len-just-above-70", "len-long", "astral"],
        }, "exhaustive", ["complete:len<=5", "complete:line-shapes<=3"], ["complete:len<=6", "complete:line-shapes<=4"]),
        "exhaustive_subspaces": {
            "quick": ["all 37449 strings of length <= 5 over {\", \\, LF, CR, space, tab, a, e-acute} x 78 slots x 21 configurations", "all 1110 strings of 1-3 lines over 10 line shapes (empty, blank, text at several indentations, trailing blanks, a quote)"],
            "thorough": ["all 299593 strings of length <= 6 over {\", \\, LF, CR, space, tab, a, e-acute} x 78 slots x 21 configurations", "all 11110 strings of 1-4 lines over 10 line shapes (empty, blank, text at several indentations, trailing blanks, a quote)"],
        },
        "technique": "runtime monitoring: identity oracle on strings through serialize -> parse, bounded-exhaustive enumeration plus weighted random Unicode, 78 AST positions x 21 configurations",
        "level_text": "Exploration with a bounded-exhaustive core: every string up to the stated length over the 8 characters that drive quoting decisions is checked in every slot and configuration; beyond that bound, random Unicode strings sample the claim.",
        "level_note": "Reading back goes through apollo-parser's string decoding (that is the property: 'parses back to exactly the same string'); a decoding defect (C06) would show here too, with a reparse-side signature.",
        "design_ref": "DESIGN.md section 6, C09",
    },
    "C10": {
        "budget": {"quick": 30, "thorough": 300},
        "rule": "names: all strings of length <= 5 over {a Z _ 0 9 e-acute - space}, the empty string, every BMP scalar (and every 251st astral one) alone, after `a` and between underscores, 36 odd ones and names of 255..10^6 bytes, through Name::new, new_static, TryFrom<&str|String|&String|Arc<str>>, "
                "is_valid_syntax and serde Deserialize (from_value and from_str), judged by a hand-written byte matcher for [_A-Za-z][_0-9A-Za-z]*; "
                "numeric literals: all strings of length <= 5 (quick) / 6 (thorough) over {0 1 9 - + . e E a space} plus 70 boundary lexemes and very long digit runs, through serde Deserialize of IntValue and FloatValue, "
                "judged by hand-written matchers of the IntValue / FloatValue grammar; i32: boundaries + 10^6 random (quick), ALL 2^32 values (thorough): From<i32> gives a valid Int literal with try_to_i32()==Ok(i); "
                "f64: +-0, MIN_POSITIVE, MAX, all powers of 2, all powers of 10 and their neighbours, subnormals, values printing with 300+ characters, random finite bit patterns: From<f64> gives a valid Float literal, "
                "try_to_f64()==Ok(x) numerically, and the literal re-lexes inside {a(x: <lit>)} as exactly one Float token; types: every reference over 2 names to list depth 4 (8 thorough) with every non-null combination: "
                "Display then Type::parse gives the same type. distinct_nontrivial = distinct names/literals accepted by the reference matcher + distinct types + distinct i32 (quick only) + up to 50000 distinct f64 per worker "
                "(the exhaustive i32 sweep and further f64 values are only counted: counters i32_values_checked_exhaustively, f64_random_values_checked)",
        "assumptions": COMMON_ASSUMPTIONS + [
            "IntValue/FloatValue Deserialize are documented to expect 'a string in GraphQL IntValue/FloatValue syntax'; the oracle is that grammar on the whole string, nothing more",
            "try_to_f64 is compared numerically (==), so -0.0 and 0.0 are not distinguished, as the property only asks for 'the same number'",
        ],
        "floors": _per_tier({
            "name_verdict": ["accept", "reject"],
            "int_literal_verdict": ["accept", "reject"],
            "float_literal_verdict": ["accept", "reject"],
            "name_reject_reason": ["empty", "starts-with-digit", "starts-with-non-ascii", "continues-with-non-ascii", "continues-with-other-ascii"],
            "float_literal_reject_reason": ["exponent-without-digits", "fraction-without-digits", "leading-zero", "integer-syntax-without-fraction-or-exponent"],
            "f64_class": ["zero", "negative-zero", "min-positive", "max", "subnormal", "power-of-2", "power-of-10", "random-bits", "printed-with-300+-chars"],
            "type_list_depth": ["0", "1", "2", "3", "4"],
        }, "exhaustive", ["names:len<=5", "names:every BMP scalar as first/second character", "literals:len<=5", "types:2 names x list depth<=4"],
           ["names:len<=5", "names:every BMP scalar as first/second character", "literals:len<=6", "types:2 names x list depth<=8", "i32:all 2^32 values"]),
        "exhaustive_subspaces": {
            "quick": ["all 37449 strings of length <= 5 over {a Z _ 0 9 e-acute - space} x 9 Name constructors",
                      "c, a+c and _+c+_ for every BMP scalar c x Name constructors",
                      "all 111111 strings of length <= 5 over {0 1 9 - + . e E a space} x IntValue/FloatValue deserialization",
                      "all 124 type references over 2 names, list depth <= 4, every non-null combination"],
            "thorough": ["all 37449 strings of length <= 5 over {a Z _ 0 9 e-acute - space} x 9 Name constructors",
                         "c, a+c and _+c+_ for every BMP scalar c x Name constructors",
                         "all 1111111 strings of length <= 6 over {0 1 9 - + . e E a space} x IntValue/FloatValue deserialization",
                         "all 2^32 i32 values through IntValue::from / try_to_i32",
                         "all 2044 type references over 2 names, list depth <= 8, every non-null combination"],
        },
        "technique": "runtime monitoring: differential acceptance against hand-written grammar matchers (bounded-exhaustive), numeric round-trip oracles (exhaustive over i32 in thorough, sampled over f64), print/parse identity on types",
        "level_text": "Exploration with exhaustive sub-spaces: acceptance is compared with independent matchers on every short string over the stated alphabets, every i32 is converted (thorough), type references are enumerated to a depth bound; f64 is sampled at 10^6-10^7 values aimed at printing extremes.",
        "level_note": "The Float re-lex clause uses apollo-parser's lexer as the observer (that clause is about apollo-parser by definition); the literal grammar itself is judged by the harness's own matcher.",
        "design_ref": "DESIGN.md section 6, C10",
    },
    "C23": {
        "budget": {"quick": 25, "thorough": 200},
        "rule": "strings: ALL strings over {A b _ 1 . ( ) : @ space} up to length 5 (quick) / 7 (thorough), 48 boundary strings, the printed form of every coordinate that exists in 4 fixed schemas and every single-character "
                "edit of it (delete, replace, insert over 12 characters, adjacent swap), random concatenations of coordinate pieces; each string goes through SchemaCoordinate::from_str and the five per-kind from_str impls and is judged "
                "by a hand-written matcher of the five forms (same form, same names), then parse(s).to_string()==s and parse(c.to_string())==c for c built from the matcher's reading. "
                "lookups: every existing coordinate, every (type|zz) x (any name in the schema|zz), every (directive|zz) x name, (type x attribute x name) for every attribute that exists on the type and every name, plus a strided (quick) or full (thorough) sample of the non-existing ones, and everything that parsed above, "
                "through SchemaCoordinate::lookup and the per-kind lookup / lookup_field / lookup_input_field / lookup_enum_value, judged by the harness's own linear walk over schema.types / directive_definitions "
                "(Ok iff found; same element address; element name equals the coordinate's last name). "
                "distinct_nontrivial = distinct strings the matcher accepts + distinct (schema, coordinate) lookups, at most 120000 per worker (the rest only counted)",
        "assumptions": COMMON_ASSUMPTIONS + [
            "the four schemas are fixed texts (objects, interfaces, inputs, enums, unions, scalars, directives with arguments, extensions, built-ins and introspection types, the same name under several kinds)",
        ],
        "floors": _per_tier({
            "verdict": ["accept", "reject"],
            "accepted_form": ["Type", "TypeAttribute", "FieldArgument", "Directive", "DirectiveArgument"],
            "reject_state": ["expecting-type-name", "expecting-directive-name", "expecting-dot-or-end", "expecting-attribute-name", "expecting-open-paren-or-end",
                             "expecting-argument-name", "expecting-colon", "expecting-close-paren", "expecting-end-after-close-paren"],
            "source": ["existing", "single_edit", "cross_product", "field_argument_product", "random_pieces"],
            "lookup_outcome": ["Type:Type", "Type:no such type", "TypeAttribute:Field", "TypeAttribute:InputField", "TypeAttribute:EnumValue", "TypeAttribute:type has no attributes",
                               "TypeAttribute:type has no such field", "TypeAttribute:enum has no such value", "TypeAttribute:input object has no such field", "TypeAttribute:no such type",
                               "FieldArgument:Argument", "FieldArgument:field has no such argument", "FieldArgument:attribute of this type cannot have arguments",
                               "FieldArgument:type has no such field", "FieldArgument:type has no attributes", "FieldArgument:no such type",
                               "Directive:Directive", "Directive:no such directive", "DirectiveArgument:Argument", "DirectiveArgument:directive has no such argument",
                               "DirectiveArgument:no such directive"],
        }, "exhaustive", ["strings:len<=5"], ["strings:len<=7"]),
        "exhaustive_subspaces": {
            "quick": ["all 111111 strings of length <= 5 over {A b _ 1 . ( ) : @ space} x 6 FromStr impls"],
            "thorough": ["all 11111111 strings of length <= 7 over {A b _ 1 . ( ) : @ space} x 6 FromStr impls"],
        },
        "technique": "runtime monitoring: differential acceptance against a hand-written coordinate matcher (bounded-exhaustive), print/parse identities, differential lookup against an independent schema walk",
        "level_text": "Exploration with an exhaustive sub-space: every string up to the stated length over name characters and coordinate punctuation is judged; lookups are checked for every coordinate and every cross-kind name combination of four fixed schemas.",
        "level_note": "Schemas are fixed, not generated (DESIGN said 'model schemas'; the model generator is not available to this monitor): lookup coverage is by kind combination, not by schema shape.",
        "design_ref": "DESIGN.md section 6, C23",
    },
    "C03": {
        "budget": {"quick": 30, "thorough": 360},
        "rule": "inputs: hand-checked probes, every lexeme/near-lexeme alone and in pairs, three exhaustively enumerated sub-spaces (see exhaustive_subspaces), "
                "all corpus files, then random number soup, string/escape/block-string soup, lexeme soup, char soup and corpus mutants. Each input is lexed by "
                "apollo_parser::Lexer (unlimited) and by RefLexer (harness reference for the Oct-2021 lexical grammar); compared: concatenation of token and error data "
                "in index order == input; accept/reject; on accept the full token sequences (kind, byte start, byte end; whitespace/line-terminator/BOM runs merged on both sides); "
                "on reject the tokens before the first error and the offset of apollo's first error. "
                "distinct_nontrivial = distinct inputs for which the reference found at least one non-ignored token or a lexical error (i.e. not empty / ignored-only); "
                "of the random phase only the first 250 000 inputs per worker are hashed into this count (the rest are evaluated and counted in counters.nontrivial_cases_not_hashed_over_cap)",
        "assumptions": COMMON_ASSUMPTIONS + [
            "the oracle is a reference lexer written in the harness from the October 2021 lexical grammar (no GraphQL reference implementation is available offline); it was calibrated on test_data/lexer/{ok,err} and parser/ok",
            "documented exception encoded in the oracle: braced \\u{...} escapes and \\uXXXX escapes with a surrogate value are lexical errors",
            "after the first lexical error only the part of the input before it is compared (error recovery is not specified); every suffix of an enumerated string is itself enumerated",
            "a non-SourceCharacter that ends a comment may be reported either at that character or at the start of the comment",
        ],
        "floors": {"any": {
            "source": ["probe", "lexeme_pair", "lexical-14", "quoted-body-11", "block-body-5", "corpus", "number_soup", "string_soup", "lexeme_soup", "char_soup", "valid_lexeme_stream"],
            "ref_kind": ["UnicodeBOM", "WhiteSpace", "LineTerminator", "Comment", "Comma", "!", "$", "&", "(", ")", "...", ":", "=", "@", "[", "]", "{", "|", "}",
                         "Name", "IntValue", "FloatValue", "StringValue-quoted", "StringValue-block"],
            "ref_error": ["SourceCharacter", "Token-start", "Punctuator-spread", "IntegerPart-sign", "IntegerPart-leading-zero", "FractionalPart-digit",
                          "ExponentPart-digit", "Number-lookahead", "StringValue-unterminated", "BlockString-unterminated", "EscapedCharacter",
                          "EscapedUnicode", "EscapedUnicode-surrogate", "SourceCharacter-in-string", "SourceCharacter-in-block-string", "SourceCharacter-in-comment"],
        }},
        "exhaustive_subspaces": {
            "quick": [
                "all strings of length <= 5 over the 14 symbols {0 1 . e + - \" \\ u a _ # LF SPACE} (579 195 inputs)",
                "all quoted strings \"BODY\" with BODY of length <= 5 over the 11 symbols {\\ u 0 D 8 a \" { } LF n} (177 156 inputs)",
                "all block strings \"\"\"BODY\"\"\" with BODY of length <= 7 over the 5 symbols {\" \\ a LF SPACE} (97 656 inputs)",
            ],
            "thorough": [
                "all strings of length <= 6 over the 14 symbols {0 1 . e + - \" \\ u a _ # LF SPACE} (8 108 731 inputs)",
                "all quoted strings \"BODY\" with BODY of length <= 6 over the 11 symbols {\\ u 0 D 8 a \" { } LF n} (1 948 717 inputs)",
                "all block strings \"\"\"BODY\"\"\" with BODY of length <= 8 over the 5 symbols {\" \\ a LF SPACE} (488 281 inputs)",
            ],
        },
        "technique": "runtime monitoring: differential comparison of the lexer's item stream with an independent reference lexer on exhaustively enumerated small strings and generated inputs",
        "level_text": "Exploration: token boundaries, kinds, offsets and the accept/reject verdict are compared with an independent reference lexer on every string of three small sub-spaces (exhaustive within the stated alphabets and lengths) and on 10^6-10^7 generated inputs.",
        "level_note": "The reference lexer is the harness's own transcription of the October 2021 lexical grammar; the exhaustive claim holds only inside the listed alphabets and length bounds.",
        "design_ref": "DESIGN.md section 6, C03",
    },
    "C04": {
        "budget": {"quick": 50, "thorough": 480},
        "rule": "inputs: (1) syntactically valid documents whose nesting depth D is known by construction (generator gen/nested.rs: selection sets, inline fragments, list values, object values, "
                "mixed values, list types, on argument / directive-argument / variable-type / variable-default / input-value-default / type-system paths, two deep siblings in a row; plus the pure "
                "nesting families up to depth 121), cross-checked by a token-level recount; every recursion limit r in [0, D+1] (sampled when D > 16), every token limit n in [0, N+1] for documents of at most "
                "48 (quick) / 120 (thorough) lexer items and sampled n otherwise, and random (n, r) pairs; (2) corpus files and random hostile inputs (lexical errors, unbalanced brackets) with sampled n, "
                "small r and r = number of opening brackets. Each run is compared with the unlimited lexer's item stream (N items, item end offsets, lexical errors) and with D: clauses (a)-(f) of DESIGN section 6 C04; "
                "(3) sessions: one apollo_compiler Parser value reused for 2-6 documents of different depth and length (parse_ast / parse_schema / parse_type in turn), its reached figures compared after every call with apollo-parser's marks for that call. "
                "distinct_nontrivial = distinct (text, token limit, recursion limit) triples in which at least one limit error was reported",
        "assumptions": COMMON_ASSUMPTIONS + [
            "N is the number of items (tokens, EOF included, and errors) the unlimited apollo_parser::Lexer yields: the relation between limited and unlimited runs is the property, so comparing apollo-rs with itself is intended here",
            "clause (a) is observed as: token_limit().high <= n+1 and the tree holds no text beyond the end of the n-th unlimited lexer item",
            "clause (b): when a recursion-limit error is also present only `token-limit error => N > n` is required (whether a second limit error must still be reported is not stated)",
            "clause (e) exact direction only on generated valid documents with the token limit off; empty lists/objects are never the deepest construct, so D does not depend on how `[]` is counted; on arbitrary inputs only `r >= number of { and [ characters => no recursion-limit error`",
            "token-limit and recursion-limit errors are told apart by their message text (the API exposes only is_limit())",
            "inputs whose tree is lossy even without limits, and limited runs whose only text loss is C02's known finding (token after `[` of a list type without item type), are excluded from the text clauses and counted",
        ],
        "floors": {"any": {
            "source": ["nested_generator", "nest_family", "corpus", "corpus_mutant", "char_soup", "lexeme_soup", "session_nested", "session_random"],
            "reused_parser": ["a later call has smaller marks than an earlier one"],
            "limit_outcome": ["no limit error", "token limit error", "recursion limit error"],
            "token_limit_position": ["n = 0", "0 < n < N-1 (stops inside the document)", "n = N-1 (only EOF refused)", "n = N (exact fit)", "n > N"],
            "depth_vs_limit": ["D < r", "D = r", "D = r+1", "D > r+1"],
            "nest_path": ["selection_set", "inline_fragment", "list_value", "object_value", "list_type", "argument", "directive_argument", "variable_type", "variable_default",
                          "input_value_default", "type_system_definition", "two_deep_sibling_list_items", "two_deep_sibling_object_fields", "two_deep_sibling_selections"],
        }},
        "technique": "runtime monitoring: metamorphic comparison of limited parses with the unlimited lexer stream, plus generated documents whose nesting depth is known by construction",
        "level_text": "Exploration: every token limit (small documents) / sampled token limits and every recursion limit around the known depth are executed on 10^4-10^5 generated documents and hostile inputs; clauses (a)-(f) are asserted on each run.",
        "level_note": "Depth is known by construction and recounted at token level; the unlimited lexer run of the same build is the metamorphic baseline; the compiler's reached-figures are compared with the parser's for the same text and limits.",
        "design_ref": "DESIGN.md section 6, C04",
    },
    "C06": {
        "budget": {"quick": 40, "thorough": 360},
        "rule": "inputs: string literals that RefLexer accepts as exactly one StringValue token: regression list, two exhaustively enumerated sub-spaces (see exhaustive_subspaces), then random block strings "
                "(mixed space/tab indentation, LF / CRLF / CR, whitespace-only lines shorter and longer than the common indent, BOM, escaped triple quotes, lines led by a Unicode space that is not GraphQL WhiteSpace; "
                "plus every 3-line block string over 11 line shapes built from blanks and one of 10 such Unicode spaces) and random quoted strings (all escapes, \\uXXXX over the "
                "non-surrogate BMP, raw multi-byte text). Each literal is placed in a host document; compared with RefString (spec static semantics, BlockStringValue transcribed step by step): "
                "String::from(&cst::StringValue) for all 6 StringValue nodes, the compiler's ast::Document::parse values (description, field-argument default, input-field default, variable default, argument, "
                "directive argument) and Schema::parse values (description, field-argument default, input-field default); panics are caught. "
                "distinct_nontrivial = distinct literals whose reference value differs from the raw text between the quotes (an escape was decoded, indentation or lines were removed, or a line terminator was normalised)",
        "assumptions": COMMON_ASSUMPTIONS + [
            "the oracle is the harness's transcription of the October 2021 StringValue static semantics and BlockStringValue(); lexical validity is decided by RefLexer (so literals containing C0 controls, which only apollo accepts, are outside the quantifier)",
            "a host the parser reports errors for is skipped and counted (acceptance is C03/C05's subject)",
            "when the syntax-tree value is wrong, compiler hosts that merely repeat it are not reported again (one root cause, one signature)",
        ],
        "floors": {"any": {
            "source": ["regression", "unicode_space_lines", "block-body-8", "quoted-body-10", "random_block", "random_quoted"],
            "host": ["cst", "ast_description", "ast_field_argument_default", "ast_input_field_default", "ast_variable_default", "ast_argument", "ast_directive_argument",
                     "schema_description", "schema_field_argument_default", "schema_input_field_default"],
            "escape": ["\\\"", "\\\\", "\\/", "\\b", "\\f", "\\n", "\\r", "\\t", "\\uXXXX", "raw non-ASCII"],
            "block_feature": ["escaped triple quote", "CRLF", "lone CR", "LF", "first line indented and kept", "leading blank line", "trailing blank line", "common indent > 0",
                              "whitespace-only line shorter than common indent", "whitespace-only line longer than common indent", "first line less indented than common indent",
                              "unequal indents", "tab in indentation", "non-empty body with empty value"],
        }},
        "exhaustive_subspaces": {
            "quick": [
                "all block strings \"\"\"BODY\"\"\" with BODY of length <= 6 over the 8 symbols {SPACE TAB LF CR a \" \\ e-acute} (299 593 candidate bodies; those that are one valid literal are checked)",
                "all quoted strings \"BODY\" with BODY of length <= 5 over the 10 symbols {a \" \\ n u 0 D 8 e-acute TAB} (111 111 candidate bodies; those that are one valid literal are checked)",
            ],
            "thorough": [
                "all block strings \"\"\"BODY\"\"\" with BODY of length <= 6 over the 8 symbols {SPACE TAB LF CR a \" \\ e-acute} (299 593 candidate bodies; those that are one valid literal are checked)",
                "all quoted strings \"BODY\" with BODY of length <= 6 over the 10 symbols {a \" \\ n u 0 D 8 e-acute TAB} (1 111 111 candidate bodies; those that are one valid literal are checked)",
            ],
        },
        "technique": "runtime monitoring: differential comparison of decoded string values with a reference transcription of the specification's static semantics, on exhaustively enumerated and generated literals, in every host that stores a string",
        "level_text": "Exploration: the decoded value of every valid literal of two small sub-spaces (exhaustive within the stated alphabets and lengths) and of 10^6-10^7 generated literals is compared with the specification's value in ten observation points; panics are caught.",
        "level_note": "The reference is the harness's own transcription of BlockStringValue() and the escape table; exhaustive only inside the listed alphabets and length bounds.",
        "design_ref": "DESIGN.md section 6, C06",
    },
    "C05": {
        "budget": {"quick": 40, "thorough": 480},
        "rule": "inputs: ~110 hand-judged boundary documents, every corpus file, then syntax-level generated VALID documents (quota-driven over a checklist of 66 optional parts present/absent and 10 alternative sets incl. all 18 definition forms, 12 value kinds, 19 directive locations; keywords used as names wherever the grammar allows any Name; random ignored tokens), "
                "and for each generated document: every single-token deletion, every bracket group emptied or dropped, a description put before every top-level definition, a variable substituted for every value, 24 random token-level mutants (1-3 delete/insert/swap/duplicate/replace/truncate steps), plus mutants of corpus files and splices; thorough adds all two-token deletions of small documents. "
                "Each text is judged by apollo_parser::Parser::parse().errors() emptiness (and, when both accept, the CST's top-level (kind, name) list) against RefGrammar, an independent recogniser of the October 2021 grammar. "
                "distinct_nontrivial = distinct texts on which the reference's verdict was decided by the grammar proper (accepted, or rejected for a non-lexical reason)",
        "assumptions": COMMON_ASSUMPTIONS + [
            "the oracle is a reference recogniser written in the harness from the October 2021 specification text (no external GraphQL implementation is available offline); it shares no code with apollo-parser and was calibrated on apollo-parser/test_data/parser/{ok,err} with every disagreement triaged by hand",
            "outside the claim, counted under skipped:*: inputs on which apollo reports a recursion/token *limit* error (resource bound, not a grammar verdict), inputs nested deeper than the reference's own cap (3000), inputs the reference accepts that contain a lone-surrogate \\uXXXX escape (apollo's documented limitation), inputs on which the parser panics (C01)",
            "SourceCharacter is taken as TAB, LF, CR and every scalar from U+0020 up (supplementary-plane scalars accepted, as in every implementation and the later spec text)",
        ],
        "floors": {"any": {
            "verdict": ["accept", "reject"],
            "checklist": ["all-decision-outcomes-generated"],
            "source": ["boundary", "corpus", "generated", "delete_one", "empty_group", "drop_group", "describe_definition", "variable_for_value", "mutant", "corpus_mutant"],
            "production_verdict": [
                "OperationDefinition:accept", "FragmentDefinition:accept", "SchemaDefinition:accept", "ScalarTypeDefinition:accept",
                "ObjectTypeDefinition:accept", "InterfaceTypeDefinition:accept", "UnionTypeDefinition:accept", "EnumTypeDefinition:accept",
                "InputObjectTypeDefinition:accept", "DirectiveDefinition:accept", "SchemaExtension:accept", "ScalarTypeExtension:accept",
                "ObjectTypeExtension:accept", "InterfaceTypeExtension:accept", "UnionTypeExtension:accept", "EnumTypeExtension:accept",
                "InputObjectTypeExtension:accept",
                "Definition:reject", "SelectionSet:reject", "Arguments:reject", "Argument:reject", "ObjectField:reject", "VariableDefinitions:reject",
                "DefaultValue:reject", "Directives[Const]:reject", "FragmentName:reject", "TypeCondition:reject", "InlineFragment:reject",
                "SchemaDefinition:reject", "SchemaExtension:reject", "RootOperationTypeDefinition:reject", "FieldsDefinition:reject",
                "FieldDefinition:reject", "ArgumentsDefinition:reject", "InputFieldsDefinition:reject", "InputValueDefinition:reject",
                "EnumValuesDefinition:reject", "EnumValueDefinition:reject", "ImplementsInterfaces:reject", "UnionMemberTypes:reject",
                "DirectiveDefinition:reject", "DirectiveLocations:reject", "ScalarTypeExtension:reject", "ObjectTypeExtension:reject",
                "InterfaceTypeExtension:reject", "UnionTypeExtension:reject", "EnumTypeExtension:reject", "InputObjectTypeExtension:reject",
                "TypeSystemExtension:reject", "ListType:reject", "Value:reject", "Token:reject",
            ],
        }},
        "technique": "runtime monitoring: differential accept/reject and top-level definition list against an independent reference recogniser, on generated valid documents and boundary-aimed token-level mutants",
        "level_text": "Exploration: 10^6-10^8 documents on both sides of the grammar boundary (every production with its optional parts present and absent, and systematic single-token mutations of each) are judged by apollo-parser and by an independent Oct-2021 recogniser; any difference in acceptance or in the top-level definition list is a violation.",
        "level_note": "Trusts the harness's own reference recogniser (written from the spec text, unit-tested on ~100 hand-judged documents, calibrated on the parser corpus) as the definition of the grammar; lexical corner cases belong to C03 and appear here only through mutants.",
        "design_ref": "DESIGN.md section 6, C05",
    },
    "C07": {
        "budget": {"quick": 30, "thorough": 300},
        "rule": "inputs: prefix + core + suffix. Exhaustive: 60 type cores (names Int/T, list depth <= 3, each level nullable or not) and 16 selection cores x all 343 token sequences of length 0-2 over the 18-symbol alphabet on one side (prefix only, suffix only; spaced and tight joining); 4 type cores and 2 (thorough: 4) selection cores x all 343x343 (prefix, suffix) pairs; then random cores (type depth <= 3, selections generated from the host schema to depth 3) with random affixes of 0-8 tokens and random separators. "
                "one character out of 21 Unicode white-space / format / control characters (13 of them not GraphQL ignored tokens) inserted at every character boundary of every core, bare and padded with blanks. "
                "Each text goes through Parser::parse_type + ast::Type::parse, or Parser::parse_selection_set + FieldSet::parse + FieldSet::parse_and_validate (host schema, type Query); a violation is 'no error reported' while RefGrammar says the significant tokens are not exactly one Type / one selection set (outer braces optional). "
                "distinct_nontrivial = distinct (kind, text) on which at least one entry point reported no error (the implication's antecedent held, so the reference verdict decided the case)",
        "assumptions": COMMON_ASSUMPTIONS + [
            "only the direction stated by the property is checked (no error => exactly one construct); apollo rejecting more than the grammar (unknown fields, validation errors, lone-surrogate escapes) is never a finding here",
            "the oracle is RefGrammar's Type / SelectionSet recogniser written in the harness from the October 2021 specification text",
        ],
        "floors": {"any": {
            "source": ["regression", "exhaustive_prefix", "exhaustive_suffix", "exhaustive_pair", "single_unicode_space_or_control", "random_affixes"],
            "reference_verdict": ["type:accept", "type:reject", "field_set:accept", "field_set:reject"],
            "entry_outcome": [
                "Parser::parse_type:no-error:reference-accepts", "ast::Type::parse:no-error:reference-accepts",
                "Parser::parse_selection_set:no-error:reference-accepts", "executable::FieldSet::parse:no-error:reference-accepts",
                "executable::FieldSet::parse_and_validate:no-error:reference-accepts",
                "Parser::parse_type:error:reference-rejects", "ast::Type::parse:error:reference-rejects",
                "Parser::parse_selection_set:error:reference-rejects", "executable::FieldSet::parse:error:reference-rejects",
                "executable::FieldSet::parse_and_validate:error:reference-rejects",
            ],
        }},
        "exhaustive_subspaces": {
            "quick": [
                "60 type cores (names {Int,T}, list depth<=3, nullable/non-null per level) x {prefix in S<=2, suffix empty} U {prefix empty, suffix in S<=2}, S = 18 symbols ] [ ! } { ) ( , b Int \"s\" 1 $ @ ... : e-acute '# c\\n', |S<=2| = 343, spaced and tight joining",
                "16 fixed selection cores x the same one-sided affix space",
                "type cores {Int, Int!, [Int], [[T!]]!} x all 343x343 (prefix, suffix) pairs",
                "selection cores {a, { a }} x all 343x343 (prefix, suffix) pairs",
            ],
            "thorough": [
                "60 type cores (names {Int,T}, list depth<=3, nullable/non-null per level) x {prefix in S<=2, suffix empty} U {prefix empty, suffix in S<=2}, S = 18 symbols ] [ ! } { ) ( , b Int \"s\" 1 $ @ ... : e-acute '# c\\n', |S<=2| = 343, spaced and tight joining",
                "16 fixed selection cores x the same one-sided affix space",
                "type cores {Int, Int!, [Int], [[T!]]!} x all 343x343 (prefix, suffix) pairs",
                "selection cores {a, { a }, c { a }, b(x: 1) @d} x all 343x343 (prefix, suffix) pairs",
            ],
        },
        "technique": "runtime monitoring: one-directional differential check of five standalone parse entry points against an independent Type / SelectionSet recogniser over exhaustively enumerated and random prefix+core+suffix inputs",
        "level_text": "Exploration with exhaustive sub-spaces: every token sequence of length <= 2 over 18 symbols is put before and after every enumerated type shape and fixed selection core (and on both sides of a few), plus random longer affixes; each input is run through all five entry points and 'no error' is compared with an independent recogniser.",
        "level_note": "Trusts the harness's reference recogniser for Type and SelectionSet (a few dozen lines each, written from the spec grammar); the enumeration is complete for the stated bounds, everything beyond them is sampled.",
        "design_ref": "DESIGN.md section 6, C07",
    },
    "C14": {
        "budget": {"quick": 50, "thorough": 720},
        "rule": "refuting event: Schema::parse_and_validate(text).is_ok() != RefSchemaRules(model).is_empty(). Path A (model): documents from the typed schema generator, "
                "one mutator family per reference rule id (each violating exactly that rule at a random applicable site), validity-preserving boundary edits, pairs of mutators; "
                "every model is printed plain and with random trivia and judged end to end independently (apollo sees text, the reference sees the model). "
                "Path B (parsed): corpus files, apollo-smith output and re-parsed trivia prints of path-A models, converted from apollo's AST (type-system definitions only, syntax errors skipped). "
                "Cases inside a documented don't-care band are skipped and counted. Disagreements are minimised greedily on the model before they are reported. "
                "distinct_nontrivial = distinct documents (FNV of the plain print) rejected by the reference for exactly one rule id, or accepted with at least 3 type kinds",
        "assumptions": COMMON_ASSUMPTIONS + [
            "the oracle is a reference model written in the harness (refmodel/schema_rules.rs) from the October 2021 specification text and graphql-js v16 semantics; it is not graphql-js or graphql-core, which do not exist offline",
            "oracle parameters (documented deliberate differences): default values are not validated (apollo-rs issue 928); a built-in directive may be redefined once (issue 656); constant directive arguments in SDL are type-checked",
            "don't-care bands where the spec text and graphql-js v16 differ or the text leaves a choice are neither generated nor judged: @deprecated on required arguments/input fields, extra non-null argument with default on an implementing field, "
            "extensions of built-in scalars/introspection types, schema extension with root operations but no schema definition, non-object type named Mutation/Subscription under an implicit schema, references to introspection types, non-finite float literals, "
            "executable definitions inside a schema document, more than 24 input objects or directive definitions (apollo's validation recursion limit)",
            "directive-definition cycles are judged by the specification sentence (graphql-js v16 has no such rule)",
        ],
        "floors": {"any": {"rule": [f"{r}:{v}" for r in (
            "query-root", "root-types-object", "root-types-distinct", "one-schema-definition", "unique-operation-types", "unique-type-names",
            "builtin-scalar-redefined", "unique-directive-names", "extension-target", "unique-field-names", "unique-argument-names",
            "unique-enum-values", "unique-input-fields", "unique-union-members", "unique-implements", "known-types", "output-types", "input-types",
            "non-empty-fields", "non-empty-enum-values", "non-empty-union-members", "non-empty-input-fields", "implements-interface-kind",
            "no-self-implementation", "transitive-interfaces", "interface-fields-present", "interface-field-type-covariant", "interface-args-present",
            "interface-arg-type-equal", "extra-args-optional", "union-members-object", "input-object-cycles", "reserved-name-type", "reserved-name-field",
            "reserved-name-argument", "reserved-name-enum-value", "reserved-name-input-field", "reserved-name-directive", "enum-value-keyword",
            "directive-cycles", "directives-known", "directive-location", "directive-unique", "directive-args-known", "directive-args-unique",
            "directive-args-required", "value-type", "value-object-fields-known", "value-object-fields-unique", "value-object-fields-required",
        ) for v in ("violated", "satisfied")],
            "source": ["model:generated-valid", "model:mutant", "model:neutral", "model:two-mutants", "parsed:compiler_ok", "parsed:compiler_diag", "parsed:smith"]}},
        "technique": "runtime monitoring: differential reference-model monitor over generated, mutated and corpus schema documents",
        "level_text": "Exploration: the accept/reject verdict of Schema::parse_and_validate is compared with an independent reference implementation of the type-system rules on 10^4-10^6 documents; every rule id is observed both violated (alone) and satisfied non-vacuously on the end-to-end path.",
        "level_note": "The oracle is a reference model written in the harness from the October 2021 spec text and graphql-js v16 semantics, NOT graphql-js/graphql-core themselves (they do not exist offline); it was calibrated on the repository corpora (test_data/ok accepted, schema-level test_data/diagnostics rejected, every disagreement triaged by hand). On the parsed path only the validation logic is independent of apollo-rs, not the parsing.",
        "design_ref": "DESIGN.md section 6, C14; Appendix B",
    },
    "C15": {
        "budget": {"quick": 45, "thorough": 600},
        "rule": "every Valid<Schema> returned by Schema::parse_and_validate is walked through the public API (schema_definition, types, directive_definitions) and must satisfy: query root present; roots are pairwise distinct object types; "
                "every referenced type exists with the right kind; implementers satisfy field / argument / transitive-interface contracts (recomputed); no non-null input-object cycle (own DFS); no user-defined name starts with __; "
                "the type map holds a built-in scalar if and only if some field, argument, input field or directive-definition argument references it (built-in definitions included). "
                "Workload: regression witnesses, corpus schemas, C14's model workload (valid documents, mutants, boundary edits, pairs; plain and trivia prints), apollo-smith output, and hill climbing: starting from each invalid mutant, "
                "random repairs/mutations are kept when apollo's diagnostic count does not grow, and every accepted schema met on the way is checked; "
                "API sessions: a Valid<Schema> is taken back with into_inner(), edited through the public API (fields, arguments and input fields of built-in scalar types added to and removed from existing types, "
                "among them rounds that reference every built-in scalar missing from the type map), validated again (1-3 rounds on the same value) and audited after every accepted round. "
                "distinct_nontrivial = distinct accepted schema texts on which at least 5 of the 7 invariant clauses were decided on a real instance",
        "assumptions": COMMON_ASSUMPTIONS + [
            "only schemas apollo accepts are judged; whether acceptance itself is right is C14's business (the checker shares no code with RefSchemaRules)",
            "'referenced' counts references from built-in definitions too (introspection types and built-in directives are part of every schema), so String and Boolean are always expected in the type map; this is what schema/validation.rs documents and what the property sentence says",
            "interface self-implementation and name uniqueness are not in the property statement and are not demanded here",
        ],
        "floors": {"any": {
            "clause": ["query-root:exercised", "roots:exercised", "references:exercised", "implementation:exercised", "implementation:with-interface-fields",
                       "input-cycle:exercised", "input-cycle:with-non-null-edges", "reserved-names:exercised", "builtin-scalars:exercised"],
            "builtin_scalars_in_type_map": ["2", "3", "4", "5"],
            "session": ["re-validated after API edits"],
            "source": ["c14-workload-generated-valid", "c14-workload-neutral", "hill-climb", "corpus", "smith", "regression", "api-session"]}},
        "technique": "runtime monitoring: structural invariant checker at the quiescent point right after validation succeeds, workload concentrated on the acceptance boundary by hill climbing",
        "level_text": "Exploration: the stated invariants are asserted on every schema apollo accepts out of 10^4-10^6 generated, mutated, repaired and corpus documents.",
        "level_note": "Trusts the public Schema API as the observation of what was accepted. Hill climbing is guided by apollo's own diagnostic count (search heuristic only, never a verdict).",
        "design_ref": "DESIGN.md section 6, C15",
    },
    "C17": {
        "budget": {"quick": 60, "thorough": 900},
        "rule": "cases: (schema, executable document) pairs whose schema apollo accepts. Path A (model path): schema_gen x exec_gen pairs and one mutator family per reference rule "
                "(gen/exec_mut.rs, plus validity-preserving families and multi-definition scenarios: one fragment shared by 2-3 operations of which one does not declare the variable it uses, and one response key under two object type conditions plus their interface with a conflict against only one object), printed with print_plain / print_trivia and judged on the model; path B (parsed path): fixed witnesses, the "
                "apollo-compiler/test_data/{ok,diagnostics} files that hold both a schema and executable definitions, and apollo-smith documents, converted with from_ast and split. "
                "Refuting event: ExecutableDocument::parse_and_validate(..).is_ok() != RefExecRules(flat schema, document).is_empty(). "
                "distinct_nontrivial = distinct (schema text, document text) pairs on which both verdicts were obtained and the reference was outside its don't-care bands; "
                "class set 'rule' = reference rule id x verdict on path A, 'rule_parsed_path' the same on path B",
        "assumptions": COMMON_ASSUMPTIONS + [
            "the oracle is RefExecRules (harness/src/refmodel/exec_rules.rs), written from the October 2021 spec text and graphql-js v16 semantics; it is not graphql-js or graphql-core, neither of which exists offline",
            "deliberate differences are explicit oracle parameters: operations without a defined root type are rejected; @skip/@include on subscription root selections are rejected; apollo's @defer rules apply when the schema defines @defer (never generated; a @defer under @skip/@include in a subscription is a don't-care)",
            "don't-care bands (counted, never a verdict): Float literals overflowing f64, variables nested in a list literal given to a custom scalar, merged arguments differing only in input-object field order",
            "schemas that apollo rejects are skipped (C14's business); panics are C21's",
        ],
        "floors": {"any": {"rule": [r + v for r in _C17_RULES for v in (":violated", ":satisfied")],
                           "mutator": ["SharedFragment:UndefinedVariableInOneOperation:applied", "Valid:SharedFragmentVariables:applied", "AbstractParent:ConflictWithOneObject:applied", "Valid:AbstractParentSameField:applied"],
                           "source": ["witness", "corpus", "generated", "mutant", "smith"]}},
        "technique": "runtime monitoring: differential reference-model monitor (one function per spec rule, naive pairwise field merging) over generated pairs, per-rule mutants, corpora and apollo-smith output, with greedy model-level witness minimisation",
        "level_text": "Exploration: apollo's accept/reject verdict is compared with an independent reference implementation of the spec's executable validation rules on 10^4-10^6 generated pairs and per-rule mutants; every reference rule is observed with both verdicts in every run.",
        "level_note": "The oracle is a reference model written in the harness from the October 2021 specification text and graphql-js v16 semantics, NOT graphql-js/graphql-core themselves (they do not exist offline); on the model path the oracle never sees apollo's parser, on the parsed path only the validation logic is independent.",
        "design_ref": "DESIGN.md section 6, C17",
    },
    "C18": {
        "budget": {"quick": 40, "thorough": 420},
        "rule": "cases: C17's (schema, document) pairs, valid or not (generated, every mutator family, corpus pairs, fixed meta-field / condition-less inline fragment documents, apollo-smith); "
                "ExecutableDocument::parse's Ok value or err.partial is walked with an own parent-type traversal: Field.definition == schema.type_field(parent, name) and agrees with the harness schema model, "
                "selection_set.ty of fields / inline fragments / fragment definitions / operations; for documents parse_and_validate accepts also: spreads defined and acyclic, used variables defined, "
                "composite/leaf sub-selection rule, root_fields()/all_fields() == own traversal as multisets of Node<Field> addresses. "
                "distinct_nontrivial = distinct (schema text, document text) pairs whose built document held at least one field",
        "assumptions": COMMON_ASSUMPTIONS + [
            "field definitions are compared structurally (==) with schema.type_field and by name/type/arguments with the harness's own flattened schema model",
            "the type condition of a fragment definition is taken from the harness model of the text (apollo exposes it only as selection_set.ty)",
        ],
        "floors": {"any": {"document": ["valid", "built, invalid", "partial"],
                           "construct": ["inline fragment without type condition", "meta-field", "iterators over a document with fragments"],
                           "source": ["fixed", "corpus", "generated", "mutant"]}},
        "technique": "runtime monitoring: invariant walk of every built ExecutableDocument with an independent parent-type traversal and schema model; iterator outputs compared with an own traversal by node identity",
        "level_text": "Exploration: the typing annotations of every document built from 10^4-10^6 valid and invalid generated pairs are checked against an independent traversal, and the validity guarantees and iterators on the valid ones.",
        "level_note": "Trusts Node<Field> addresses as field identity and apollo's parser for the text-to-AST step; validity is apollo's own parse_and_validate verdict, so C17 defects that accept invalid documents surface here as broken guarantees.",
        "design_ref": "DESIGN.md section 6, C18",
    },
    "C20": {
        "budget": {"quick": 30, "thorough": 300},
        "rule": "cases: executable documents (generated with and without directives, every mutator family, corpus pairs, fixed witnesses, apollo-smith) with the schema they were generated for; "
                "ast::Document::validate_standalone_executable() is called on the AST of the executable definitions only. Refuting events: Err on a document that parse_and_validate accepts against its schema; "
                "any diagnostic, on any document, whose unstable_error_name is outside the schema-independent set. "
                "distinct_nontrivial = distinct (schema, document) pairs that validate against their schema (the antecedent of the property)",
        "assumptions": COMMON_ASSUMPTIONS + [
            "'validates against some schema' is witnessed by the schema the document was generated for, judged by apollo itself: the property relates two apollo entry points",
            "apollo's @defer diagnostics are a counted don't-care (never generated)",
        ],
        "floors": {"any": {"valid_document": ["with directives", "without directives"],
                           "invalid_document": ["standalone err", "standalone ok"],
                           "source": ["fixed", "corpus", "generated", "mutant"]}},
        "technique": "runtime monitoring: metamorphic monitor relating schema-based and schema-less validation of the same document, plus a diagnostic-name allow-list",
        "level_text": "Exploration: for 10^4-10^5 documents valid against a generated schema the schema-less validation must also succeed, and on all generated and mutated documents it may only emit schema-independent diagnostics.",
        "level_note": "Trusts unstable_error_name() as the identity of a diagnostic; the allow-list is the one of the property statement plus the recursion-limit diagnostics.",
        "design_ref": "DESIGN.md section 6, C20",
    },
    "C11": {
        "budget": {"quick": 40, "thorough": 480},
        "rule": "inputs: fixed witnesses, 4 hand-written base documents covering every definition/selection/value kind (valid and invalid), every corpus file "
                "(<= 24 kB quick, <= 120 kB thorough), then generated documents until the budget is used: base and corpus documents re-emitted with hostile trivia "
                "(comments, strings, block strings and descriptions holding 2/3/4-byte scalars, U+000B, U+000C, U+0085, U+2028, U+2029, BOM, lone CR, CRLF), optionally damaged "
                "(identifier replaced / token mutation) so that diagnostics of every stage exist. Per document: explicit visitor over ast::Document, Schema (component maps) and "
                "ExecutableDocument: (a) location present, file id in the source map (the file itself for the AST), range inside the file on char boundaries, (b) name text == source slice; "
                "(c) get_line_column at EVERY char-boundary offset vs RefLineCol; (d) line_column_range().start and to_json().locations of every diagnostic with a location vs RefLineCol; "
                "(e) SourceSpan::line_column_range of every visited location and of every diagnostic: start == RefLineCol(offset), end == RefLineCol(end_offset) or the position of the span's last scalar value. "
                "evaluations = documents; distinct_nontrivial = distinct documents containing a multibyte scalar, U+000B, U+000C or CR",
        "assumptions": COMMON_ASSUMPTIONS + [
            "the offset between the CR and LF of a CRLF and offsets inside a scalar are unspecified and not judged; the end of a range passes under either reading of the documentation's 'inclusive' (the exclusive end offset converted, as the code does, or the position of the last scalar value)",
            "nodes that are synthesised rather than parsed are not visited: the implicit schema definition, SelectionSet.ty and Field.definition (taken from the schema)",
            "(a)/(b) presuppose a lossless syntax tree (C02): in a document whose tree dropped a token all failures are reported under the single signature ab|locations-shifted|syntax-tree-lost-a-token(C02)",
            "documents on which parsing or validation panics are skipped here (C01/C21)",
        ],
        "floors": {"any": {
            "validity": ["valid", "invalid"],
            "location_range": ["spans several lines", "spans a lone CR and no LF"],
            "source": ["base_document", "corpus", "hostile_base_document", "hostile_corpus_document", "hostile_damaged_names", "hostile_token_mutant"],
            "text_feature": ["multibyte", "U+000B", "U+000C", "U+0085", "U+2028", "U+2029", "CR", "CRLF", "line-terminator-at-end-of-input"],
            "diagnostic_stage": ["parse", "schema-build", "schema-validation", "executable-build", "executable-validation"],
            "visited": ["OperationDefinition", "FragmentDefinition", "DirectiveDefinition", "SchemaDefinition", "SchemaExtension", "ScalarTypeDefinition", "ScalarTypeExtension",
                        "ObjectTypeDefinition", "ObjectTypeExtension", "InterfaceTypeDefinition", "InterfaceTypeExtension", "UnionTypeDefinition", "UnionTypeExtension",
                        "EnumTypeDefinition", "EnumTypeExtension", "InputObjectTypeDefinition", "InputObjectTypeExtension", "FieldDefinition", "InputValueDefinition",
                        "EnumValueDefinition", "VariableDefinition", "Field", "FragmentSpread", "InlineFragment", "Argument", "Directive", "Value", "Value::Enum", "Value::Variable",
                        "ObjectField.name", "Type.name", "description", "Field.alias", "RootOperationTypeDefinition", "union member", "implements_interfaces",
                        "Schema.schema_definition", "Schema.types key", "Schema.directive_definitions key", "ObjectType", "InterfaceType", "UnionType", "EnumType", "InputObjectType", "ScalarType",
                        "ObjectType.fields key", "EnumType.values key", "InputObjectType.fields key", "UnionType.members", "ObjectType.implements_interfaces",
                        "executable::Operation", "executable::Fragment", "executable::Field", "executable::FragmentSpread", "executable::InlineFragment",
                        "executable::Fragment type condition", "OperationMap.named key", "FragmentMap key"],
        }},
        "technique": "runtime monitoring: explicit location visitor over AST/Schema/ExecutableDocument plus an every-offset differential sweep of get_line_column and diagnostic positions against an independent line/column model",
        "level_text": "Exploration: every node and name of 10^5-10^6 parsed documents is checked for a correct source range, and every byte offset of every document (10^8-10^9 offsets) is converted and compared with the reference line/column model; documents are aimed at multibyte text and non-GraphQL line separators.",
        "level_note": "Trusts RefLineCol (LineTerminator = LF, CRLF, CR only; columns in Unicode scalar values, as documented on LineColumn) and the visitor's enumeration of public node fields; synthesised nodes are out of scope.",
        "design_ref": "DESIGN.md section 6, C11",
    },
    "C25": {
        "budget": {"quick": 40, "thorough": 480},
        "rule": "EXHAUSTIVE over abstract selection trees; node kinds {L = list-valued introspection field, N = non-list composite field, I = inline fragment, leaf, ...F0, ...F1}; "
                "a selection set is one item optionally with one sibling spread before or after it. Space A: every main tree of <= 4 (quick) / <= 5 (thorough) selection-set levels x a menu of 6 (quick) / 8 (thorough) (F0, F1) fragment "
                "definitions (own depth 0-2, F0 spreading F1, re-use inside F0). Space B: every F0 body of <= 3 (quick) / <= 4 (thorough) levels (spreading F1) x 4 F1 bodies x 16 operations re-using F0/F1 at different depths and orders. "
                "Concrete names are drawn per case from the seed: L in {fields, interfaces, possibleTypes, inputFields} (fields/inputFields continue through `type`), inline fragment with/without `on __Type`, leaf name/kind, "
                "unique aliases, `fields(includeDeprecated: true)`, root `__schema{types}` / `__type(name:)` / `__schema{queryType}`. Every operation is validated against `type Query { a: Int }` first; invalid ones are counted and dropped. "
                "Every third operation is also judged in two metamorphic variants: all fragments inlined; one selection set extracted into a new fragment. Oracle: RefDepth >= 3 <=> check_max_depth is Err. "
                "evaluations = operations executed (variants included); distinct_nontrivial = distinct valid operations containing a named-fragment spread",
        "assumptions": COMMON_ASSUMPTIONS + [
            "exhaustive over the abstract kinds only: the four list-field names, type conditions and aliases are sampled from the seed, not enumerated",
            "selection sets have at most two members (one arbitrary item plus one sibling spread), except in the hand-written menus",
        ],
        "floors": {"any": {
            "verdict": ["accept", "reject"],
            "variant": ["inline_all", "extract"],
            "origin": ["regression", "space-a", "space-b", "variant:inline_all", "variant:extract"],
            "feature": ["fragment-spread-more-than-once", "reused-fragment-at-exactly-the-limit", "spread-inside-fragment"],
            "reuse_x_verdict": ["reused,accept", "reused,reject"],
            "ref_depth": ["0", "1", "2", "3", "4"],
            "completed": ["space-a", "space-b"],
        }},
        "exhaustive_subspaces": {
            "quick": ["space A: all 54240 main trees of <= 4 levels over {L,N,I,leaf,...F0,...F1} x 6 fragment menus", "space B: all 546 F0 bodies of <= 3 levels x 4 F1 bodies x 16 re-use operations"],
            "thorough": ["space A: all 813615 main trees of <= 5 levels over {L,N,I,leaf,...F0,...F1} x 8 fragment menus", "space B: all 4920 F0 bodies of <= 4 levels x 4 F1 bodies x 16 re-use operations"],
        },
        "technique": "runtime monitoring: exhaustive differential check of the introspection depth limit against a fragment-expanding reference, with metamorphic inline/extract variants",
        "level_text": "Exploration (exhaustive within the stated bounds): every abstract selection tree up to the depth bound, combined with fragment definitions re-used at different depths, is validated and judged against the expanded-depth reference; a shard that runs out of budget reports INCONCLUSIVE.",
        "level_note": "Trusts RefDepth (max nesting of the four list fields with fragments expanded) and apollo's own validation to drop invalid operations.",
        "design_ref": "DESIGN.md section 6, C25",
    },
    "C28": {
        "budget": {"quick": 25, "thorough": 300},
        "rule": "inputs: random schemas (enum, custom scalar, 1-3 acyclic input object types with 1-4 fields: any named kind, list depth <= 2, non-null, canonical default literals incl. null) with 12 variable types each "
                "(list depth <= 3 over Int, Float, String, Boolean, ID, enum, custom scalar, input objects); 400 (quick) / 2000 (thorough) operations per schema with 1-3 variables (optional default literal, each variable used in a "
                "matching argument so the operation validates); JSON variables = well-typed value (single values in place of lists at the outermost levels, omitted optional fields, absent variables) with 0-2 perturbations "
                "(wrong kind, null, missing key/item/variable, extra key / undeclared variable, out-of-range number, float for int, numeric string <-> number, wrap in list, unwrap list). "
                "Oracle RefCoerce: accept/reject must agree and on success the map must equal the reference's (numbers by value, objects unordered, exactly the provided-or-defaulted variables). "
                "evaluations = (operation, variables) pairs executed; distinct_nontrivial = distinct judged pairs in which the reference rejected or took a non-scalar branch (wrapping, input object, default, enum, ...)",
        "assumptions": COMMON_ASSUMPTIONS + [
            "don't-care bands are counted and not judged: Float from an integer with |x| >= 2^53-1 that is exactly representable; Int from a float with integral value; ID from an integer outside i64; "
            "a non-list item of a list whose item type is a list (October 2021 prose says wrap, its table says error)",
            "default literals are canonical (lists written as lists, input objects with every field spelled out), so whether a default value is itself coerced is not observed",
        ],
        "floors": {"any": {
            "verdict": ["accept", "reject"],
            "feature": ["single-value-wrapped", "single-value-wrapped-nested", "input-object", "input-field-default-filled", "input-field-default-filled-nested", "optional-input-field-absent",
                        "variable-default-used", "nullable-variable-absent", "explicit-null-overrides-default", "null-list-item", "enum-by-name", "custom-scalar-passthrough", "id-from-integer", "float-from-integer"],
            "reject_rule": ["int-out-of-32-bit-range", "float-for-int", "string-for-int", "string-for-float", "integer-not-representable-as-float", "number-for-string", "wrong-kind-for-boolean", "float-for-id",
                            "unknown-enum-value", "wrong-kind-for-enum", "non-object-for-input-object", "unknown-input-field", "required-input-field-missing", "required-variable-missing",
                            "null-for-non-null", "null-item-for-non-null-item-type"],
            "perturbation": ["wrong-kind", "null", "missing", "extra-key", "out-of-range", "float-for-int", "numeric-string", "wrap-in-list", "unwrap-list"],
            "perturbation_count": ["0", "1", "2"],
            "list_depth": ["0", "1", "2", "3"],
        }},
        "technique": "runtime monitoring: differential check of variable coercion against a reference CoerceVariableValues on generated schemas, operations and perturbed JSON values",
        "level_text": "Exploration: 10^6-10^8 (operation, variables) pairs over generated schemas are coerced and compared, verdict and value, with a reference transcription of CoerceVariableValues and the input-coercion rules.",
        "level_note": "Trusts RefCoerce (unit-tested on the spec's list-coercion table) and apollo's validation to confirm that generated operations and default literals are valid; four don't-care bands are excluded.",
        "design_ref": "DESIGN.md section 6, C28",
    },
    "C29": {
        "budget": {"quick": 40, "thorough": 120},
        "rule": "EXHAUSTIVE in both tiers. Types: every wrapping to list depth 2 (14 shapes, quick) / 3 (30 shapes, thorough) of each named type. "
                "(1) assignable: all ordered pairs (112x112 quick) over {Int,String,I,O,U,X,In,E}: Type::is_assignable_to vs AreTypesCompatible; "
                "(2) usage: all ordered pairs (56x56 quick) (variable type A, location type B) over the input types {Int,String,In,E} x d in {none, literal, null} x ld in {none, literal} "
                "(null default on a Non-Null variable skipped: the default itself is invalid): `query($v: A = d) { f(arg: $v) }` against `type Query { f(arg: B = ld): Int }`, "
                "presence of DisallowedVariableUsage vs NOT IsVariableUsageAllowed; "
                "(3) impl: all ordered pairs (98x98 quick) over {Int,String,I,J(implements I),O(implements I),U(contains O),X}: `interface I { f: A } type O implements I { f: B }`, "
                "presence of InvalidImplementationFieldType about O.f vs NOT IsValidImplementationFieldType(B, A). "
                "evaluations = cases executed; distinct_nontrivial = distinct usage and impl cases judged plus assignable cases in which at least one side is wrapped or the two differ",
        "assumptions": COMMON_ASSUMPTIONS + [
            "the variable-usage and implementation predicates are observed through the validation verdict of minimal, otherwise valid documents; a case in which any other diagnostic appears is not judged (listed as inconclusive)",
            "named types are limited to one representative per kind and subtype relation; list nesting to depth 2 (quick) / 3 (thorough)",
        ],
        "floors": {"any": {
            "completed": ["whole-space"],
            "verdict": [
                "assignable:compatible", "assignable:nullable-into-non-null", "assignable:named-into-list", "assignable:list-into-named", "assignable:different-named-type",
                "usage:allowed", "usage:non-null-location,nullable-variable,no-default", "usage:non-null-location,nullable-variable,null-default-only",
                "usage:types-incompatible:nullable-into-non-null", "usage:types-incompatible:named-into-list", "usage:types-incompatible:list-into-named", "usage:types-incompatible:different-named-type",
                "impl:same-type", "impl:object-member-of-union", "impl:implements-interface", "impl:nullable-for-non-null", "impl:list-vs-named", "impl:unrelated-named-type",
            ],
            "usage_defaults": ["d=none,ld=false", "d=none,ld=true", "d=literal,ld=false", "d=literal,ld=true", "d=null,ld=false", "d=null,ld=true"],
        }},
        "exhaustive_subspaces": {
            "quick": ["assignable: 112x112 type pairs (8 names x 14 wrappings, list depth <= 2)",
                      "usage: 56x56 type pairs x d{none,literal,null} x ld{none,literal} minus null-default-on-non-null",
                      "impl: 98x98 type pairs (7 names x 14 wrappings)"],
            "thorough": ["assignable: 240x240 type pairs (8 names x 30 wrappings, list depth <= 3)",
                         "usage: 120x120 type pairs x d{none,literal,null} x ld{none,literal} minus null-default-on-non-null",
                         "impl: 210x210 type pairs (7 names x 30 wrappings)"],
        },
        "technique": "runtime monitoring: exhaustive differential check of three type predicates against a reference model transcribed from the October 2021 specification",
        "level_text": "Exploration (exhaustive within the stated bounds): every ordered pair of type references to list depth 2 over one representative named type per kind/subtype relation, with every default-value combination, is judged against the spec algorithms.",
        "level_note": "Trusts the reference transcription of AreTypesCompatible / IsVariableUsageAllowed / IsValidImplementationFieldType (unit-tested on the spec's examples) and the identification of the diagnostic by unstable_error_name().",
        "design_ref": "DESIGN.md section 6, C29",
    },
    "C26": {
        "budget": {"quick": 40, "thorough": 420},
        "rule": "cases: (schema from gen_schema without subscription root, operation from gen_executable with <= 40 field selections, sometimes __schema/__type injected at the query root; "
                "both accepted by apollo's own validation) x (variable values passed through coerce_variable_values; variables driving @skip/@include always boolean, other nullable ones sometimes omitted or explicitly null) "
                "x resolver world (object type, field) -> outcome. Operations touching <= 5 distinct (type, field) cells get ALL 6^n worlds over a 6-outcome palette per cell, larger ones random worlds. "
                "Each case: apollo execute_sync vs RefExecutor (data with key order; error-path multiset inside the band [cancel every sibling the spec allows, cancel none]); direct checks on apollo's response "
                "(null at non-null position, error path designates a null position, data:null iff an error sits under an all-non-null chain); mutation roots serial in document order from the resolver call log. "
                "distinct_nontrivial = distinct (schema, operation, variables, world) tuples on which apollo made at least one resolver call and the full comparison ran",
        "assumptions": COMMON_ASSUMPTIONS + [
            "precondition filter is apollo's own validation (Schema::parse_and_validate, ExecutableDocument::parse_and_validate) and coerce_variable_values; rejected inputs are counted, not judged",
            "reference follows apollo's documented choices: strict result coercion of built-in scalars, custom scalars pass any JSON, a list-iterator Err fails the list at the item's path (unit test test_error_path), __typename answered by the executor, __schema/__type are field errors with introspection disabled",
            "spec section 6.4.4 lets an executor cancel siblings after a non-null error propagates: error paths are judged against the band between cancelling everything allowed and cancelling nothing; error messages and locations are not compared",
            "out of band by construction (spec or apollo documentation does not decide): a null value for the `if` variable of @skip/@include; result values the spec says a service MAY coerce (integer for Float, number for String, numeric string for Int); subscription operations",
        ],
        "floors": {"any": {
            "outcome_kind_resolved": ["correct", "null", "err", "wrong_kind", "int_overflow", "enum_unknown", "object_right", "object_unknown", "object_nonmember",
                                      "leaf_where_object", "object_where_leaf", "list_unexpected", "leaf_where_list", "list_ok", "list_empty", "list_item_null",
                                      "list_item_err", "list_item_bad", "list_mixed"],
            "reference_event": ["null-propagated-to-root", "list-nulled-by-non-null-item", "list-failed-by-iterator-error", "error-nulled-at-list-item", "error-nulled-at-field",
                                "abstract-type-resolved", "object-not-a-possible-type", "object-of-unknown-type", "leaf-coercion-error", "argument-coercion-field-error",
                                "schema-introspection-disabled-field-error", "typename-answered-by-executor"],
            "root": ["null-propagated-to-root"],
            "operation_kind": ["query", "mutation"],
            "source": ["exhaustive-palette", "random-world"],
            "feature": ["skip-include", "skip-and-include-on-one-selection", "named-fragments", "schema-introspection-meta-field"],
        }},
        "exhaustive_subspaces": {
            "quick": ["for every generated request whose operation touches <= 5 distinct (object type, field) cells: all 6^n resolver worlds over a 6-outcome palette per cell (counter exhaustive_enumerations_completed; enumerations cut by the budget are counted separately)"],
            "thorough": ["for every generated request whose operation touches <= 5 distinct (object type, field) cells: all 6^n resolver worlds over a 6-outcome palette per cell (counter exhaustive_enumerations_completed; enumerations cut by the budget are counted separately)"],
        },
        "technique": "runtime monitoring: differential execution against an independent reference executor written from the October 2021 specification, plus direct response invariants and a resolver call log, over generated (schema, operation, variables, resolver world) requests",
        "level_text": "Exploration: 10^6-10^7 executions of execute_sync are compared with a reference executor over generated valid requests and resolver worlds (exhaustive over a 6-outcome palette for small operations); a universally quantified equality can only be sampled.",
        "level_note": "The oracle is a reference model written in the harness from the specification text (no GraphQL reference implementation exists offline); it shares no code with apollo-rs. Error messages/locations are not compared. Validity of inputs is decided by apollo's own validation (the property's precondition).",
        "design_ref": "DESIGN.md section 6, C26",
    },
    "C27": {
        "budget": {"quick": 35, "thorough": 400},
        "rule": "cases: (request from C26's generator, random resolver world with short lists) x schedule = (pending count k per resolver future / list-stream item in creation order, wake order among parked wakers). "
                "execute_async is driven by the harness's instrumented single-thread executor (own Waker via std::task::Wake; root future polled only after its waker fired; parked wakers woken one at a time). "
                "Requests creating <= 6 futures get ALL 3^n vectors k in {0,1,2}; larger ones random vectors with k <= 5; every point where 2..4 wakers are parked at once is expanded depth-first over all wake orders. "
                "Each run: response == execute_sync's (serialized, key order included), resolver call sequence == sync's, mutation root events non-overlapping in document order, no logical deadlock. "
                "distinct_nontrivial = distinct (request, world) pairs executed under at least one schedule with a Pending poll (the schedules are counted by schedules_with_pending_polls_executed)",
        "assumptions": COMMON_ASSUMPTIONS + [
            "lost wake-ups are decided logically (root Pending, no wake recorded, nothing parked), never by a clock; a 200000-poll step limit is inconclusive, not a verdict",
            "schedules are those of one thread: resolver futures never complete without being polled; the executor self-check (6 wake orders of 3 parked wakers enumerated, a future parking a no-op waker reported as deadlock) runs at the start of every worker",
            "requests are those apollo validates and coerces (C26's precondition filter)",
        ],
        "floors": {"any": {
            "exhaustive_futures": ["1", "2", "3", "4", "5", "6"],
            "schedule_class": ["all-ready", "some-pending"],
            "operation_kind": ["query", "mutation"],
            "random_schedules": ["k<=5"],
            "floor": ["100-distinct-schedules-with-pending-polls-in-one-shard"],
            "selfcheck": ["all-6-wake-orders-of-3-parked-wakers-enumerated", "lost-wakeup-detected-on-a-future-that-parks-a-noop-waker"],
        }},
        "exhaustive_subspaces": {
            "quick": ["for every (request, world) creating n <= 6 resolver futures / stream items: all 3^n pending-count vectors with k in {0,1,2} (counter requests_with_all_3_pow_n_schedules)",
                      "for every executed schedule: all wake orders at every point with 2..4 simultaneously parked wakers (depth-first, at most 256 runs per schedule)"],
            "thorough": ["for every (request, world) creating n <= 6 resolver futures / stream items: all 3^n pending-count vectors with k in {0,1,2} (counter requests_with_all_3_pow_n_schedules)",
                         "for every executed schedule: all wake orders at every point with 2..4 simultaneously parked wakers (depth-first, at most 256 runs per schedule)"],
        },
        "technique": "runtime monitoring: instrumented single-thread executor with controlled readiness schedules, event log at the resolver boundary, logical deadlock detection; exhaustive schedule enumeration within a bound",
        "level_text": "Exploration: execute_async is run under 10^6-10^7 controlled schedules (all 3^n pending-count vectors for requests with at most 6 futures, random beyond) and compared with execute_sync on response, resolver call order and mutation serialisation; lost wake-ups are detected as logical deadlocks.",
        "level_note": "The relation async == sync is the property itself, so comparing apollo-rs with itself is the oracle here; what the harness adds independently is the executor, the schedules and the event log. Multi-threaded executors are not modelled.",
        "design_ref": "DESIGN.md section 6, C27",
    },
    "C33": {
        "budget": {"quick": 35, "thorough": 400},
        "rule": "cases: (schema from gen_schema with about a third of the output fields rewritten to list depth 2-3, operation generated without @skip/@include, both valid for apollo, every reachable abstract type inhabited) "
                "x randomness source (harness RandomProvider implementations: seeded PRNG, always-min, always-max, alternating; arbitrary::Unstructured over random bytes and over no bytes) x null ratio {unset, 1/10, 1/2, 1/1} x list bounds {0..0, 0..1, 1..3, 5..5}. "
                "Each case: ResponseBuilder::build() data is judged by the shape checker (keys = CollectFields response keys in order for some possible concrete type, __typename, non-null, list nesting, enum values, scalar JSON kinds) "
                "and, when the shape holds, re-executed through apollo execute_sync with resolvers serving exactly that data (must reproduce it without errors). "
                "distinct_nontrivial = distinct (schema, operation) pairs satisfying the precondition for which build() returned a data object under at least one configuration (every builder run counts in evaluations)",
        "assumptions": COMMON_ASSUMPTIONS + [
            "precondition filter: apollo's own validation; every abstract type reachable from the operation has >= 1 possible object type (filter rate = filtered_by_precondition_uninhabited_abstract_type / pairs_generated)",
            "Float accepts any JSON number in the shape checker; custom scalars accept any JSON; a ResponseError returned by build() is counted, not judged",
            "re-execution uses apollo's executor as a second witness only when the shape checker accepts; variables for it are total and non-null so that argument coercion adds no errors",
        ],
        "floors": {"any": {
            "source": ["seeded", "min", "max", "alternating", "unstructured", "unstructured-empty"],
            "null_ratio": ["None", "Some((1, 10))", "Some((1, 2))", "Some((1, 1))"],
            "list_bounds": ["0..0", "0..1", "1..3", "5..5"],
            "list_depth_of_checked_field": ["0", "1", "2", "3"],
            "shape_verdict": ["holds"],
            "reexecution": ["reproduced"],
        }},
        "technique": "runtime monitoring: independent shape checker over the model schema plus re-execution through the real executor, over generated (schema, operation) pairs x randomness sources x builder configurations",
        "level_text": "Exploration: 10^6-10^7 generated responses are checked against an independent shape checker and re-executed; nested list types to depth 3 are forced by quota.",
        "level_note": "The shape checker is written from the property's clauses over the harness's own schema model; re-execution trusts apollo-compiler's executor (property C26) as a second witness, never as the only one.",
        "design_ref": "DESIGN.md section 6, C33",
    },
    "C30": {
        "budget": {"quick": 30, "thorough": 300},
        "plugin": "memsan",
        "rule": "histories: 252 scripted histories (7 constructors x 12 edge file ids x 3 texts, every operation kind), then random single-threaded histories of 20-200 operations "
                "over <= 8 name slots, <= 8 node slots, one HashSet<Name>, 3 valid texts + 1 invalid text, file ids over the whole 63-bit range (edges 1,2,3,2^62,2^63-1, single bits +-1, uniform), "
                "then multi-threaded histories (2-8 threads x 1-3 rounds x 20-200 operations per thread, names and nodes exchanged through channels, the same 3 backing Arc<str> cloned/dropped concurrently). "
                "Oracle: shadow model (text, location, static flag, Arc identity, eq/hash/ord, set membership, node allocation groups, payload construct/drop balance) and "
                "Arc::strong_count(handle) == live names sharing it + harness handles after every single-threaded step and at every join point; live heap bytes return to the baseline after each history. "
                "distinct_nontrivial = distinct single-threaded histories in which at least 3 live names shared one backing Arc<str>, plus multi-threaded histories that sent names between threads and had >= 2 names sharing a backing at a join point. "
                "Variants asan / tsan / miri (/ memcheck in thorough) rerun the same monitor; their measured counts are the `<variant>:` counters",
        "assumptions": COMMON_ASSUMPTIONS + [
            "locations are attached through the verif-hooks constructor SourceSpan::__verif_new; file id 2 (the crate-private FileId::NONE, not constructible through the public API) is modelled as 'no location' for names, as documented on the field",
            "Name::with_location is only called with a span whose length equals the name's length (its documented debug assertion)",
            "multi-threaded histories are judged at join points (counts by inspection with Arc::ptr_eq); the schedules are those the OS / TSan / Miri's seeded scheduler produced, not all schedules",
            "Miri runs only Name/Node/FileId/SourceSpan operations (anything that parses reaches rowan 0.16.1, which Miri rejects under both aliasing models); Tree Borrows is on",
            "a variant that could not be built or run is reported as inconclusive for that variant",
        ],
        "floors": {"any": {
            "phase": ["single_thread", "multi_thread"],
            "op": ["new", "new_static", "new_unchecked", "new_static_unchecked", "from_arc_unchecked", "try_from_arc", "name_macro", "clone", "drop",
                   "with_location", "location", "as_str", "as_static_str", "to_cloned_arc", "drop_handle", "into_arc", "to_component",
                   "set_insert", "set_lookup", "set_remove", "eq_hash", "node_new", "node_new_parsed", "node_new_str", "node_new_str_parsed",
                   "node_clone", "node_drop", "node_make_mut", "node_get_mut", "node_ptr_eq", "node_same_location", "node_eq", "node_to_component",
                   "mt_from_handle", "mt_clone", "mt_drop", "mt_send", "mt_send_clone", "mt_recv", "mt_with_location", "mt_into_arc",
                   "mt_node_send_clone", "mt_node_make_mut", "mt_node_get_mut"],
            "mt_threads": ["2", "4", "8"],
        }},
        "crash_class": "name-node-history",
        "technique": "runtime monitoring: operation interpreter with a shadow model and reference-count invariant over generated Name/Node histories (single- and multi-threaded), counting allocator, plus AddressSanitizer/LeakSanitizer, ThreadSanitizer, Miri (Tree Borrows, many seeds) and valgrind memcheck runs of the same monitor",
        "level_text": "Exploration: 10^5-10^6 operation histories over a small pool are interpreted against a shadow model with the strong-count invariant checked after every step; the same monitor is rerun under ASan/LSan, TSan, Miri and (thorough) memcheck. Memory safety holds for the histories and schedules run, not for all.",
        "level_note": "Trusts Arc::strong_count/Arc::ptr_eq of std as observations, the sanitizers' and Miri's reports, and the counting allocator's byte accounting; red-zone sanitizers miss some classes, hence three mechanisms.",
        "design_ref": "DESIGN.md section 6, C30",
    },
    "C31": {
        "budget": {"quick": 30, "thorough": 300},
        "shards": {"quick": 8, "thorough": 8},
        "plugin": "memsan",
        "rule": "per worker process, in this order: (e) cold start - 4-16 threads released by a barrier use SchemaBuilder::built_in, MetaFieldDefinitions, BuiltInScalars and the per-file line/column cache for the first time simultaneously, digests compared with the sequential digest "
                "(further fresh processes are run by the plugin: `cold:` counters); (a) FileId::new() from 2-16 barrier-released threads x 10^5 (thorough up to 10^6) calls, per-thread logs, sort + adjacent compare, none of 0/1/2, no bit 63; "
                "(b) counter preset to 2^63-k for every k in 1..=64 with 2-16 threads: ids >= 2^63-k pairwise distinct, every id >= 3 without tag bit (duplicates after the wrap are allowed by the property); the counter is restored above the high-water mark afterwards; "
                "(c) Name::with_location -> location() for all ids 2^b-1, 2^b, 2^b+1 (b < 63), the edge list and random 63-bit ids, both tags; "
                "(d) 2-16 threads parse + validate + introspect 8-24 generated executable documents against ONE shared Valid<Schema>, per-input digests (serialized document, diagnostics as displayed, introspection JSON) equal the sequential digests. "
                "distinct_nontrivial = distinct id rounds + wrap cases with ids on both sides of the wrap + shared-schema rounds whose inputs include diagnostics and introspection + cold starts",
        "assumptions": COMMON_ASSUMPTIONS + [
            "the wrap branch is reached through the verif-hooks setter FileId::__verif_set_next; no other code of the worker allocates file ids while an id workload runs",
            "only inputs whose sequential digest is stable over two sequential executions are compared with the threads' digests; a differing thread digest is first re-checked against 20 further sequential executions",
            "schedules are those produced by the OS on an oversubscribed machine, by TSan and by Miri's seeded scheduler with a raised preemption rate (3 threads x 4 allocations per seed); no exhaustive interleaving enumeration is claimed",
            "Miri runs only the id and pack workloads (no parsing: rowan)",
            "a variant that could not be built or run is reported as inconclusive for that variant",
        ],
        "floors": {"any": {
            "phase": ["cold_start", "ids", "wrap", "pack", "shared_schema"],
            "id_threads": ["2", "3", "4", "8", "16"],
            "wrap_k": [str(k) for k in range(1, 65)],
            "shared_threads": ["2", "16"],
        }},
        "crash_class": "fileid-shared-state",
        "technique": "runtime monitoring: offline checker over per-thread id logs (plain and across a forced 63-bit wrap), pack/unpack round trips over the 63-bit range, sequential-vs-concurrent digest comparison on a shared schema, barrier-released cold-start races in fresh processes; plus ASan, TSan and Miri (seeded scheduler) runs",
        "level_text": "Exploration: 10^7 concurrently allocated ids are checked for distinctness, every k in 1..=64 of the forced wrap is run with 2-16 threads, pack/unpack is checked at every bit boundary, and shared-schema work from up to 16 threads is compared with sequential results; TSan and Miri's seeded scheduler look for races. Interleavings are sampled, not enumerated.",
        "level_note": "Trusts the verif-hooks accessors (__verif_raw, __verif_set_next) as observations of the counter, FNV digests of Display/serde output as the comparison of results, and the sanitizers' and Miri's reports.",
        "design_ref": "DESIGN.md section 6, C31",
    },
}

# Properties not claimed, with the reason (kept current; see DESIGN.md section 10).
NOT_APPLICABLE = {}
