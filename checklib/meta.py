"""Per-property metadata used by ./check (budgets, coverage floors, evidence wording) and by
tools/gen_manifest.py (MANIFEST.json is generated from this table so the two cannot drift)."""

COMMON_ASSUMPTIONS = [
    "explored, not proved: the verdict covers exactly the executions counted in coverage",
    "worker built from /repo's current working tree with opt-level=2, debug-assertions and overflow-checks on, feature verif-hooks",
]

META = {
    "C01": {
        "budget": {"quick": 45, "thorough": 600},
        "rule": "inputs: regression witnesses, 28 nesting/chain families x depths around every limit constant x limit settings, "
                "char-boundary prefixes of every corpus file, then random char/lexeme soup, token mutants, splices, wrapped and infix corpus texts "
                "with random token/recursion limits; every case goes through lexer (lex + externally driven iterator with a len+2 progress bound), "
                "the three apollo-parser entry points and the compiler's parse entry points under catch_unwind (2 MiB stack when longer than 256 bytes). "
                "distinct_nontrivial = distinct (text, token limit, recursion limit) triples executed",
        "assumptions": COMMON_ASSUMPTIONS + [
            "stack safety is claimed for recursion limits up to the default (500) on a 2 MiB stack; larger user-set limits are combined only with inputs of at most 500 opening brackets",
            "non-termination is observed through the parser's compiled-in progress assertions, the step-bounded lexer driver and the run watchdog (whose firing is inconclusive, never a violation)",
        ],
        "floors": {"any": {"source": ["nested", "corpus_prefix_sweep", "char_soup", "lexeme_soup", "corpus_mutant"]}},
        "crash_class": "parse",
        "technique": "runtime monitoring: panic/abort/progress monitors over generated hostile inputs x limit configurations, child-process crash attribution",
        "level_text": "Exploration: every parse entry point is executed on 10^5-10^7 hostile inputs x limit settings with panic, abort and progress monitors; a universally quantified no-panic claim can only be sampled, and the sample is aimed at the limit constants and error-recovery paths.",
        "level_note": "Trusts catch_unwind + process-death attribution to see every panic/overflow; hangs are seen via debug assertions compiled into the parser and a step-bounded lexer driver; wall-clock is never a verdict.",
        "design_ref": "DESIGN.md section 6, C01",
    },
    "C02": {
        "budget": {"quick": 35, "thorough": 480},
        "rule": "inputs: one lexical/syntactic error injected or substituted at every token position of valid corpus documents, all corpus files (also with recursion limits 0,1,2,5), "
                "then random hostile inputs; oracle walks descendants_with_tokens(): contiguous token ranges from 0 to len, token text == input slice, node range == span of children, char boundaries. "
                "distinct_nontrivial = distinct inputs that had at least one parse error AND at least one ERROR token in the tree",
        "assumptions": COMMON_ASSUMPTIONS + [
            "no token limit is set (as the property states); with a recursion-limit error only the prefix property is required",
        ],
        "floors": {"any": {"source": ["inject_at_position", "replace_at_position", "corpus", "corpus_mutant"]}},
        "technique": "runtime monitoring: structural invariant walk of the CST against the input on generated and error-injected inputs",
        "level_text": "Exploration: the lossless-tree invariant is asserted on every tree produced for 10^5-10^6 inputs with errors injected at every grammar position reached by the corpus.",
        "level_note": "Trusts rowan's text_range/descendants_with_tokens as the observation of the tree; inputs that make the parser panic are C01's business and are skipped here (counted).",
        "design_ref": "DESIGN.md section 6, C02",
    },
    "C12": {
        "budget": {"quick": 35, "thorough": 480},
        "rule": "schema texts: hand-written specials (implicit/explicit schema, schema extensions, renamed roots, redefined built-in directives, built-in scalar extensions), "
                "EXHAUSTIVE placements of one definition plus every subset of up to three extensions of the same type in every order for all six type kinds, the type-system part of every corpus file, "
                "apollo-smith schemas, and model-generated schemas (plain and with random trivia); for each schema built without errors: serialize (default and no_indent), re-parse, "
                "compare ordered digest (types, fields, arguments, enum values, members, interfaces, directive applications, root operations in order), PartialEq, second serialization byte-identical, validity preserved. "
                "distinct_nontrivial = distinct texts that built without errors and have >= 8 digest lines",
        "assumptions": COMMON_ASSUMPTIONS + [
            "schemas that do not build cleanly are outside the property and are skipped (counted)",
            "the ordered digest is computed by the harness through apollo's public Schema API; built-in types and unredefined built-in directives are not part of it",
        ],
        "floors": {"any": {"source": ["special", "extension_interleaving", "corpus", "model_plain", "model_trivia", "smith"],
                           "interleaving_kind": ["type", "interface", "enum", "input", "union", "scalar"]}},
        "exhaustive_subspaces": {"quick": ["all orders of {definition} + every subset of 3 (2 for scalar) extensions of one type, for the six type kinds (256 placements)"],
                                 "thorough": ["all orders of {definition} + every subset of 3 (2 for scalar) extensions of one type, for the six type kinds (256 placements)"]},
        "technique": "runtime monitoring: metamorphic round-trip monitor with an ordered-digest oracle over generated, corpus and exhaustively interleaved schemas",
        "level_text": "Exploration: every schema that builds cleanly among 10^5-10^6 generated/corpus/smith inputs plus an exhaustive small space of definition/extension placements is serialized, re-parsed and compared by an order-sensitive digest.",
        "level_note": "Metamorphic: trusts apollo's parser to read back what the serializer wrote (C08/C05 cover that separately); the digest is the harness's own walk of the public Schema API.",
        "design_ref": "DESIGN.md section 6, C12",
    },
    "C13": {
        "budget": {"quick": 35, "thorough": 480},
        "rule": "model-generated type-system documents (with extensions), 2/3 of them with one deliberate collision (duplicate type/directive, kind-mismatched or orphan extension, duplicate component in an extension, "
                "extra schema definition, duplicate root operation, built-in redefinition, executable definition in a schema source), printed one definition at a time; claim 1: every cut into <= 3 consecutive sources "
                "(exhaustive for <= 6 definitions, random beyond) fed to Schema::builder (with and without adopt_orphan_extensions) vs the concatenation: same ok/err, same ordered digest, same ordered diagnostic messages; "
                "claim 2: every extension sitting after its definition is moved before it: same ok/err, PartialEq, digest (ordered when it is the only extension of its target), same multiset of messages; "
                "claim 1 also for executable documents through ExecutableDocument::builder with and without schema (duplicate definitions, several anonymous operations, type-system definitions mixed in). "
                "distinct_nontrivial = distinct multi-source splits that contain an extension or produce a diagnostic, plus distinct moves",
        "assumptions": COMMON_ASSUMPTIONS + [
            "each source is a sequence of complete definitions (as the property's quantifier states)",
            "for the move claim, when the target has several extensions only the order-insensitive digest is compared (the property says the built schema does not change; Schema equality ignores map order)",
        ],
        "floors": {"any": {"collision": ["duplicate-type", "kind-mismatched-extension", "orphan-type-extension", "duplicate-component-in-extension", "extra-schema-definition", "none"],
                           "move_kind": ["type-extension", "kind-mismatched-type-extension", "schema-extension"],
                           "exec_split_mode": ["with-schema", "without-schema"],
                           "split_outcome": ["builds", "build-errors"]}},
        "technique": "runtime monitoring: metamorphic monitor comparing multi-source builder histories with the concatenated build (ordered digest + diagnostic messages) on generated documents with injected collisions",
        "level_text": "Exploration: 10^5-10^6 builder histories (all cuts of small documents, all extension moves) are compared with the single-source build by an order-sensitive digest and the diagnostic message list.",
        "level_note": "Metamorphic: both sides go through apollo's parser and builder; the relation between them is the property. The digest is the harness's own walk of the public Schema API.",
        "design_ref": "DESIGN.md section 6, C13",
    },
}

# Properties not claimed, with the reason (kept current; see DESIGN.md section 10).
NOT_APPLICABLE = {}
