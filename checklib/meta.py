"""Per-property metadata used by ./check (budgets, coverage floors, evidence wording) and by
tools/gen_manifest.py (MANIFEST.json is generated from this table so the two cannot drift)."""

COMMON_ASSUMPTIONS = [
    "explored, not proved: the verdict covers exactly the executions counted in coverage",
    "worker built from /repo's current working tree with opt-level=2, debug-assertions and overflow-checks on, feature verif-hooks",
]

META = {
    "C01": {
        "budget": {"quick": 45, "thorough": 600},
        "rule": "inputs: regression witnesses, 28 nesting/chain families x depths around every limit constant x limit settings, "
                "char-boundary prefixes of every corpus file, then random char/lexeme soup, token mutants, splices, wrapped and infix corpus texts "
                "with random token/recursion limits; every case goes through lexer (lex + externally driven iterator with a len+2 progress bound), "
                "the three apollo-parser entry points and the compiler's parse entry points under catch_unwind (2 MiB stack when longer than 256 bytes). "
                "distinct_nontrivial = distinct (text, token limit, recursion limit) triples executed",
        "assumptions": COMMON_ASSUMPTIONS + [
            "stack safety is claimed for recursion limits up to the default (500) on a 2 MiB stack; larger user-set limits are combined only with inputs of at most 500 opening brackets",
            "non-termination is observed through the parser's compiled-in progress assertions, the step-bounded lexer driver and the run watchdog (whose firing is inconclusive, never a violation)",
        ],
        "floors": {"any": {"source": ["nested", "corpus_prefix_sweep", "char_soup", "lexeme_soup", "corpus_mutant"]}},
        "crash_class": "parse",
        "technique": "runtime monitoring: panic/abort/progress monitors over generated hostile inputs x limit configurations, child-process crash attribution",
        "level_text": "Exploration: every parse entry point is executed on 10^5-10^7 hostile inputs x limit settings with panic, abort and progress monitors; a universally quantified no-panic claim can only be sampled, and the sample is aimed at the limit constants and error-recovery paths.",
        "level_note": "Trusts catch_unwind + process-death attribution to see every panic/overflow; hangs are seen via debug assertions compiled into the parser and a step-bounded lexer driver; wall-clock is never a verdict.",
        "design_ref": "DESIGN.md section 6, C01",
    },
    "C02": {
        "budget": {"quick": 35, "thorough": 480},
        "rule": "inputs: one lexical/syntactic error injected or substituted at every token position of valid corpus documents, all corpus files (also with recursion limits 0,1,2,5), "
                "then random hostile inputs; oracle walks descendants_with_tokens(): contiguous token ranges from 0 to len, token text == input slice, node range == span of children, char boundaries. "
                "distinct_nontrivial = distinct inputs that had at least one parse error AND at least one ERROR token in the tree",
        "assumptions": COMMON_ASSUMPTIONS + [
            "no token limit is set (as the property states); with a recursion-limit error only the prefix property is required",
        ],
        "floors": {"any": {"source": ["inject_at_position", "replace_at_position", "corpus", "corpus_mutant"]}},
        "technique": "runtime monitoring: structural invariant walk of the CST against the input on generated and error-injected inputs",
        "level_text": "Exploration: the lossless-tree invariant is asserted on every tree produced for 10^5-10^6 inputs with errors injected at every grammar position reached by the corpus.",
        "level_note": "Trusts rowan's text_range/descendants_with_tokens as the observation of the tree; inputs that make the parser panic are C01's business and are skipped here (counted).",
        "design_ref": "DESIGN.md section 6, C02",
    },
    "C12": {
        "budget": {"quick": 35, "thorough": 480},
        "rule": "schema texts: hand-written specials (implicit/explicit schema, schema extensions, renamed roots, redefined built-in directives, built-in scalar extensions), "
                "EXHAUSTIVE placements of one definition plus every subset of up to three extensions of the same type in every order for all six type kinds, the type-system part of every corpus file, "
                "apollo-smith schemas, and model-generated schemas (plain and with random trivia); for each schema built without errors: serialize (default and no_indent), re-parse, "
                "compare ordered digest (types, fields, arguments, enum values, members, interfaces, directive applications, root operations in order), PartialEq, second serialization byte-identical, validity preserved. "
                "distinct_nontrivial = distinct texts that built without errors and have >= 8 digest lines",
        "assumptions": COMMON_ASSUMPTIONS + [
            "schemas that do not build cleanly are outside the property and are skipped (counted)",
            "the ordered digest is computed by the harness through apollo's public Schema API; built-in types and unredefined built-in directives are not part of it",
        ],
        "floors": {"any": {"source": ["special", "extension_interleaving", "corpus", "model_plain", "model_trivia", "smith"],
                           "interleaving_kind": ["type", "interface", "enum", "input", "union", "scalar"]}},
        "exhaustive_subspaces": {"quick": ["all orders of {definition} + every subset of 3 (2 for scalar) extensions of one type, for the six type kinds (256 placements)"],
                                 "thorough": ["all orders of {definition} + every subset of 3 (2 for scalar) extensions of one type, for the six type kinds (256 placements)"]},
        "technique": "runtime monitoring: metamorphic round-trip monitor with an ordered-digest oracle over generated, corpus and exhaustively interleaved schemas",
        "level_text": "Exploration: every schema that builds cleanly among 10^5-10^6 generated/corpus/smith inputs plus an exhaustive small space of definition/extension placements is serialized, re-parsed and compared by an order-sensitive digest.",
        "level_note": "Metamorphic: trusts apollo's parser to read back what the serializer wrote (C08/C05 cover that separately); the digest is the harness's own walk of the public Schema API.",
        "design_ref": "DESIGN.md section 6, C12",
    },
    "C13": {
        "budget": {"quick": 35, "thorough": 480},
        "rule": "model-generated type-system documents (with extensions), 2/3 of them with one deliberate collision (duplicate type/directive, kind-mismatched or orphan extension, duplicate component in an extension, "
                "extra schema definition, duplicate root operation, built-in redefinition, executable definition in a schema source), printed one definition at a time; claim 1: every cut into <= 3 consecutive sources "
                "(exhaustive for <= 6 definitions, random beyond) fed to Schema::builder (with and without adopt_orphan_extensions) vs the concatenation: same ok/err, same ordered digest, same ordered diagnostic messages; "
                "claim 2: every extension sitting after its definition is moved before it: same ok/err, PartialEq, digest (ordered when it is the only extension of its target), same multiset of messages; "
                "claim 1 also for executable documents through ExecutableDocument::builder with and without schema (duplicate definitions, several anonymous operations, type-system definitions mixed in). "
                "distinct_nontrivial = distinct multi-source splits that contain an extension or produce a diagnostic, plus distinct moves",
        "assumptions": COMMON_ASSUMPTIONS + [
            "each source is a sequence of complete definitions (as the property's quantifier states)",
            "for the move claim, when the target has several extensions only the order-insensitive digest is compared (the property says the built schema does not change; Schema equality ignores map order)",
        ],
        "floors": {"any": {"collision": ["duplicate-type", "kind-mismatched-extension", "orphan-type-extension", "duplicate-component-in-extension", "extra-schema-definition", "none"],
                           "move_kind": ["type-extension", "kind-mismatched-type-extension", "schema-extension"],
                           "exec_split_mode": ["with-schema", "without-schema"],
                           "split_outcome": ["builds", "build-errors"]}},
        "technique": "runtime monitoring: metamorphic monitor comparing multi-source builder histories with the concatenated build (ordered digest + diagnostic messages) on generated documents with injected collisions",
        "level_text": "Exploration: 10^5-10^6 builder histories (all cuts of small documents, all extension moves) are compared with the single-source build by an order-sensitive digest and the diagnostic message list.",
        "level_note": "Metamorphic: both sides go through apollo's parser and builder; the relation between them is the property. The digest is the harness's own walk of the public Schema API.",
        "design_ref": "DESIGN.md section 6, C13",
    },
    "C16": {
        "budget": {"quick": 25, "thorough": 240},
        "rule": "valid schemas from the model generator, the corpus (type-system part) and fixed bases; (a) re-validate unchanged: must succeed with equal schema, equal ordered digest and equal type-name set; "
                "(b) random histories of 2-12 steps {add field / argument / input field / directive definition of built-in scalar type T, remove last added, validate} plus, for every base x every built-in scalar x every edit kind, "
                "the exact history validate, add, validate, remove, validate, add, validate; after every validate the built-in scalars present in `types` must equal the referenced ones recomputed by the harness's own walk (shadow model) and validation must succeed; "
                "(c) Valid<ExecutableDocument>::into_inner().validate(schema) succeeds and leaves the document unchanged. distinct_nontrivial = distinct (schema, history) pairs with >= 2 validate steps",
        "assumptions": COMMON_ASSUMPTIONS + [
            "edits are validity-preserving by construction (fresh names, nullable built-in scalar types)",
            "`referenced` = inner named type of any field, argument, input field or directive-definition argument, built-in definitions included (so String and Boolean are always referenced)",
        ],
        "floors": {"any": {"step": ["add_field", "add_argument", "add_input_field", "add_directive_definition", "remove_last_added", "validate", "exec_revalidate"],
                           "source": ["model", "corpus"]}},
        "technique": "runtime monitoring: history monitor with a shadow model (set of referenced built-in scalars) over validate/unwrap/edit/validate sequences",
        "level_text": "Exploration: 10^5 validate/edit histories over generated and corpus schemas are checked after every validate against a shadow model recomputed independently.",
        "level_note": "The shadow model is the harness's own walk of the public Schema API; edits go through Node::make_mut on the unwrapped schema as a user would.",
        "design_ref": "DESIGN.md section 6, C16",
    },
    "C19": {
        "budget": {"quick": 35, "thorough": 480},
        "rule": "valid (schema, executable) pairs from the model generators (plain and trivia printing), corpus and apollo-smith mixed documents; each valid executable document is serialized with 17 configurations "
                "(default, no_indent, 5 whitespace prefixes x 3 initial levels), re-parsed and re-validated against the same schema and compared with PartialEq, second serialization byte-identical; "
                "field sets generated against object/interface types (with and without outer braces) likewise; mixed texts: parse_mixed_validate, serialize both, concatenate, parse_mixed_validate, equal schema and document. "
                "distinct_nontrivial = distinct valid documents / field sets / mixed texts round-tripped",
        "assumptions": COMMON_ASSUMPTIONS + [
            "validity (the property's precondition) is judged by apollo itself; invalid pairs are skipped and counted",
            "documents without any definition are excluded: an empty ExecutableDocument serializes to the empty string, which is not a GraphQL Document",
        ],
        "floors": {"any": {"kind": ["doc", "field_set", "mixed"], "source": ["model", "corpus_mixed", "smith_mixed"]}},
        "technique": "runtime monitoring: metamorphic round-trip monitor over generated valid pairs x serialization configurations",
        "level_text": "Exploration: 10^4-10^5 valid documents, field sets and mixed texts x 17 serialization configurations are round-tripped and compared.",
        "level_note": "Metamorphic: trusts ExecutableDocument/FieldSet PartialEq (which ignores locations) as the notion of `equal document`.",
        "design_ref": "DESIGN.md section 6, C19",
    },
    "C21": {
        "budget": {"quick": 55, "thorough": 720},
        "quiet_stderr": True,
        "rule": "texts: chains of five kinds (nested/flat fragment chains, directive-definition chains, input-object chains, nested selections) at 1/4, 1/2, limit-1, limit, limit+1, 2x, 3x each documented limit and random lengths, "
                "17 hand-written cycles and edge files, every corpus file, token mutants of corpus and model documents, apollo-smith documents (also mutated), hostile text soup; each text runs the whole pipeline on a 2 MiB stack: "
                "Document::parse, AST serialization, to_schema, to_schema_validate, to_executable(_validate), to_mixed_validate, validate_standalone_executable, check_max_depth, full introspection query through partial_execute, "
                "and every diagnostic of every list is rendered (Display, Debug/colour path, to_report, to_json, unstable compat JSON, line_column_range) and the list order is checked. "
                "distinct_nontrivial = distinct texts that produced at least one diagnostic",
        "assumptions": COMMON_ASSUMPTIONS + [
            "limit probes keep a factor-2 margin on both sides of each documented limit so that off-by-one choices are not judged",
            "documents are capped at 64 KiB and chains at 600 links (validation cost is legitimately quadratic in chain length)",
        ],
        "floors": {"any": {"source": ["limit_chain", "cycle_or_edge", "corpus", "corpus_mutant", "model_mutant", "smith"],
                           "stage_with_diagnostics_or_output": ["parse", "to_schema_validate", "to_executable_validate", "to_mixed_validate", "standalone", "introspection"]}},
        "crash_class": "compiler",
        "technique": "runtime monitoring: panic/abort monitor over the whole build-validate-serialize-introspect-render pipeline on adversarial generated inputs, plus sortedness and limit-enforcement assertions",
        "level_text": "Exploration: 10^4-10^5 adversarial texts run the complete pipeline on a 2 MiB stack in child processes; every diagnostic produced is rendered in every format.",
        "level_note": "Trusts catch_unwind + process-death attribution; wall-clock is never a verdict; ariadne's stderr complaints about missing sources are not panics and are ignored.",
        "design_ref": "DESIGN.md section 6, C21",
    },
    "C22": {
        "budget": {"quick": 120, "thorough": 900},
        "plugin": "procdiff",
        "rule": "a seed-derived list of 400 (quick) / 5000 (thorough) inputs — hand-written diagnostics-rich documents with every problem at >= 3 (here 6) distinct names, corpus diagnostics/ok files, "
                "valid and token-mutated model documents, apollo-smith byte strings — is processed by EVERY worker process (16 independent processes, each with its own random hash seeds); per input 9 outputs are digested "
                "(schema serialization, schema diagnostics with positions, executable serialization and diagnostics, mixed and standalone diagnostics, introspection JSON, multi-file build diagnostics, smith document) "
                "and the per-process logs are compared offline; each worker also computes everything twice. distinct_nontrivial = distinct inputs with >= 2 non-empty outputs (counted once although every process handles them)",
        "assumptions": COMMON_ASSUMPTIONS + [
            "an order dependence over a 2-element collection survives K processes with probability 2^-(K-1) per site; inputs therefore carry >= 3 elements per order-dependent collection and K = 16",
            "the budget is a cap, not the work size: every process completes the same list",
        ],
        "floors": {"any": {"output_kind_observed": ["schema_serialization", "schema_diagnostics", "executable_serialization", "executable_diagnostics", "mixed_diagnostics",
                                                     "standalone_diagnostics", "introspection_json", "multi_file_diagnostics", "smith_document"],
                           "source": ["rich", "corpus_diagnostics", "model_valid", "model_mutant", "smith_bytes"]}},
        "technique": "runtime monitoring: offline checker over per-process output-digest logs from 16 independently hash-seeded processes",
        "level_text": "Exploration: the same 400-5000 inputs are compiled, validated, serialized and introspected in 16 independent processes and all outputs compared byte-wise through digests.",
        "level_note": "Compares digests (64-bit FNV) rather than full outputs; a collision could hide a difference with probability ~2^-64 per comparison.",
        "design_ref": "DESIGN.md section 6, C22",
    },
}

# Properties not claimed, with the reason (kept current; see DESIGN.md section 10).
NOT_APPLICABLE = {}
