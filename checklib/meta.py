"""Per-property metadata used by ./check (budgets, coverage floors, evidence wording) and by
tools/gen_manifest.py (MANIFEST.json is generated from this table so the two cannot drift)."""

COMMON_ASSUMPTIONS = [
    "explored, not proved: the verdict covers exactly the executions counted in coverage",
    "worker built from /repo's current working tree with opt-level=2, debug-assertions and overflow-checks on, feature verif-hooks",
]

META = {
    "C01": {
        "budget": {"quick": 45, "thorough": 600},
        "rule": "inputs: regression witnesses, 28 nesting/chain families x depths around every limit constant x limit settings, "
                "char-boundary prefixes of every corpus file, then random char/lexeme soup, token mutants, splices, wrapped and infix corpus texts "
                "with random token/recursion limits; every case goes through lexer (lex + externally driven iterator with a len+2 progress bound), "
                "the three apollo-parser entry points and the compiler's parse entry points under catch_unwind (2 MiB stack when longer than 256 bytes). "
                "distinct_nontrivial = distinct (text, token limit, recursion limit) triples executed",
        "assumptions": COMMON_ASSUMPTIONS + [
            "stack safety is claimed for recursion limits up to the default (500) on a 2 MiB stack; larger user-set limits are combined only with inputs of at most 500 opening brackets",
            "non-termination is observed through the parser's compiled-in progress assertions, the step-bounded lexer driver and the run watchdog (whose firing is inconclusive, never a violation)",
        ],
        "floors": {"any": {"source": ["nested", "corpus_prefix_sweep", "char_soup", "lexeme_soup", "corpus_mutant"]}},
        "crash_class": "parse",
        "technique": "runtime monitoring: panic/abort/progress monitors over generated hostile inputs x limit configurations, child-process crash attribution",
        "level_text": "Exploration: every parse entry point is executed on 10^5-10^7 hostile inputs x limit settings with panic, abort and progress monitors; a universally quantified no-panic claim can only be sampled, and the sample is aimed at the limit constants and error-recovery paths.",
        "level_note": "Trusts catch_unwind + process-death attribution to see every panic/overflow; hangs are seen via debug assertions compiled into the parser and a step-bounded lexer driver; wall-clock is never a verdict.",
        "design_ref": "DESIGN.md section 6, C01",
    },
    "C02": {
        "budget": {"quick": 35, "thorough": 480},
        "rule": "inputs: one lexical/syntactic error injected or substituted at every token position of valid corpus documents, all corpus files (also with recursion limits 0,1,2,5), "
                "then random hostile inputs; oracle walks descendants_with_tokens(): contiguous token ranges from 0 to len, token text == input slice, node range == span of children, char boundaries. "
                "distinct_nontrivial = distinct inputs that had at least one parse error AND at least one ERROR token in the tree",
        "assumptions": COMMON_ASSUMPTIONS + [
            "no token limit is set (as the property states); with a recursion-limit error only the prefix property is required",
        ],
        "floors": {"any": {"source": ["inject_at_position", "replace_at_position", "corpus", "corpus_mutant"]}},
        "technique": "runtime monitoring: structural invariant walk of the CST against the input on generated and error-injected inputs",
        "level_text": "Exploration: the lossless-tree invariant is asserted on every tree produced for 10^5-10^6 inputs with errors injected at every grammar position reached by the corpus.",
        "level_note": "Trusts rowan's text_range/descendants_with_tokens as the observation of the tree; inputs that make the parser panic are C01's business and are skipped here (counted).",
        "design_ref": "DESIGN.md section 6, C02",
    },
    "C12": {
        "budget": {"quick": 35, "thorough": 480},
        "rule": "schema texts: hand-written specials (implicit/explicit schema, schema extensions, renamed roots, redefined built-in directives, built-in scalar extensions), "
                "EXHAUSTIVE placements of one definition plus every subset of up to three extensions of the same type in every order for all six type kinds, the type-system part of every corpus file, "
                "apollo-smith schemas, and model-generated schemas (plain and with random trivia); for each schema built without errors: serialize (default and no_indent), re-parse, "
                "compare ordered digest (types, fields, arguments, enum values, members, interfaces, directive applications, root operations in order), PartialEq, second serialization byte-identical, validity preserved. "
                "distinct_nontrivial = distinct texts that built without errors and have >= 8 digest lines",
        "assumptions": COMMON_ASSUMPTIONS + [
            "schemas that do not build cleanly are outside the property and are skipped (counted)",
            "the ordered digest is computed by the harness through apollo's public Schema API; built-in types and unredefined built-in directives are not part of it",
        ],
        "floors": {"any": {"source": ["special", "extension_interleaving", "corpus", "model_plain", "model_trivia", "smith"],
                           "interleaving_kind": ["type", "interface", "enum", "input", "union", "scalar"]}},
        "exhaustive_subspaces": {"quick": ["all orders of {definition} + every subset of 3 (2 for scalar) extensions of one type, for the six type kinds (256 placements)"],
                                 "thorough": ["all orders of {definition} + every subset of 3 (2 for scalar) extensions of one type, for the six type kinds (256 placements)"]},
        "technique": "runtime monitoring: metamorphic round-trip monitor with an ordered-digest oracle over generated, corpus and exhaustively interleaved schemas",
        "level_text": "Exploration: every schema that builds cleanly among 10^5-10^6 generated/corpus/smith inputs plus an exhaustive small space of definition/extension placements is serialized, re-parsed and compared by an order-sensitive digest.",
        "level_note": "Metamorphic: trusts apollo's parser to read back what the serializer wrote (C08/C05 cover that separately); the digest is the harness's own walk of the public Schema API.",
        "design_ref": "DESIGN.md section 6, C12",
    },
    "C13": {
        "budget": {"quick": 35, "thorough": 480},
        "rule": "model-generated type-system documents (with extensions), 2/3 of them with one deliberate collision (duplicate type/directive, kind-mismatched or orphan extension, duplicate component in an extension, "
                "extra schema definition, duplicate root operation, built-in redefinition, executable definition in a schema source), printed one definition at a time; claim 1: every cut into <= 3 consecutive sources "
                "(exhaustive for <= 6 definitions, random beyond) fed to Schema::builder (with and without adopt_orphan_extensions) vs the concatenation: same ok/err, same ordered digest, same ordered diagnostic messages; "
                "claim 2: every extension sitting after its definition is moved before it: same ok/err, PartialEq, digest (ordered when it is the only extension of its target), same multiset of messages; "
                "claim 1 also for executable documents through ExecutableDocument::builder with and without schema (duplicate definitions, several anonymous operations, type-system definitions mixed in). "
                "distinct_nontrivial = distinct multi-source splits that contain an extension or produce a diagnostic, plus distinct moves",
        "assumptions": COMMON_ASSUMPTIONS + [
            "each source is a sequence of complete definitions (as the property's quantifier states)",
            "for the move claim, when the target has several extensions only the order-insensitive digest is compared (the property says the built schema does not change; Schema equality ignores map order)",
        ],
        "floors": {"any": {"collision": ["duplicate-type", "kind-mismatched-extension", "orphan-type-extension", "duplicate-component-in-extension", "extra-schema-definition", "none"],
                           "move_kind": ["type-extension", "kind-mismatched-type-extension", "schema-extension"],
                           "exec_split_mode": ["with-schema", "without-schema"],
                           "split_outcome": ["builds", "build-errors"]}},
        "technique": "runtime monitoring: metamorphic monitor comparing multi-source builder histories with the concatenated build (ordered digest + diagnostic messages) on generated documents with injected collisions",
        "level_text": "Exploration: 10^5-10^6 builder histories (all cuts of small documents, all extension moves) are compared with the single-source build by an order-sensitive digest and the diagnostic message list.",
        "level_note": "Metamorphic: both sides go through apollo's parser and builder; the relation between them is the property. The digest is the harness's own walk of the public Schema API.",
        "design_ref": "DESIGN.md section 6, C13",
    },
    "C16": {
        "budget": {"quick": 25, "thorough": 240},
        "rule": "valid schemas from the model generator, the corpus (type-system part) and fixed bases; (a) re-validate unchanged: must succeed with equal schema, equal ordered digest and equal type-name set; "
                "(b) random histories of 2-12 steps {add field / argument / input field / directive definition of built-in scalar type T, remove last added, validate} plus, for every base x every built-in scalar x every edit kind, "
                "the exact history validate, add, validate, remove, validate, add, validate; after every validate the built-in scalars present in `types` must equal the referenced ones recomputed by the harness's own walk (shadow model) and validation must succeed; "
                "(c) Valid<ExecutableDocument>::into_inner().validate(schema) succeeds and leaves the document unchanged. distinct_nontrivial = distinct (schema, history) pairs with >= 2 validate steps",
        "assumptions": COMMON_ASSUMPTIONS + [
            "edits are validity-preserving by construction (fresh names, nullable built-in scalar types)",
            "`referenced` = inner named type of any field, argument, input field or directive-definition argument, built-in definitions included (so String and Boolean are always referenced)",
        ],
        "floors": {"any": {"step": ["add_field", "add_argument", "add_input_field", "add_directive_definition", "remove_last_added", "validate", "exec_revalidate"],
                           "source": ["model", "corpus"]}},
        "technique": "runtime monitoring: history monitor with a shadow model (set of referenced built-in scalars) over validate/unwrap/edit/validate sequences",
        "level_text": "Exploration: 10^5 validate/edit histories over generated and corpus schemas are checked after every validate against a shadow model recomputed independently.",
        "level_note": "The shadow model is the harness's own walk of the public Schema API; edits go through Node::make_mut on the unwrapped schema as a user would.",
        "design_ref": "DESIGN.md section 6, C16",
    },
    "C19": {
        "budget": {"quick": 35, "thorough": 480},
        "rule": "valid (schema, executable) pairs from the model generators (plain and trivia printing), corpus and apollo-smith mixed documents; each valid executable document is serialized with 17 configurations "
                "(default, no_indent, 5 whitespace prefixes x 3 initial levels), re-parsed and re-validated against the same schema and compared with PartialEq, second serialization byte-identical; "
                "field sets generated against object/interface types (with and without outer braces) likewise; mixed texts: parse_mixed_validate, serialize both, concatenate, parse_mixed_validate, equal schema and document. "
                "distinct_nontrivial = distinct valid documents / field sets / mixed texts round-tripped",
        "assumptions": COMMON_ASSUMPTIONS + [
            "validity (the property's precondition) is judged by apollo itself; invalid pairs are skipped and counted",
            "documents without any definition are excluded: an empty ExecutableDocument serializes to the empty string, which is not a GraphQL Document",
        ],
        "floors": {"any": {"kind": ["doc", "field_set", "mixed"], "source": ["model", "corpus_mixed", "smith_mixed"]}},
        "technique": "runtime monitoring: metamorphic round-trip monitor over generated valid pairs x serialization configurations",
        "level_text": "Exploration: 10^4-10^5 valid documents, field sets and mixed texts x 17 serialization configurations are round-tripped and compared.",
        "level_note": "Metamorphic: trusts ExecutableDocument/FieldSet PartialEq (which ignores locations) as the notion of `equal document`.",
        "design_ref": "DESIGN.md section 6, C19",
    },
    "C21": {
        "budget": {"quick": 55, "thorough": 720},
        "quiet_stderr": True,
        "rule": "texts: chains of five kinds (nested/flat fragment chains, directive-definition chains, input-object chains, nested selections) at 1/4, 1/2, limit-1, limit, limit+1, 2x, 3x each documented limit and random lengths, "
                "17 hand-written cycles and edge files, every corpus file, token mutants of corpus and model documents, apollo-smith documents (also mutated), hostile text soup; each text runs the whole pipeline on a 2 MiB stack: "
                "Document::parse, AST serialization, to_schema, to_schema_validate, to_executable(_validate), to_mixed_validate, validate_standalone_executable, check_max_depth, full introspection query through partial_execute, "
                "and every diagnostic of every list is rendered (Display, Debug/colour path, to_report, to_json, unstable compat JSON, line_column_range) and the list order is checked. "
                "distinct_nontrivial = distinct texts that produced at least one diagnostic",
        "assumptions": COMMON_ASSUMPTIONS + [
            "limit probes keep a factor-2 margin on both sides of each documented limit so that off-by-one choices are not judged",
            "documents are capped at 64 KiB and chains at 600 links (validation cost is legitimately quadratic in chain length)",
        ],
        "floors": {"any": {"source": ["limit_chain", "cycle_or_edge", "corpus", "corpus_mutant", "model_mutant", "smith"],
                           "stage_with_diagnostics_or_output": ["parse", "to_schema_validate", "to_executable_validate", "to_mixed_validate", "standalone", "introspection"]}},
        "crash_class": "compiler",
        "technique": "runtime monitoring: panic/abort monitor over the whole build-validate-serialize-introspect-render pipeline on adversarial generated inputs, plus sortedness and limit-enforcement assertions",
        "level_text": "Exploration: 10^4-10^5 adversarial texts run the complete pipeline on a 2 MiB stack in child processes; every diagnostic produced is rendered in every format.",
        "level_note": "Trusts catch_unwind + process-death attribution; wall-clock is never a verdict; ariadne's stderr complaints about missing sources are not panics and are ignored.",
        "design_ref": "DESIGN.md section 6, C21",
    },
    "C22": {
        "budget": {"quick": 120, "thorough": 900},
        "plugin": "procdiff",
        "rule": "a seed-derived list of 400 (quick) / 5000 (thorough) inputs — hand-written diagnostics-rich documents with every problem at >= 3 (here 6) distinct names, corpus diagnostics/ok files, "
                "valid and token-mutated model documents, apollo-smith byte strings — is processed by EVERY worker process (16 independent processes, each with its own random hash seeds); per input 9 outputs are digested "
                "(schema serialization, schema diagnostics with positions, executable serialization and diagnostics, mixed and standalone diagnostics, introspection JSON, multi-file build diagnostics, smith document) "
                "and the per-process logs are compared offline; each worker also computes everything twice. distinct_nontrivial = distinct inputs with >= 2 non-empty outputs (counted once although every process handles them)",
        "assumptions": COMMON_ASSUMPTIONS + [
            "an order dependence over a 2-element collection survives K processes with probability 2^-(K-1) per site; inputs therefore carry >= 3 elements per order-dependent collection and K = 16",
            "the budget is a cap, not the work size: every process completes the same list",
        ],
        "floors": {"any": {"output_kind_observed": ["schema_serialization", "schema_diagnostics", "executable_serialization", "executable_diagnostics", "mixed_diagnostics",
                                                     "standalone_diagnostics", "introspection_json", "multi_file_diagnostics", "smith_document"],
                           "source": ["rich", "corpus_diagnostics", "model_valid", "model_mutant", "smith_bytes"]}},
        "technique": "runtime monitoring: offline checker over per-process output-digest logs from 16 independently hash-seeded processes",
        "level_text": "Exploration: the same 400-5000 inputs are compiled, validated, serialized and introspected in 16 independent processes and all outputs compared byte-wise through digests.",
        "level_note": "Compares digests (64-bit FNV) rather than full outputs; a collision could hide a difference with probability ~2^-64 per comparison.",
        "design_ref": "DESIGN.md section 6, C22",
    },
    "C32": {
        "budget": {"quick": 50, "thorough": 720},
        "rule": "byte strings of length 0-16 KiB (random, constant, ramps, sparse, mutants of inputs that produced a new definition kind) with 1-6 definitions per kind: DocumentBuilder::build must not panic, "
                "an Ok document must have no syntax errors and pass to_mixed_validate, and two builds from the same bytes must be identical (cross-process determinism is C22's); "
                "operations from with_document(parsed schema).operation_definition() for schemas from the model generator (explicit schema definition), the corpus and apollo-smith itself must validate against that schema and generation must not panic. "
                "Any arbitrary::Error counts as the allowed `input exhausted` outcome. distinct_nontrivial = distinct generated documents plus distinct (schema, operation) pairs",
        "assumptions": COMMON_ASSUMPTIONS + [
            "documents or operations nested deeper than apollo's default parser recursion limit cannot be judged by apollo and are counted, not judged",
            "validity is judged by apollo-compiler (C14/C17 check that validator against reference models)",
        ],
        "floors": {"any": {"outcome": ["document"], "operation_outcome": ["operation"],
                           "operation_schema_source": ["model", "corpus", "smith"],
                           "definition_kind_generated": ["type", "interface", "union", "enum", "input", "scalar", "directive", "query"]}},
        "crash_class": "smith",
        "technique": "runtime monitoring: validity and determinism monitor over apollo-smith outputs for generated byte strings, with child-process crash attribution",
        "level_text": "Exploration: 10^4-10^5 byte strings and (schema, bytes) pairs are fed to apollo-smith; every output is parsed and validated and generation is repeated to check determinism.",
        "level_note": "Trusts apollo-compiler's validation as the judge of validity; stack overflows are attributed through the in-flight case file and confirmed in a fresh process.",
        "design_ref": "DESIGN.md section 6, C32",
    },
    "C24": {
        "budget": {"quick": 45, "thorough": 700},
        "rule": "inputs: (A) model path - schemas from the harness generator (all six kinds, descriptions, @deprecated on fields/args/input fields/enum values, "
                "default values of every allowed kind, interfaces implementing interfaces, unions, custom scalars with @specifiedBy, repeatable directives, "
                "type and schema extensions before/after the definition, renamed roots, schema description), printed plainly (3/4) or with random trivia and block strings (1/4); "
                "(B) parsed path - two fixed schemas, every corpus file whose type-system part apollo-rs validates, apollo-smith documents, converted from apollo's AST. "
                "For each schema apollo-rs validates: the graphql-js v16 full introspection query (descriptions, specifiedByURL, isRepeatable, schema description, input-value deprecation) "
                "is run through introspection::partial_execute; errors must be empty and data, after sorting types/directives by name and the fields of __* types by name, "
                "must equal RefIntrospection(model); then the same query with one concrete root field (required arguments supplied, with or without alias, before or after __schema) "
                "must give the same data with no key for that field and no error. "
                "distinct_nontrivial = distinct SDL texts that apollo-rs validated, that lie inside the envelope, and whose whole response was compared with the reference",
        "assumptions": COMMON_ASSUMPTIONS + [
            "the oracle is a reference model written in the harness from the October 2021 specification and graphql-js v16 semantics (buildASTSchema + introspectionFromSchema); it is not graphql-js or graphql-core, which are not available offline",
            "default values are restricted to the class where graphql-js's coerce-and-reprint is unambiguous: 32-bit Int, Float with a non-zero fraction in plain decimal form, printable-ASCII strings without quote or backslash, "
            "booleans, enum values, null, list literals of those, input-object literals with fields in definition order that omit no field having a default, ID strings that do not look like integers; "
            "schemas with other defaults are skipped and counted (generated ones are inside by construction)",
            "descriptions of the built-in __* types (their fields, arguments, enum values), of Int/Float/String/Boolean/ID and of @skip/@include/@deprecated/@specifiedBy and their arguments are not compared (reference wording not available offline); their structure is",
            "don't-care bands that are not generated and are skipped on the parsed path: @deprecated(reason: null) (graphql-js v16: not deprecated; specification text: deprecated), @specifiedBy on a scalar extension "
            "(graphql-js v16 reads it from the definition only), redefinition of built-in scalars/directives, schema extension without schema definition",
            "response key order inside an object is not compared (execution order is C26's subject); every list except types, directives and fields of __* types is compared in order, including interfaces and possibleTypes",
        ],
        "floors": {"any": {
            "kind": ["SCALAR", "OBJECT", "INTERFACE", "UNION", "ENUM", "INPUT_OBJECT", "LIST", "NON_NULL"],
            "feature": ["deprecated_field", "deprecated_arg", "deprecated_enum_value", "deprecated_input_field", "deprecated_default_reason",
                        "specifiedBy", "repeatable_directive", "non_repeatable_directive", "interface_implements_interface", "union",
                        "interface_with_several_possible_types", "non_null_list_of_non_null", "type_extension", "extension_before_definition", "extension_adds_interface",
                        "schema_extension", "renamed_roots", "schema_description", "description_type", "description_field", "description_arg",
                        "description_enum_value", "description_input_field", "description_directive", "unreferenced_builtin_scalar_omitted"],
            "default_kind": ["int", "float", "string", "boolean", "enum", "null", "list", "object"],
            "path": ["model", "parsed"],
            "source": ["model_plain", "model_trivia", "fixed", "corpus", "smith"],
        }},
        "technique": "runtime monitoring: differential comparison of partial_execute's response with an independent reference model of graphql-js v16 introspection over generated, corpus and apollo-smith schemas",
        "level_text": "Exploration: the full introspection response of 10^4-10^6 valid schemas covering every feature in the property's quantifier is compared field by field with an independent reference model; the skip-concrete-fields clause is checked on the same schemas.",
        "level_note": "The oracle is a reference model written in the harness from the specification (section 4) and graphql-js v16 semantics, NOT graphql-js/graphql-core themselves (not available offline). "
                      "Envelope of certainty: default values only from the class graphql-js reprints unambiguously (32-bit Int, Float with non-zero fraction, simple ASCII strings, booleans, enum values, null, lists of those, "
                      "input objects in definition order with no defaulted field omitted, non-integer-looking ID strings); everything else is skipped and counted. "
                      "Descriptions of built-in __* types, built-in scalars and built-in directives (and their arguments) are not compared, only their structure. "
                      "@deprecated(reason: null) and @specifiedBy on a scalar extension are don't-care bands (graphql-js v16 and the specification text differ) and are not generated. "
                      "interfaces and possibleTypes are compared in order (both sides: definition order), nothing is compared as a set. On the parsed path (corpus, smith, replays) the model is converted from apollo's own AST.",
        "design_ref": "DESIGN.md section 6, C24",
    },
}

# Properties not claimed, with the reason (kept current; see DESIGN.md section 10).
NOT_APPLICABLE = {}
