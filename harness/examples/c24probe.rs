//! Calibration probe for RefIntrospection against the response pinned in
//! /repo/crates/apollo-compiler/test_data/introspection (used only to find ORACLE bugs).
use serde_json::Value;
use vharness::gen::from_ast::doc_from_ast;
use vharness::refmodel::introspection::{diff, normalise, schema_in_envelope, RefIntrospection};

const TEST_SCHEMA: &str = r#"
        "The schema"
        schema {
            query: TheQuery
        }

        """
        Root query type
        """
        type TheQuery implements I {
            id: ID!
            ints: [[Int!]]! @deprecated(reason: "…")
            url(arg: In = { b: 4, a: 2 }): Url
            union: U @deprecated(reason: null)
        }

        interface I {
            id: ID!
        }

        input In {
            a: Int! @deprecated(reason: null)
            b: Int @deprecated
        }

        scalar Url @specifiedBy(url: "https://url.spec.whatwg.org/")

        union U = TheQuery | T

        type T {
            enum: E @deprecated
        }

        enum E { 
            NEW
            OLD @deprecated
        }
"#;

fn strip(v: &mut Value) {
    // the pinned query does not select these
    match v {
        Value::Object(m) => {
            m.shift_remove("specifiedByURL");
            m.shift_remove("isRepeatable");
            for (_, x) in m.iter_mut() {
                strip(x);
            }
        }
        Value::Array(a) => a.iter_mut().for_each(strip),
        _ => {}
    }
}

fn main() {
    let ast = apollo_compiler::ast::Document::parse(TEST_SCHEMA, "t.graphql").unwrap();
    let doc = doc_from_ast(&ast).unwrap();
    println!("envelope: {:?}", schema_in_envelope(&doc));
    let mut expected = RefIntrospection::new(&doc).data();
    strip(&mut expected);
    if let Some(Value::Object(m)) = expected.get_mut("__schema") {
        m.shift_remove("description");
    }
    normalise(&mut expected);
    let pinned = std::fs::read_to_string("/repo/crates/apollo-compiler/test_data/introspection/response_full.json").unwrap();
    let pinned: Value = serde_json::from_str(&pinned).unwrap();
    let mut data = pinned.get("data").unwrap().clone();
    normalise(&mut data);
    let mut out = Vec::new();
    diff(&expected, &data, "data", "data", &mut out, 100);
    println!("{} differences between RefIntrospection and the pinned response", out.len());
    for d in out {
        println!("  {} | {} | {}", d.path, d.kind, d.detail);
    }
}
