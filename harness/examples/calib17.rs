//! Hand calibration of RefExecRules against apollo: `calib17 FILE` where FILE holds cases
//! `schema ==== document` separated by lines `----`.
use apollo_compiler::ast;
use vharness::gen::from_ast::doc_from_ast;
use vharness::gen::model::*;
use vharness::monitors::c17::{apollo_verdict, SchemaCase};
fn main() {
    let f = std::env::args().nth(1).unwrap();
    let text = std::fs::read_to_string(f).unwrap();
    for case in text.split("\n----\n") {
        let Some((s, d)) = case.split_once("====") else { continue };
        let sm = doc_from_ast(&ast::Document::parse(s, "s").expect("schema syntax")).unwrap().type_system();
        let Some(sc) = SchemaCase::new(&sm) else { println!("SCHEMA REJECTED: {}", s.trim()); continue };
        let Ok(da) = ast::Document::parse(d, "d") else { println!("DOC SYNTAX: {}", d.trim()); continue };
        let em = doc_from_ast(&da).unwrap();
        let a = apollo_verdict(&sc.apollo, &print_plain(&em)).unwrap();
        let r = sc.rules.check(&em);
        let flag = if a.ok == r.is_empty() { "agree   " } else { "DISAGREE" };
        println!("{flag} apollo={} oracle={} {:?} {:?} band={:?}\n    {}\n    {}", a.ok, r.is_empty(), a.names, r.violated.iter().map(|v| format!("{}:{}", v.rule, v.class)).collect::<Vec<_>>(), r.dont_care, s.trim().replace('\n', " "), d.trim().replace('\n', " "));
    }
}
