use apollo_compiler::{ExecutableDocument, Schema};
use vharness::gen::exec_gen::{gen_executable, ExecOpts};
use vharness::gen::model::*;
use vharness::gen::schema_gen::{gen_schema, SchemaOpts};
use vharness::prng::Rng;
fn main() {
    let n: u64 = std::env::args().nth(1).and_then(|s| s.parse().ok()).unwrap_or(200);
    let show: bool = std::env::args().nth(2).is_some();
    let (mut bad_s, mut bad_e, mut ok_e, mut triv_diff) = (0, 0, 0, 0);
    let mut shown = 0;
    for i in 0..n {
        let mut rng = Rng::new(i);
        let doc = gen_schema(&mut rng, &SchemaOpts::default());
        let plain = print_plain(&doc);
        let triv = print_trivia(&doc, &mut rng);
        let r = Schema::parse_and_validate(&plain, "s.graphql");
        let r2 = Schema::parse_and_validate(&triv, "s.graphql");
        if r.is_ok() != r2.is_ok() { triv_diff += 1; if shown < 3 { shown+=1; println!("TRIVIA DIFF seed {i}\n{triv}\n{}", r2.err().map(|e| e.errors.to_string()).unwrap_or_default()); } }
        let schema = match r {
            Ok(s) => s,
            Err(e) => {
                bad_s += 1;
                if shown < 3 { shown += 1; println!("--- invalid schema seed {i}\n{plain}\n{}", e.errors); }
                continue;
            }
        };
        let flat = FlatSchema::from_doc(&doc);
        for k in 0..3 {
            let mut r2 = Rng::new(i * 100 + k);
            let ex = gen_executable(&mut r2, &flat, &ExecOpts::default());
            let text = print_plain(&ex);
            match ExecutableDocument::parse_and_validate(&schema, &text, "e.graphql") {
                Ok(_) => { ok_e += 1; if show && ok_e < 3 { println!("=== valid exec\n{text}"); } }
                Err(e) => {
                    bad_e += 1;
                    for d in e.errors.iter() { println!("EXECERR {}", d.error.to_string().chars().map(|c| if c.is_ascii_digit() {'#'} else {c}).collect::<String>()); }
                }
            }
        }
    }
    println!("schemas: {n}, invalid {bad_s}, trivia-diff {triv_diff}; executables ok {ok_e}, invalid {bad_e}");
}
