fn main() {
    let s = std::fs::read_to_string("/tmp/schema.graphql").unwrap();
    let o = std::fs::read_to_string("/tmp/op.graphql").unwrap();
    let schema = apollo_compiler::Schema::parse_and_validate(s, "s").unwrap();
    match apollo_compiler::ExecutableDocument::parse_and_validate(&schema, o, "o") {
        Ok(_) => println!("valid"),
        Err(e) => { for d in e.errors.iter().take(3) { println!("{} @ {:?}", d.error, d.line_column_range()); } println!("ops: anon={} named={}", e.partial.operations.anonymous.is_some(), e.partial.operations.named.len()); }
    }
}
