fn main() {
    std::panic::set_hook(Box::new(|i| eprintln!("PANIC {i}")));
    for s in [
        "type Query { a: Int }\n{ a\u{FEFF}@include(if: $v) }",
        "type Query { a: Int }\n{ b\u{FEFF} }",
        "type Query { a: Int }\n{ bé }",
        "type Query { a: Int }\n{ b \"é\" }",
        "type Query { a: Int } { a(x: 1)\u{FEFF} }",
        "type Query { a: Int } { b,é }",
    ] {
        let r = std::panic::catch_unwind(|| {
            match apollo_compiler::parser::Parser::new().parse_mixed_validate(s, "p.graphql") {
                Ok(_) => "ok".to_string(),
                Err(e) => { let t = e.to_string(); format!("{} errors, rendered {} bytes", e.len(), t.len()) }
            }
        });
        println!("{s:?} -> {r:?}");
    }
}
