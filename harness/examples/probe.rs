use vharness::monitors::util::schema_digest;
fn main() {
    let path = std::env::args().nth(1).unwrap();
    let v: serde_json::Value = serde_json::from_str(&std::fs::read_to_string(path).unwrap()).unwrap();
    let text = v["case"]["text"].as_str().unwrap();
    let (s, d) = apollo_compiler::parser::Parser::new().parse_mixed_validate(text, "m.graphql").unwrap();
    let t2 = format!("{}\n{}", s, d);
    match apollo_compiler::parser::Parser::new().parse_mixed_validate(&t2, "m2.graphql") {
        Err(e) => println!("REPARSE ERR: {}", e.iter().next().unwrap().error),
        Ok((s2, d2)) => {
            println!("schema eq {} doc eq {}", *s2 == *s, *d2 == *d);
            let (a, b) = (schema_digest(&s), schema_digest(&s2));
            for (x, y) in a.iter().zip(b.iter()) { if x != y { println!("DIGEST\n  {x}\n  {y}"); break; } }
            if a.len() != b.len() { println!("digest len {} vs {}", a.len(), b.len()); }
            let (da, db) = (d.to_string(), d2.to_string());
            println!("doc text eq {}", da == db);
            if s.types != s2.types { for (k, v) in &s.types { if s2.types.get(k) != Some(v) { println!("TYPE DIFF {k}: {:?}", s2.types.get(k).is_some()); } } }
            if s.directive_definitions != s2.directive_definitions { println!("DIRDEF DIFF"); }
            if s.schema_definition != s2.schema_definition { println!("SCHEMADEF DIFF\n{:?}\n{:?}", s.schema_definition, s2.schema_definition); }
        }
    }
}
