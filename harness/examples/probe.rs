use apollo_parser::cst::CstNode;
fn main() {
    std::panic::set_hook(Box::new(|_| {}));
    for s in ["", " ", "é", "é Int", "Int é", "!", "Int", " Int", "# c\nInt", "[é Int]", "é [Int]", ", Int", "Int!", "é Int!"] {
        let r = std::panic::catch_unwind(|| {
            let t = apollo_parser::Parser::new(s).parse_type();
            format!("{:?} errors={:?} text={:?}", t.ty().syntax().kind(), t.errors().map(|e| e.message().to_string()).collect::<Vec<_>>(), t.ty().syntax().to_string())
        });
        println!("parse_type({s:?}) -> {r:?}");
    }
    for s in ["", " ", "é", "é a", "a é", "{ a }", " { a }", "a", "# c\n a", ", a", "a b", "a }", "{ a } b", "é { a }"] {
        let r = std::panic::catch_unwind(|| {
            let t = apollo_parser::Parser::new(s).parse_selection_set();
            format!("errors={:?} text={:?}", t.errors().map(|e| e.message().to_string()).collect::<Vec<_>>(), t.field_set().syntax().to_string())
        });
        println!("parse_selection_set({s:?}) -> {r:?}");
    }
}
