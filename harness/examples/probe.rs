fn main() {
    let path = std::env::args().nth(1).unwrap();
    let v: serde_json::Value = serde_json::from_str(&std::fs::read_to_string(path).unwrap()).unwrap();
    let text = v["case"]["text"].as_str().unwrap();
    let (s, d) = apollo_compiler::parser::Parser::new().parse_mixed_validate(text, "m.graphql").unwrap();
    let t2 = format!("{}\n{}", s, d);
    for l in t2.lines() { if l.contains("En0") && (l.contains("enum") ) { println!("SER: {l}"); } }
    let (s2, _d2) = apollo_compiler::parser::Parser::new().parse_mixed_validate(&t2, "m2.graphql").unwrap();
    println!("{:?}", s.types.get("En0").map(|t| t.directives().len()));
    println!("{:?}", s2.types.get("En0").map(|t| t.directives().len()));
    let t3 = s2.to_string();
    for l in t3.lines() { if l.contains("En0") && (l.contains("enum") ) { println!("SER2: {l}"); } }
}
