//! Probe: generated schemas, mutants and neutrals through RefSchemaRules and apollo.
use apollo_compiler::Schema;
use std::collections::BTreeMap;
use vharness::gen::model::*;
use vharness::gen::schema_gen::{gen_schema, SchemaOpts};
use vharness::gen::schema_mut as sm;
use vharness::prng::Rng;
use vharness::refmodel::schema_rules as sr;

fn main() {
    let n: u64 = std::env::args().nth(1).and_then(|s| s.parse().ok()).unwrap_or(100);
    let show: usize = std::env::args().nth(2).and_then(|s| s.parse().ok()).unwrap_or(1);
    let mut inexact: BTreeMap<String, usize> = BTreeMap::new();
    let mut dis: BTreeMap<String, (usize, String)> = BTreeMap::new();
    let mut na: BTreeMap<String, usize> = BTreeMap::new();
    let (mut cases, mut dc) = (0usize, 0usize);
    let mut judge = |label: String, doc: &Doc, expect: Option<&str>, rng: &mut Rng, inexact: &mut BTreeMap<String, usize>| {
        cases += 1;
        let v = sr::check_apollo(doc);
        if v.in_dont_care_band() {
            dc += 1;
            *inexact.entry(format!("DC {label} {:?}", v.dont_care)).or_default() += 1;
            return;
        }
        let ids = v.rule_ids();
        match expect {
            Some(r) => {
                if !(ids.len() == 1 && ids.contains(r)) {
                    *inexact.entry(format!("{label} -> {:?}", ids)).or_default() += 1;
                }
            }
            None => {
                if !ids.is_empty() {
                    *inexact.entry(format!("{label} (expected valid) -> {:?}", v.findings)).or_default() += 1;
                }
            }
        }
        for text in [print_plain(doc), print_trivia(doc, rng)] {
            let a = Schema::parse_and_validate(text.clone(), "s.graphql");
            if a.is_ok() != v.is_empty() {
                let key = format!(
                    "{} | {}",
                    if a.is_ok() { "apollo-accepts/oracle-rejects" } else { "apollo-rejects/oracle-accepts" },
                    v.findings.iter().map(|f| format!("{}[{}]", f.rule, f.class)).collect::<Vec<_>>().join(",")
                );
                let msg = match &a {
                    Err(e) => e.errors.to_string().lines().filter(|l| l.starts_with("Error")).take(3).collect::<Vec<_>>().join(" | "),
                    Ok(_) => String::new(),
                };
                let e = dis.entry(key).or_insert((0, String::new()));
                e.0 += 1;
                if e.1.is_empty() || text.len() < e.1.len() {
                    e.1 = format!("[{label}] {msg}\n{text}");
                }
            }
        }
    };
    for i in 0..n {
        let mut rng = Rng::new(i);
        let doc = gen_schema(&mut rng, &SchemaOpts::default());
        judge("valid".into(), &doc, None, &mut rng, &mut inexact);
        for m in sm::MUTATORS {
            match (m.f)(&doc, &mut rng) {
                Some(d) => judge(format!("{}/{}", m.rule, m.variant), &d, Some(m.rule), &mut rng, &mut inexact),
                None => *na.entry(format!("{}/{}", m.rule, m.variant)).or_default() += 1,
            }
        }
        for nt in sm::NEUTRALS {
            match (nt.f)(&doc, &mut rng) {
                Some(d) => judge(format!("neutral/{}", nt.name), &d, None, &mut rng, &mut inexact),
                None => *na.entry(format!("neutral/{}", nt.name)).or_default() += 1,
            }
        }
    }
    println!("cases {cases}, dont-care {dc}");
    println!("--- not applicable");
    for (k, v) in &na {
        println!("{v:5} {k}");
    }
    println!("--- inexact / unexpected oracle verdicts");
    for (k, v) in &inexact {
        println!("{v:5} {k}");
    }
    println!("--- disagreements with apollo");
    for (k, (c, w)) in &dis {
        println!("{c:5} {k}");
        if show > 0 {
            println!("{w}\n");
        }
    }
}
