//! Calibration of RefSchemaRules against the repository corpora (DESIGN §5 "Calibration before trust").
use apollo_compiler::{ast, Schema};
use vharness::corpus;
use vharness::gen::from_ast::doc_from_ast;
use vharness::gen::model::*;
use vharness::refmodel::schema_rules as sr;

fn main() {
    let only: Option<String> = std::env::args().nth(1);
    let files = corpus::all();
    let (mut agree_ok, mut agree_rej, mut dis, mut skipped, mut dc) = (0, 0, 0, 0, 0);
    for f in &files {
        if let Some(o) = &only {
            if !f.name.contains(o.as_str()) {
                continue;
            }
        }
        let Ok(astdoc) = ast::Document::parse(f.text.clone(), "c.graphql") else {
            skipped += 1;
            continue;
        };
        let Some(doc) = doc_from_ast(&astdoc) else {
            skipped += 1;
            continue;
        };
        let ts = doc.type_system();
        if ts.defs.is_empty() {
            skipped += 1;
            continue;
        }
        let text = if ts.defs.len() == doc.defs.len() { f.text.clone() } else { print_plain(&ts) };
        let apollo = Schema::parse_and_validate(text.clone(), "c.graphql");
        let v = sr::check_apollo(&ts);
        if v.in_dont_care_band() {
            dc += 1;
            println!("DC {}/{} {:?} apollo_ok={} oracle={:?}", f.group, f.name, v.dont_care, apollo.is_ok(), v.rule_ids());
            continue;
        }
        match (apollo.is_ok(), v.is_empty()) {
            (true, true) => agree_ok += 1,
            (false, false) => {
                agree_rej += 1;
                if only.is_some() {
                    let s = apollo.as_ref().err().unwrap().errors.to_string();
                    println!("both reject {}/{}: {:?}\n      apollo: {}", f.group, f.name, v.findings.iter().map(|f| format!("{}[{}]", f.rule, f.class)).collect::<Vec<_>>(), s.lines().filter(|l| l.starts_with("Error")).take(6).collect::<Vec<_>>().join(" | "));
                }
            }
            (a, _) => {
                dis += 1;
                println!("DISAGREE {}/{} apollo_ok={} oracle={:?}", f.group, f.name, a, v.findings);
                if let Err(e) = &apollo {
                    let s = e.errors.to_string();
                    println!("   apollo: {}", s.lines().filter(|l| l.starts_with("Error")).take(4).collect::<Vec<_>>().join(" | "));
                }
            }
        }
    }
    println!("agree-accept {agree_ok}, agree-reject {agree_rej}, disagree {dis}, dont-care {dc}, skipped {skipped}");
}
