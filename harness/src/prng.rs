//! SplitMix64-seeded xoshiro256** PRNG. Self-contained so replays never depend on a `rand` version.

#[derive(Clone, Debug)]
pub struct Rng {
    s: [u64; 4],
}

fn splitmix(x: &mut u64) -> u64 {
    *x = x.wrapping_add(0x9E37_79B9_7F4A_7C15);
    let mut z = *x;
    z = (z ^ (z >> 30)).wrapping_mul(0xBF58_476D_1CE4_E5B9);
    z = (z ^ (z >> 27)).wrapping_mul(0x94D0_49BB_1331_11EB);
    z ^ (z >> 31)
}

pub fn fnv64(bytes: &[u8]) -> u64 {
    let mut h: u64 = 0xcbf2_9ce4_8422_2325;
    for b in bytes {
        h ^= *b as u64;
        h = h.wrapping_mul(0x0000_0100_0000_01B3);
    }
    h
}

pub fn fnv_str(s: &str) -> u64 {
    fnv64(s.as_bytes())
}

impl Rng {
    pub fn new(seed: u64) -> Self {
        let mut x = seed;
        let s = [
            splitmix(&mut x),
            splitmix(&mut x),
            splitmix(&mut x),
            splitmix(&mut x),
        ];
        Rng { s }
    }

    /// Derive an independent stream from a seed and labels.
    pub fn derive(seed: u64, label: &str, a: u64, b: u64) -> Self {
        let mut x = seed ^ fnv_str(label).rotate_left(17) ^ a.wrapping_mul(0x9E37_79B9_7F4A_7C15)
            ^ b.wrapping_mul(0xC2B2_AE3D_27D4_EB4F);
        let _ = splitmix(&mut x);
        Rng::new(x)
    }

    pub fn next_u64(&mut self) -> u64 {
        let result = self.s[1].wrapping_mul(5).rotate_left(7).wrapping_mul(9);
        let t = self.s[1] << 17;
        self.s[2] ^= self.s[0];
        self.s[3] ^= self.s[1];
        self.s[1] ^= self.s[2];
        self.s[0] ^= self.s[3];
        self.s[2] ^= t;
        self.s[3] = self.s[3].rotate_left(45);
        result
    }

    pub fn next_u32(&mut self) -> u32 {
        (self.next_u64() >> 32) as u32
    }

    /// Uniform in 0..n (n > 0).
    pub fn below(&mut self, n: usize) -> usize {
        debug_assert!(n > 0);
        ((self.next_u64() >> 11) % (n as u64)) as usize
    }

    /// Uniform in lo..=hi.
    pub fn range(&mut self, lo: usize, hi: usize) -> usize {
        lo + self.below(hi - lo + 1)
    }

    /// True with probability num/den.
    pub fn chance(&mut self, num: usize, den: usize) -> bool {
        self.below(den) < num
    }

    pub fn bool(&mut self) -> bool {
        self.next_u64() & 1 == 1
    }

    pub fn pick<'a, T>(&mut self, xs: &'a [T]) -> &'a T {
        &xs[self.below(xs.len())]
    }

    pub fn pick_str<'a>(&mut self, xs: &[&'a str]) -> &'a str {
        xs[self.below(xs.len())]
    }

    pub fn shuffle<T>(&mut self, xs: &mut [T]) {
        for i in (1..xs.len()).rev() {
            let j = self.below(i + 1);
            xs.swap(i, j);
        }
    }

    pub fn f64_unit(&mut self) -> f64 {
        (self.next_u64() >> 11) as f64 / (1u64 << 53) as f64
    }

    pub fn bytes(&mut self, n: usize) -> Vec<u8> {
        let mut v = Vec::with_capacity(n);
        while v.len() < n {
            let x = self.next_u64().to_le_bytes();
            for b in x {
                if v.len() < n {
                    v.push(b);
                }
            }
        }
        v
    }
}
