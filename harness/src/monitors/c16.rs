//! C16 — Validation is idempotent.
//!
//! (a) `valid.into_inner().validate()` succeeds and leaves the schema identical (equality, ordered
//! digest, set of type names incl. which built-in scalars are present); (b) histories
//! validate → unwrap → add/remove a field, argument, input field or directive definition that
//! references a built-in scalar → validate …: after every validate the built-in scalars present in
//! `types` are exactly the referenced ones (recomputed by the harness's own walk = shadow model),
//! and validation succeeds; (c) re-validating a valid executable document succeeds.

use crate::gen::exec_gen::{gen_executable, ExecOpts};
use crate::gen::inputs::TextSource;
use crate::gen::model::{print_plain, FlatSchema};
use crate::gen::schema_gen::gen_schema;
use crate::monitors::c12::random_opts;
use crate::monitors::util::{self, first_diff, schema_digest};
use crate::prng::Rng;
use crate::rt::{self, clip, Ctx};
use apollo_compiler::ast::{DirectiveDefinition, DirectiveLocation, FieldDefinition, InputValueDefinition, Type};
use apollo_compiler::schema::{Component, ExtendedType};
use apollo_compiler::{ExecutableDocument, Name, Node, Schema};
use serde_json::{json, Value};
use std::collections::BTreeSet;

const BUILTINS: &[&str] = &["Int", "Float", "String", "Boolean", "ID"];

/// Shadow model: built-in scalars referenced by any field, argument, input field or directive
/// definition argument of the schema (built-in definitions included), by the harness's own walk.
fn referenced_builtins(s: &Schema) -> BTreeSet<String> {
    let mut out = BTreeSet::new();
    let mut note = |t: &Type| {
        let n = t.inner_named_type().as_str();
        if BUILTINS.contains(&n) {
            out.insert(n.to_string());
        }
    };
    for d in s.directive_definitions.values() {
        for a in &d.arguments {
            note(&a.ty);
        }
    }
    for t in s.types.values() {
        match t {
            ExtendedType::Object(o) => {
                for f in o.fields.values() {
                    note(&f.ty);
                    for a in &f.arguments {
                        note(&a.ty);
                    }
                }
            }
            ExtendedType::Interface(o) => {
                for f in o.fields.values() {
                    note(&f.ty);
                    for a in &f.arguments {
                        note(&a.ty);
                    }
                }
            }
            ExtendedType::InputObject(o) => {
                for f in o.fields.values() {
                    note(&f.ty);
                }
            }
            _ => {}
        }
    }
    out
}

fn present_builtins(s: &Schema) -> BTreeSet<String> {
    BUILTINS
        .iter()
        .filter(|b| s.types.contains_key(**b))
        .map(|b| b.to_string())
        .collect()
}

fn type_names(s: &Schema) -> BTreeSet<String> {
    s.types.keys().map(|k| k.to_string()).collect()
}

#[derive(Clone, Debug)]
pub enum Step {
    AddField(String),
    AddArgument(String),
    AddInputField(String),
    AddDirectiveDef(String),
    RemoveLastAdded,
    Validate,
}

impl Step {
    fn to_json(&self) -> Value {
        match self {
            Step::AddField(t) => json!({"op": "add_field", "type": t}),
            Step::AddArgument(t) => json!({"op": "add_argument", "type": t}),
            Step::AddInputField(t) => json!({"op": "add_input_field", "type": t}),
            Step::AddDirectiveDef(t) => json!({"op": "add_directive_definition", "type": t}),
            Step::RemoveLastAdded => json!({"op": "remove_last_added"}),
            Step::Validate => json!({"op": "validate"}),
        }
    }
    fn from_json(v: &Value) -> Option<Step> {
        let t = v.get("type").and_then(|t| t.as_str()).unwrap_or("Int").to_string();
        Some(match v.get("op")?.as_str()? {
            "add_field" => Step::AddField(t),
            "add_argument" => Step::AddArgument(t),
            "add_input_field" => Step::AddInputField(t),
            "add_directive_definition" => Step::AddDirectiveDef(t),
            "remove_last_added" => Step::RemoveLastAdded,
            _ => Step::Validate,
        })
    }
    fn kind(&self) -> &'static str {
        match self {
            Step::AddField(_) => "add_field",
            Step::AddArgument(_) => "add_argument",
            Step::AddInputField(_) => "add_input_field",
            Step::AddDirectiveDef(_) => "add_directive_definition",
            Step::RemoveLastAdded => "remove_last_added",
            Step::Validate => "validate",
        }
    }
}

enum Added {
    Field(Name, Name),
    Argument(Name, Name),
    InputField(Name, Name),
    DirectiveDef(Name),
}

fn name(s: &str) -> Name {
    Name::new(s).expect("valid name")
}

fn input_value(n: &str, ty: &str) -> Node<InputValueDefinition> {
    Node::new(InputValueDefinition {
        description: None,
        name: name(n),
        ty: Node::new(Type::Named(name(ty))),
        default_value: None,
        directives: Default::default(),
    })
}

/// Apply one edit; returns false when it is not applicable to this schema.
fn apply(schema: &mut Schema, step: &Step, added: &mut Vec<Added>, counter: &mut usize) -> bool {
    *counter += 1;
    let fresh = format!("zz_added_{}", *counter);
    let root = match &schema.schema_definition.query {
        Some(q) => q.name.clone(),
        None => return false,
    };
    match step {
        Step::AddField(t) => {
            let Some(ExtendedType::Object(o)) = schema.types.get_mut(&root) else { return false };
            o.make_mut().fields.insert(
                name(&fresh),
                Component::new(FieldDefinition {
                    description: None,
                    name: name(&fresh),
                    arguments: vec![],
                    ty: Type::Named(name(t)),
                    directives: Default::default(),
                }),
            );
            added.push(Added::Field(root, name(&fresh)));
            true
        }
        Step::AddArgument(t) => {
            let Some(ExtendedType::Object(o)) = schema.types.get_mut(&root) else { return false };
            let o = o.make_mut();
            let Some((fname, f)) = o.fields.iter_mut().next() else { return false };
            let fname = fname.clone();
            f.make_mut().arguments.push(input_value(&fresh, t));
            added.push(Added::Argument(root, fname));
            true
        }
        Step::AddInputField(t) => {
            let target = schema.types.iter().find_map(|(n, d)| match d {
                ExtendedType::InputObject(_) if !d.is_built_in() => Some(n.clone()),
                _ => None,
            });
            let Some(target) = target else { return false };
            let Some(ExtendedType::InputObject(o)) = schema.types.get_mut(&target) else { return false };
            o.make_mut().fields.insert(name(&fresh), Component::from(input_value(&fresh, t)));
            added.push(Added::InputField(target, name(&fresh)));
            true
        }
        Step::AddDirectiveDef(t) => {
            schema.directive_definitions.insert(
                name(&fresh),
                Node::new(DirectiveDefinition {
                    description: None,
                    name: name(&fresh),
                    arguments: vec![input_value("a", t)],
                    repeatable: false,
                    locations: vec![DirectiveLocation::Field],
                }),
            );
            added.push(Added::DirectiveDef(name(&fresh)));
            true
        }
        Step::RemoveLastAdded => {
            let Some(a) = added.pop() else { return false };
            match a {
                Added::Field(ty, f) => {
                    if let Some(ExtendedType::Object(o)) = schema.types.get_mut(&ty) {
                        o.make_mut().fields.shift_remove(&f);
                    }
                }
                Added::Argument(ty, f) => {
                    if let Some(ExtendedType::Object(o)) = schema.types.get_mut(&ty) {
                        if let Some(fd) = o.make_mut().fields.get_mut(&f) {
                            fd.make_mut().arguments.pop();
                        }
                    }
                }
                Added::InputField(ty, f) => {
                    if let Some(ExtendedType::InputObject(o)) = schema.types.get_mut(&ty) {
                        o.make_mut().fields.shift_remove(&f);
                    }
                }
                Added::DirectiveDef(n) => {
                    schema.directive_definitions.shift_remove(&n);
                }
            }
            true
        }
        Step::Validate => true,
    }
}

pub fn check_history(ctx: &mut Ctx, schema_text: &str, steps: &[Step]) {
    ctx.eval();
    let case = json!({"kind": "history", "schema": schema_text, "steps": steps.iter().map(|s| s.to_json()).collect::<Vec<_>>()});
    ctx.inflight("C16", case.to_string().as_bytes());
    let r = rt::catch(|| {
        let valid = match Schema::parse_and_validate(schema_text, "c16.graphql") {
            Ok(v) => v,
            Err(_) => return None,
        };
        let mut f: Vec<(String, String)> = Vec::new();
        // (a) re-validation of the unchanged schema
        let names0 = type_names(&valid);
        let d0 = schema_digest(&valid);
        let pres0 = present_builtins(&valid);
        let ref0 = referenced_builtins(&valid);
        if pres0 != ref0 {
            f.push((
                format!("builtin-scalars-after-first-validate|present-minus-referenced={:?}|referenced-minus-present={:?}",
                    pres0.difference(&ref0).collect::<Vec<_>>(), ref0.difference(&pres0).collect::<Vec<_>>()),
                format!("after the first validation the built-in scalars present {:?} are not the referenced ones {:?}", pres0, ref0),
            ));
        }
        let inner = valid.clone().into_inner();
        let mut current: Schema = match inner.validate() {
            Err(e) => {
                f.push((
                    "revalidate-unchanged|fails".into(),
                    format!("re-validating an unchanged valid schema fails: {}", e.errors.iter().map(|d| d.error.to_string()).collect::<Vec<_>>().join("; ")),
                ));
                return Some((0usize, f));
            }
            Ok(v2) => {
                if type_names(&v2) != names0 {
                    f.push(("revalidate-unchanged|type-names-differ".into(), format!("type names change on re-validation: {:?} vs {:?}", names0, type_names(&v2))));
                }
                if let Some((_, _, a, b)) = first_diff(&d0, &schema_digest(&v2)) {
                    f.push(("revalidate-unchanged|digest-differs".into(), format!("digest changes on re-validation: {:?} vs {:?}", clip(&a, 100), clip(&b, 100))));
                } else if *v2 != *valid {
                    f.push(("revalidate-unchanged|not-equal".into(), "schema not equal after re-validation".into()));
                }
                v2.into_inner()
            }
        };
        // (b) the history
        let mut added = Vec::new();
        let mut counter = 0usize;
        let mut validates = 0usize;
        let mut last_edit = "none";
        for st in steps {
            match st {
                Step::Validate => {
                    validates += 1;
                    let expect = referenced_builtins(&current);
                    match current.clone().validate() {
                        Err(e) => {
                            f.push((
                                format!("history|validate-fails|after {}", last_edit),
                                format!("validation fails after a validity-preserving edit: {}", e.errors.iter().map(|d| d.error.to_string()).collect::<Vec<_>>().join("; ")),
                            ));
                            break;
                        }
                        Ok(v) => {
                            let present = present_builtins(&v);
                            if present != expect {
                                let extra: Vec<_> = present.difference(&expect).cloned().collect();
                                let missing: Vec<_> = expect.difference(&present).cloned().collect();
                                f.push((
                                    format!("history|builtin-scalars|after {}|{}", last_edit, if !missing.is_empty() { "missing" } else { "extra" }),
                                    format!("after validate the built-in scalars present are {:?}, referenced are {:?} (missing {:?}, extra {:?})", present, expect, missing, extra),
                                ));
                                break;
                            }
                            current = v.into_inner();
                        }
                    }
                }
                other => {
                    if apply(&mut current, other, &mut added, &mut counter) {
                        last_edit = other.kind();
                    }
                }
            }
        }
        Some((validates, f))
    });
    match r {
        Err(p) => {
            ctx.violation(p.signature("c16-history"), format!("panic: {} at {}:{}", p.message, p.file, p.line), case);
        }
        Ok(None) => ctx.count("schema_invalid_skipped", 1),
        Ok(Some((validates, findings))) => {
            ctx.count("validate_calls_in_histories", validates as u64);
            for s in steps {
                ctx.class("step", s.kind());
            }
            if validates >= 2 {
                ctx.nontrivial(&case.to_string());
            }
            for (sig, msg) in findings {
                ctx.violation(sig, msg, case.clone());
            }
        }
    }
}

pub fn check_exec(ctx: &mut Ctx, schema_text: &str, exec_text: &str) {
    ctx.eval();
    let case = json!({"kind": "exec", "schema": schema_text, "executable": exec_text});
    let r = rt::catch(|| {
        let schema = Schema::parse_and_validate(schema_text, "s.graphql").ok()?;
        let doc = ExecutableDocument::parse_and_validate(&schema, exec_text, "e.graphql").ok()?;
        let before = doc.to_string();
        let res = doc.into_inner().validate(&schema);
        Some(match res {
            Ok(v) => {
                if v.to_string() != before {
                    Some(("exec-revalidate|changed".to_string(), "document changed by re-validation".to_string()))
                } else {
                    None
                }
            }
            Err(e) => Some((
                "exec-revalidate|fails".to_string(),
                format!("re-validating a valid executable document fails: {}", e.errors.iter().map(|d| d.error.to_string()).collect::<Vec<_>>().join("; ")),
            )),
        })
    });
    match r {
        Err(p) => ctx.violation(p.signature("c16-exec"), format!("panic: {}", p.message), case),
        Ok(None) => ctx.count("exec_pair_invalid_skipped", 1),
        Ok(Some(None)) => {
            ctx.count("exec_revalidated", 1);
            ctx.class("step", "exec_revalidate");
        }
        Ok(Some(Some((sig, msg)))) => ctx.violation(sig, msg, case),
    }
}

fn random_steps(rng: &mut Rng) -> Vec<Step> {
    let pool = ["Int", "Float", "String", "Boolean", "ID", "Int", "Float", "ID"];
    let n = rng.range(2, 12);
    let mut v = Vec::new();
    for _ in 0..n {
        let t = rng.pick_str(&pool).to_string();
        v.push(match rng.below(10) {
            0..=2 => Step::AddField(t),
            3 => Step::AddArgument(t),
            4 => Step::AddInputField(t),
            5 => Step::AddDirectiveDef(t),
            6..=7 => Step::RemoveLastAdded,
            _ => Step::Validate,
        });
        if rng.chance(1, 2) {
            v.push(Step::Validate);
        }
    }
    v.push(Step::Validate);
    v
}

const BASES: &[&str] = &[
    "type Query { s: String }",
    "type Query { i: Int }",
    "type Query { f: Float, id: ID }",
    "scalar C type Query { c: C }",
    "input I { a: Boolean } type Query { f(i: I): String }",
    "enum E { A } type Query { e: E }",
    "directive @d(x: Int) on FIELD type Query { s: String }",
];

pub fn run(ctx: &mut Ctx) {
    let src = TextSource::new();
    // the exact history of the property statement, on every base, for every built-in scalar
    if ctx.shard == 0 {
        for b in BASES {
            for t in BUILTINS {
                for step in [Step::AddField(t.to_string()), Step::AddArgument(t.to_string()), Step::AddInputField(t.to_string()), Step::AddDirectiveDef(t.to_string())] {
                    check_history(ctx, b, &[Step::Validate, step.clone(), Step::Validate, Step::RemoveLastAdded, Step::Validate, step, Step::Validate]);
                }
            }
        }
    }
    let corpus = util::corpus_schema_texts(&src.files);
    for (i, (_n, text)) in corpus.iter().enumerate() {
        if !ctx.mine(i as u64) {
            continue;
        }
        if let Some(ts) = util::type_system_part(text) {
            let mut rng = ctx.sub_rng("c16-corpus", i as u64);
            let steps = random_steps(&mut rng);
            check_history(ctx, &ts, &steps);
            ctx.class("source", "corpus");
        }
    }
    let mut n = 0u64;
    while !ctx.time_up() {
        n += 1;
        let mut rng = ctx.sub_rng("c16", n);
        let opts = random_opts(&mut rng);
        let doc = gen_schema(&mut rng, &opts);
        let text = print_plain(&doc);
        let steps = random_steps(&mut rng);
        check_history(ctx, &text, &steps);
        ctx.class("source", "model");
        if n % 3 == 0 {
            let flat = FlatSchema::from_doc(&doc);
            let ex = gen_executable(&mut rng, &flat, &ExecOpts::default());
            check_exec(ctx, &text, &print_plain(&ex));
        }
        ctx.sample(|| json!({"schema": clip(&text, 200), "steps": steps.iter().map(|s| s.to_json()).collect::<Vec<_>>()}));
    }
}

pub fn replay(ctx: &mut Ctx, case: &Value) {
    match case.get("kind").and_then(|k| k.as_str()) {
        Some("exec") => check_exec(ctx, case["schema"].as_str().unwrap_or(""), case["executable"].as_str().unwrap_or("")),
        _ => {
            let steps: Vec<Step> = case
                .get("steps")
                .and_then(|s| s.as_array())
                .map(|a| a.iter().filter_map(Step::from_json).collect())
                .unwrap_or_default();
            check_history(ctx, case["schema"].as_str().unwrap_or(""), &steps);
        }
    }
}
