//! C12 — Schema serialization round-trips and preserves order.
//!
//! Metamorphic oracle + ordered digest: for a schema S built without errors,
//! `Schema::parse(S.to_string())` builds without errors, equals S, has the same ORDERED digest,
//! serializes to byte-identical text; a valid S stays valid.

use crate::gen::inputs::TextSource;
use crate::gen::model::*;
use crate::gen::schema_gen::SchemaOpts;
use crate::monitors::util::{self, first_diff, schema_digest};
use crate::prng::Rng;
use crate::rt::{self, clip, Ctx};
use apollo_compiler::Schema;
use serde_json::{json, Value};

fn ser(s: &Schema, no_indent: bool) -> String {
    if no_indent {
        s.serialize().no_indent().to_string()
    } else {
        s.to_string()
    }
}

pub fn check_case(ctx: &mut Ctx, text: &str, source: &str) {
    ctx.eval();
    ctx.inflight("C12", text.as_bytes());
    let case = json!({"text": text, "source": source});
    let r = rt::catch(|| {
        let s = match Schema::parse(text, "c12.graphql") {
            Ok(s) => s,
            Err(_) => return None, // property is about schemas built WITHOUT errors
        };
        let valid = s.clone().validate().is_ok();
        let mut findings: Vec<(String, String)> = Vec::new();
        let d0 = schema_digest(&s);
        for no_indent in [false, true] {
            let cfg = if no_indent { "no_indent" } else { "default" };
            let t1 = ser(&s, no_indent);
            match Schema::parse(&t1, "c12-rt.graphql") {
                Err(e) => {
                    let first = e.errors.iter().next().map(|d| d.error.to_string()).unwrap_or_default();
                    findings.push((
                        format!("reparse-errors|{}|{}", cfg, rt::mask_message(&strip_names(&first))),
                        format!("serialized schema does not build: {first}\n--- serialized:\n{}", clip(&t1, 600)),
                    ));
                }
                Ok(s2) => {
                    let d2 = schema_digest(&s2);
                    if let Some((_, _, a, b)) = first_diff(&d0, &d2) {
                        // is it only an order difference?
                        let mut sa = d0.clone();
                        let mut sb = d2.clone();
                        sa.sort();
                        sb.sort();
                        let kind = if sa == sb { "order" } else { "content" };
                        findings.push((
                            format!("digest-differs|{}|{}|{}", cfg, util::line_class(&a), kind),
                            format!("ordered digest differs after round-trip ({kind}): {:?} vs {:?}", clip(&a, 120), clip(&b, 120)),
                        ));
                    } else if s2 != s {
                        findings.push((
                            format!("not-equal|{}", cfg),
                            "re-parsed schema != original although ordered digests agree".into(),
                        ));
                    }
                    let t2 = ser(&s2, no_indent);
                    if t2 != t1 {
                        findings.push((
                            format!("text-not-stable|{}", cfg),
                            format!("second serialization differs from the first:\n{}\n---\n{}", clip(&t1, 300), clip(&t2, 300)),
                        ));
                    }
                    if valid && s2.clone().validate().is_err() {
                        findings.push((
                            format!("validity-lost|{}", cfg),
                            "schema was valid, re-parsed schema is not".into(),
                        ));
                    }
                }
            }
        }
        Some((valid, d0.len(), findings))
    });
    match r {
        Err(p) => {
            ctx.count("panicked_cases_skipped", 1);
            let _ = p;
        }
        Ok(None) => ctx.count("not_built_cleanly_skipped", 1),
        Ok(Some((valid, lines, findings))) => {
            ctx.count("schemas_round_tripped", 1);
            ctx.count(if valid { "valid_schemas" } else { "built_but_invalid_schemas" }, 1);
            ctx.class("source", source);
            if lines >= 8 {
                ctx.nontrivial(text);
            }
            for (sig, msg) in findings {
                ctx.violation(sig, msg, case.clone());
            }
        }
    }
}

fn strip_names(m: &str) -> String {
    // drop backtick-quoted names so that one root cause has one signature
    let mut out = String::new();
    let mut inside = false;
    for c in m.chars() {
        if c == '`' {
            inside = !inside;
            out.push('`');
        } else if !inside {
            out.push(c);
        }
    }
    out
}

/// Exhaustive placements of one definition and up to three extensions of the same type, the
/// extensions contributing to different component lists.
fn interleavings(ctx: &mut Ctx) {
    let kinds = [Kind::Object, Kind::Interface, Kind::Enum, Kind::Input, Kind::Union, Kind::Scalar];
    let mut idx = 0u64;
    for kind in kinds {
        // pieces: definition + extensions
        let mut def = TypeDef::new(kind, "X");
        let mut exts: Vec<TypeDef> = Vec::new();
        let mk_ext = |f: &dyn Fn(&mut TypeDef)| {
            let mut e = TypeDef::new(kind, "X");
            e.ext = true;
            f(&mut e);
            e
        };
        let fld = |n: &str| FieldDef {
            desc: None,
            name: n.into(),
            args: vec![],
            ty: TyRef::named("Int"),
            dirs: vec![],
        };
        let inp = |n: &str| InputDef {
            desc: None,
            name: n.into(),
            ty: TyRef::named("Int"),
            default: None,
            dirs: vec![],
        };
        let dir = |n: &str| DirApp {
            name: n.into(),
            args: vec![],
        };
        match kind {
            Kind::Object | Kind::Interface => {
                def.fields.push(fld("f"));
                exts.push(mk_ext(&|e| e.fields.push(fld("a"))));
                exts.push(mk_ext(&|e| {
                    e.dirs.push(dir("d"));
                    e.fields.push(fld("b"))
                }));
                exts.push(mk_ext(&|e| {
                    e.implements.push("I".into());
                    e.fields.push(fld("i"))
                }));
            }
            Kind::Enum => {
                def.values.push(EnumVal {
                    desc: None,
                    name: "V".into(),
                    dirs: vec![],
                });
                exts.push(mk_ext(&|e| {
                    e.values.push(EnumVal {
                        desc: None,
                        name: "A".into(),
                        dirs: vec![],
                    })
                }));
                exts.push(mk_ext(&|e| {
                    e.dirs.push(dir("d"));
                    e.values.push(EnumVal {
                        desc: None,
                        name: "B".into(),
                        dirs: vec![],
                    })
                }));
                exts.push(mk_ext(&|e| e.dirs.push(dir("d2"))));
            }
            Kind::Input => {
                def.input_fields.push(inp("f"));
                exts.push(mk_ext(&|e| e.input_fields.push(inp("a"))));
                exts.push(mk_ext(&|e| {
                    e.dirs.push(dir("d"));
                    e.input_fields.push(inp("b"))
                }));
                exts.push(mk_ext(&|e| e.dirs.push(dir("d2"))));
            }
            Kind::Union => {
                def.members.push("M0".into());
                exts.push(mk_ext(&|e| e.members.push("M1".into())));
                exts.push(mk_ext(&|e| {
                    e.dirs.push(dir("d"));
                    e.members.push("M2".into())
                }));
                exts.push(mk_ext(&|e| e.dirs.push(dir("d2"))));
            }
            Kind::Scalar => {
                exts.push(mk_ext(&|e| e.dirs.push(dir("d"))));
                exts.push(mk_ext(&|e| e.dirs.push(dir("d2"))));
            }
        }
        let support = "directive @d repeatable on OBJECT | INTERFACE | ENUM | INPUT_OBJECT | UNION | SCALAR\n\
                       directive @d2 repeatable on OBJECT | INTERFACE | ENUM | INPUT_OBJECT | UNION | SCALAR\n\
                       interface I { i: Int }\ntype M0 { x: Int }\ntype M1 { x: Int }\ntype M2 { x: Int }\n\
                       type Query { q: Int }\n";
        // all subsets of extensions, all permutations of (def + chosen extensions)
        let n = exts.len();
        for mask in 0u32..(1 << n) {
            let mut pieces: Vec<TypeDef> = vec![def.clone()];
            for (i, e) in exts.iter().enumerate() {
                if mask & (1 << i) != 0 {
                    pieces.push(e.clone());
                }
            }
            let mut perm: Vec<usize> = (0..pieces.len()).collect();
            permute(&mut perm, 0, &mut |p: &[usize]| {
                idx += 1;
                if !ctx.mine(idx) {
                    return;
                }
                let mut text = String::from(support);
                for &i in p {
                    text.push_str(&print_def_plain(&Def::Type(pieces[i].clone())));
                    text.push('\n');
                }
                check_case(ctx, &text, "extension_interleaving");
                ctx.class("interleaving_kind", kind.keyword());
            });
        }
    }
    ctx.count("interleaving_placements_total", idx);
}

fn permute(v: &mut Vec<usize>, k: usize, f: &mut dyn FnMut(&[usize])) {
    if k == v.len() {
        f(v);
        return;
    }
    for i in k..v.len() {
        v.swap(k, i);
        permute(v, k + 1, f);
        v.swap(k, i);
    }
}

const SPECIALS: &[&str] = &[
    // known-defect shape (DESIGN §3 row 8)
    "type Query { f: Int } extend type Query { a: Int } extend type Query @d { b: Int } directive @d on OBJECT",
    // implicit vs explicit schema, renamed roots, schema extensions, description on schema
    "type Query { f: Int } type Mutation { m: Int }",
    "schema { query: Q } type Q { f: Int }",
    "\"desc\" schema { query: Query } type Query { f: Int }",
    "schema @d { query: Query } extend schema { mutation: M } type Query { f: Int } type M { m: Int } directive @d on SCHEMA",
    "extend schema @d type Query { f: Int } directive @d on SCHEMA",
    "schema { query: Query } extend schema @d extend schema { subscription: S } type Query { f: Int } type S { s: Int } directive @d repeatable on SCHEMA",
    "type Query { f: Int } type Subscription { s: Int }",
    "schema { query: Mutation } type Mutation { f: Int } type Query { q: Int }",
    // redefined built-in directives, built-in scalar extensions
    "directive @deprecated(reason: String = \"x\") on FIELD_DEFINITION | ENUM_VALUE type Query { f: Int @deprecated }",
    "directive @skip(if: Boolean!) on FIELD type Query { f: Int }",
    "directive @specifiedBy(url: String!) on SCALAR scalar S @specifiedBy(url: \"u\") type Query { f: S }",
    "extend scalar Int @d directive @d on SCALAR type Query { f: Int }",
    "type Query { f(a: Int = 1 @d, b: [String!]! = [\"x\"]): Int } directive @d on ARGUMENT_DEFINITION",
    "enum E { A @deprecated(reason: \"r\") B } type Query { e: E }",
    "input I { a: Int = 1, b: I, c: [I!] = [{a: 2}] } type Query { f(i: I): Int }",
    "interface A { a: Int } interface B implements A { a: Int b: Int } type T implements B & A { a: Int b: Int } type Query { t: T }",
    "union U = | A | B type A { a: Int } type B { b: Int } type Query { u: U }",
    "\"\"\"\nblock desc\n\"\"\"\ntype Query { \"field desc\" f(\"arg desc\" a: Int): Int }",
];

/// Explicit `schema` definitions whose root names are the default ones while some default-named
/// type is NOT an object (the schema builds cleanly but is invalid): the serializer must not drop
/// the explicit definition. All subsets of roots x non-object kinds x which name is the odd one.
fn default_named_non_object_roots(ctx: &mut Ctx) {
    let names = ["Query", "Mutation", "Subscription"];
    let non_objects = [
        "scalar {N}",
        "enum {N} { A }",
        "input {N} { a: Int }",
        "interface {N} { a: Int }",
        "union {N} = Obj",
    ];
    for mask in 1u32..8 {
        for odd in 0..3usize {
            for no in non_objects {
                for list_odd_as_root in [true, false] {
                    let mut text = String::from("type Obj { o: Int }\n");
                    let mut roots = String::new();
                    for (i, n) in names.iter().enumerate() {
                        let in_mask = mask & (1 << i) != 0;
                        if i == odd {
                            text.push_str(&no.replace("{N}", n));
                            text.push('\n');
                            if list_odd_as_root && in_mask {
                                roots.push_str(&format!(" {}: {}", n.to_lowercase(), n));
                            }
                        } else if in_mask {
                            text.push_str(&format!("type {n} {{ f: Int }}\n"));
                            roots.push_str(&format!(" {}: {}", n.to_lowercase(), n));
                        }
                    }
                    if roots.is_empty() {
                        continue;
                    }
                    text.push_str(&format!("schema {{{roots} }}\n"));
                    check_case(ctx, &text, "default_named_non_object_root");
                }
            }
        }
    }
}

/// Every combination, per operation kind, of what the default-named type is (absent, an object, an
/// interface) and what the explicit schema definition says for that kind (nothing, the default
/// name, a custom-named object): 9^3 documents. With no entry at all the schema definition is
/// implicit. A default-named object that is deliberately NOT a root must stay a non-root.
fn root_name_matrix(ctx: &mut Ctx) {
    let kinds = [("query", "Query"), ("mutation", "Mutation"), ("subscription", "Subscription")];
    for code in 0u64..729 {
        if !ctx.mine(code) {
            continue;
        }
        let mut c = code;
        let mut text = String::from("type Obj { o: Int }\n");
        let mut roots = String::new();
        for (op, name) in kinds {
            let (ty_state, entry) = (c % 3, (c / 3) % 3);
            c /= 9;
            match ty_state {
                1 => text.push_str(&format!("type {name} {{ f{op}: Int }}\n")),
                2 => text.push_str(&format!("interface {name} {{ f{op}: Int }}\n")),
                _ => {}
            }
            match entry {
                1 => roots.push_str(&format!(" {op}: {name}")),
                2 => {
                    text.push_str(&format!("type R{name} {{ r{op}: Int }}\n"));
                    roots.push_str(&format!(" {op}: R{name}"));
                }
                _ => {}
            }
        }
        if !roots.is_empty() {
            text.push_str(&format!("schema {{{roots} }}\n"));
        }
        check_case(ctx, &text, "root_name_matrix");
    }
}

pub fn run(ctx: &mut Ctx) {
    let src = TextSource::new();
    if ctx.shard == 0 {
        for t in SPECIALS {
            check_case(ctx, t, "special");
        }
        default_named_non_object_roots(ctx);
    }
    root_name_matrix(ctx);
    interleavings(ctx);
    // corpus (type-system part of each file)
    let corpus = util::corpus_schema_texts(&src.files);
    for (i, (_name, text)) in corpus.iter().enumerate() {
        if !ctx.mine(i as u64) {
            continue;
        }
        check_case(ctx, text, "corpus");
        if let Some(ts) = util::type_system_part(text) {
            check_case(ctx, &ts, "corpus_type_system_part");
        }
    }
    // generated schemas + smith
    let mut n = 0u64;
    while !ctx.time_up() {
        n += 1;
        let mut rng = ctx.sub_rng("c12", n);
        if n % 5 == 0 {
            let nbytes = rng.range(64, 4096);
            let bytes = rng.bytes(nbytes);
            if let Some(t) = util::smith_text(&bytes, 4) {
                if let Some(ts) = util::type_system_part(&t) {
                    check_case(ctx, &ts, "smith");
                }
            }
            continue;
        }
        let opts = random_opts(&mut rng);
        let g = util::gen_schema_text(&mut rng, &opts);
        check_case(ctx, &g.text, if g.trivia { "model_trivia" } else { "model_plain" });
        ctx.sample(|| json!({"source": "model", "text": clip(&g.text, 300)}));
    }
}

pub fn random_opts(rng: &mut Rng) -> SchemaOpts {
    SchemaOpts {
        max_each: rng.range(1, 4),
        renamed_roots: *rng.pick(&[0usize, 2, 5, 10]),
        ..SchemaOpts::default()
    }
}

pub fn replay(ctx: &mut Ctx, case: &Value) {
    if let Some(t) = case.get("text").and_then(|t| t.as_str()) {
        check_case(ctx, t, "replay");
    }
}
