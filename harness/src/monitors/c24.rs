//! C24 — Introspection agrees with the reference implementation.
//!
//! For every valid schema (apollo-rs accepts the printed model) the standard full introspection
//! query (graphql-js v16 `getIntrospectionQuery` with every option on) is run through
//! `introspection::partial_execute`; `errors` must be empty and `data` must equal
//! `RefIntrospection(model)` after the normalisation the property allows (`types` and `directives`
//! sorted by name, `fields` of `__*` types sorted by name). Second clause: the same query with one
//! concrete root field added must give the same `data` without a key for that field, and no error.
//!
//! The oracle is a reference model written in the harness (refmodel/introspection.rs), NOT
//! graphql-js. Default values are restricted to the envelope of certainty; descriptions of the
//! built-in types/directives are not compared (see `refmodel::introspection`).
//!
//! Two input paths (counted separately): (A) `model`: schemas from `schema_gen::gen_schema`, judged
//! end to end independently of apollo's parser; (B) `parsed`: corpus and apollo-smith schemas
//! converted from apollo's AST with `from_ast::doc_from_ast`. Replays always go through (B): the
//! replay file holds the SDL text.

use crate::corpus;
use crate::gen::from_ast::doc_from_ast;
use crate::gen::model::*;
use crate::gen::schema_gen::{gen_schema, SchemaOpts};
use crate::prng::{fnv_str, Rng};
use crate::refmodel::introspection::{
    default_kind, diff, normalise, schema_in_envelope, Diff, RefIntrospection, INTROSPECTION_QUERY,
};
use crate::rt::{self, clip, mask_message, Ctx};
use apollo_compiler::request::coerce_variable_values;
use apollo_compiler::response::JsonMap;
use apollo_compiler::{ast, introspection, ExecutableDocument, Schema};
use serde_json::{json, Value};

/// One concrete root field added to the introspection query.
#[derive(Clone, Debug)]
pub struct Extra {
    /// selection text, e.g. `x: f(a: 1) { __typename }`
    pub text: String,
    /// response key it would have
    pub key: String,
    /// before or after `__schema`
    pub before: bool,
}

impl Extra {
    fn to_json(&self) -> Value {
        json!({"text": self.text, "key": self.key, "before": self.before})
    }
    fn from_json(v: &Value) -> Option<Extra> {
        Some(Extra {
            text: v.get("text")?.as_str()?.to_string(),
            key: v.get("key")?.as_str()?.to_string(),
            before: v.get("before")?.as_bool()?,
        })
    }
}

pub fn query_with_extra(extra: &Extra) -> String {
    let q = INTROSPECTION_QUERY;
    if extra.before {
        let i = q.find("__schema").expect("query has __schema");
        format!("{}{}\n      {}", &q[..i], extra.text, &q[i..])
    } else {
        let marker = "    }\n\n    fragment FullType";
        let i = q.find(marker).expect("query has the FullType fragment");
        format!("{}      {}\n{}", &q[..i], extra.text, &q[i..])
    }
}

/// A minimal literal valid for input type `ty` (used for the required arguments of the extra field).
fn min_literal(s: &FlatSchema, ty: &TyRef, non_null: bool, depth: usize) -> Option<Val> {
    if depth > 8 {
        return None;
    }
    match ty {
        TyRef::NonNull(t) => min_literal(s, t, true, depth),
        _ if !non_null => Some(Val::Null),
        TyRef::List(_) => Some(Val::List(vec![])),
        TyRef::Named(n) => Some(match n.as_str() {
            "Int" => Val::Int(0),
            "Float" => Val::Float("0.5".into()),
            "String" | "ID" => Val::Str("s".into()),
            "Boolean" => Val::Bool(true),
            _ => {
                let t = s.ty(n)?;
                match t.kind {
                    Kind::Enum => Val::Enum(t.values.first()?.name.clone()),
                    Kind::Scalar => Val::Int(1),
                    Kind::Input => {
                        let mut fields = Vec::new();
                        for f in &t.input_fields {
                            if f.ty.is_non_null() && f.default.is_none() {
                                fields.push((f.name.clone(), min_literal(s, &f.ty, false, depth + 1)?));
                            }
                        }
                        Val::Obj(fields)
                    }
                    _ => return None,
                }
            }
        }),
    }
}

/// The extra concrete root field for a schema: field `index` (mod the number of fields) of the query
/// root type, required arguments supplied, `{ __typename }` below a composite type.
pub fn extra_for(flat: &FlatSchema, rng: &mut Rng) -> Option<Extra> {
    let q = flat.ty(flat.query.as_deref()?)?;
    if q.fields.is_empty() {
        return None;
    }
    let f = &q.fields[if rng.chance(1, 2) { 0 } else { rng.below(q.fields.len()) }];
    let mut args = Vec::new();
    for a in &f.args {
        let required = a.ty.is_non_null() && a.default.is_none();
        if required || rng.chance(1, 4) {
            let v = min_literal(flat, &a.ty, false, 0)?;
            args.push(format!("{}: {}", a.name, print_value_plain(&v)));
        }
    }
    let alias = if rng.chance(1, 3) { Some("extraAlias") } else { None };
    let mut text = String::new();
    if let Some(a) = alias {
        text.push_str(a);
        text.push_str(": ");
    }
    text.push_str(&f.name);
    if !args.is_empty() {
        text.push_str(&format!("({})", args.join(", ")));
    }
    if flat.is_composite(f.ty.inner_name()) {
        text.push_str(" { __typename }");
    }
    Some(Extra {
        text,
        key: alias.map(|a| a.to_string()).unwrap_or_else(|| f.name.clone()),
        before: rng.bool(),
    })
}

/// Outcome of judging one schema.
pub enum Outcome {
    /// outside the envelope of certainty (reason)
    OutOfEnvelope(&'static str),
    /// apollo-rs rejects the schema text (first diagnostic, masked)
    Rejected(String),
    /// apollo-rs panicked while building/validating the schema or the query (another property's business)
    Panicked(String),
    /// compared; (signature, message) per refuting event
    Compared {
        violations: Vec<(String, String)>,
        extra_checked: bool,
    },
}

fn run_query(
    schema: &apollo_compiler::validation::Valid<Schema>,
    query: &str,
) -> Result<(Vec<String>, Option<Value>), (String, String)> {
    let doc = ExecutableDocument::parse_and_validate(schema, query, "introspection.graphql").map_err(|e| {
        let first = e.errors.iter().next().map(|d| d.error.to_string()).unwrap_or_default();
        (
            format!("query-rejected|{}", mask_message(&strip_quoted(&first))),
            format!("the introspection query does not validate against a valid schema: {}", clip(&first, 300)),
        )
    })?;
    let op = doc.operations.get(None).map_err(|_| {
        ("query-operation-lookup".to_string(), "operations.get(None) failed on a single-operation document".to_string())
    })?;
    let vars = coerce_variable_values(schema, op, &JsonMap::new()).map_err(|e| {
        (
            "request-error|coerce_variable_values".to_string(),
            format!("coerce_variable_values failed without variables: {}", e.message()),
        )
    })?;
    let resp = introspection::partial_execute(schema, &schema.implementers_map(), &doc, op, &vars).map_err(|e| {
        let m = e.message().to_string();
        (
            format!("request-error|{}", mask_message(&strip_quoted(&m))),
            format!("partial_execute returned a request error: {}", clip(&m, 300)),
        )
    })?;
    let errors: Vec<String> = resp
        .errors
        .iter()
        .map(|e| {
            let path = serde_json::to_value(&e.path).map(|v| v.to_string()).unwrap_or_default();
            format!("{} at path {}", e.message, path)
        })
        .collect();
    let data = match &resp.data {
        None => None,
        Some(m) => Some(serde_json::to_value(m).map_err(|e| ("harness|json-conversion".to_string(), e.to_string()))?),
    };
    Ok((errors, data))
}

/// Drop `...`/"..."-delimited payloads (names) from a message so that a signature names the site.
fn strip_quoted(m: &str) -> String {
    let mut out = String::new();
    let mut in_q: Option<char> = None;
    for c in m.chars() {
        match in_q {
            Some(q) => {
                if c == q {
                    in_q = None;
                    out.push(c);
                }
            }
            None => {
                out.push(c);
                if c == '`' || c == '"' {
                    in_q = Some(c);
                }
            }
        }
    }
    out
}

/// Class of a field error `message at path [..]`: the message with every word that is not plain
/// lower-case prose (type names, field names, numbers) replaced by `_`, and the path with indices
/// masked and a concrete root key replaced by `<root-field>`.
fn error_path_class(msg: &str) -> String {
    let (message, path) = msg.rsplit_once(" at path ").unwrap_or((msg, "[]"));
    let stripped = strip_quoted(message);
    let mut words: Vec<&str> = Vec::new();
    for w in stripped.split_whitespace() {
        let plain = w.chars().all(|c| c.is_ascii_lowercase() || matches!(c, '-' | ':' | ',' | '.'));
        let w = if plain { w } else { "_" };
        if w == "_" && words.last() == Some(&"_") {
            continue;
        }
        words.push(w);
        if words.len() >= 16 {
            break;
        }
    }
    let mut segs: Vec<String> = Vec::new();
    if let Ok(Value::Array(items)) = serde_json::from_str::<Value>(path) {
        for (i, it) in items.iter().enumerate() {
            segs.push(match it {
                Value::String(s) if i == 0 && !s.starts_with("__") => "<root-field>".to_string(),
                Value::String(s) => s.clone(),
                _ => "[]".to_string(),
            });
        }
    }
    format!("{}|{}", segs.join("."), words.join(" "))
}

/// Signature path class: a path through a `type` reference is named by what lies below the
/// reference (`TypeRef.ofType+.kind`), whatever holds the reference and however deep the wrapper
/// chain is: one defect in the wrapper resolvers is one site. Likewise a path below an input value
/// (`InputValue.defaultValue`) whether it is a field argument, directive argument or input field.
fn path_class(path: &str) -> String {
    let mut p = match path.rfind(".type.") {
        Some(i) => format!("TypeRef{}", &path[i + 5..]),
        None if path.ends_with(".type") => "TypeRef".to_string(),
        None => path.to_string(),
    };
    // below an element of `args` / `inputFields` every holder shares `InputValueResolver`
    for holder in [".args[].", ".inputFields[]."] {
        if let Some(i) = p.rfind(holder) {
            p = format!("InputValue.{}", &p[i + holder.len()..]);
        }
    }
    while p.contains(".ofType.ofType") {
        p = p.replace(".ofType.ofType", ".ofType");
    }
    p.replace(".ofType", ".ofType+")
}

fn compare(clause: &str, expected: &Value, errors: &[String], data: Option<Value>, out: &mut Vec<(String, String)>) {
    if let Some(first) = errors.first() {
        out.push((
            format!("{clause}|errors-nonempty|{}", error_path_class(first)),
            format!("{} error(s) in the response, first: {}", errors.len(), clip(first, 300)),
        ));
    }
    let Some(mut data) = data else {
        out.push((format!("{clause}|data-absent"), "the response has no data".to_string()));
        return;
    };
    normalise(&mut data);
    let mut diffs: Vec<Diff> = Vec::new();
    diff(expected, &data, "data", "data", &mut diffs, 40);
    let mut seen: Vec<String> = Vec::new();
    for d in diffs {
        let sig = format!("{clause}|{}|{}", path_class(&d.path), d.kind);
        if seen.contains(&sig) {
            continue;
        }
        seen.push(sig.clone());
        out.push((sig, d.detail));
    }
}

/// Judge one schema: `doc` is the model the reference is computed from, `sdl` the text given to
/// apollo-rs.
pub fn judge(doc: &Doc, sdl: &str, extra: Option<&Extra>) -> Outcome {
    if let Err(why) = schema_in_envelope(doc) {
        return Outcome::OutOfEnvelope(why);
    }
    let r = rt::catch(|| -> Result<Outcome, Outcome> {
        let schema = Schema::parse_and_validate(sdl, "schema.graphql").map_err(|e| {
            let first = e.errors.iter().next().map(|d| d.error.to_string()).unwrap_or_default();
            Outcome::Rejected(mask_message(&strip_quoted(&first)))
        })?;
        let mut expected = RefIntrospection::new(doc).data();
        normalise(&mut expected);
        let mut violations = Vec::new();
        match run_query(&schema, INTROSPECTION_QUERY) {
            Err((sig, msg)) => violations.push((format!("full|{sig}"), msg)),
            Ok((errors, data)) => compare("full", &expected, &errors, data, &mut violations),
        }
        let mut extra_checked = false;
        if let Some(x) = extra {
            extra_checked = true;
            match run_query(&schema, &query_with_extra(x)) {
                Err((sig, msg)) if sig.starts_with("query-rejected") => {
                    // the harness built a selection apollo-rs does not accept: not a verdict
                    extra_checked = false;
                    let _ = msg;
                }
                Err((sig, msg)) => violations.push((format!("extra-root|{sig}"), msg)),
                Ok((errors, data)) => {
                    if let Some(Value::Object(m)) = &data {
                        if let Some(v) = m.get(&x.key) {
                            violations.push((
                                format!("extra-root|key-present|{}", if v.is_null() { "null" } else { "value" }),
                                format!("concrete root field `{}` was not skipped: data has key {:?} = {}", x.text, x.key, clip(&v.to_string(), 80)),
                            ));
                        }
                    }
                    let data = data.map(|mut d| {
                        if let Value::Object(m) = &mut d {
                            m.shift_remove(&x.key);
                        }
                        d
                    });
                    // a difference the first clause already reported is not reported again
                    let mut second = Vec::new();
                    compare("extra-root", &expected, &errors, data, &mut second);
                    for (sig, msg) in second {
                        let as_full = sig.replacen("extra-root|", "full|", 1);
                        if !violations.iter().any(|(s, _)| *s == as_full) {
                            violations.push((sig, msg));
                        }
                    }
                }
            }
        }
        Ok(Outcome::Compared {
            violations,
            extra_checked,
        })
    });
    match r {
        Ok(Ok(o)) | Ok(Err(o)) => o,
        Err(p) => Outcome::Panicked(p.signature("introspection")),
    }
}

// ---------------------------------------------------------------------------------------------
// Witness reduction (greedy, on the model, keeping the signature)
// ---------------------------------------------------------------------------------------------

fn still_fails(doc: &Doc, extra: Option<&Extra>, sig: &str) -> bool {
    let sdl = print_plain(doc);
    match judge(doc, &sdl, extra) {
        Outcome::Compared { violations, .. } => violations.iter().any(|(s, _)| s == sig),
        _ => false,
    }
}

/// All one-step reductions of a document (remove a definition, a component, a default, a
/// description, a directive application).
fn reductions(doc: &Doc) -> Vec<Doc> {
    let mut out = Vec::new();
    for i in 0..doc.defs.len() {
        let mut d = doc.clone();
        d.defs.remove(i);
        out.push(d);
    }
    for i in 0..doc.defs.len() {
        macro_rules! edit {
            ($body:expr) => {{
                let mut d = doc.clone();
                #[allow(clippy::redundant_closure_call)]
                if ($body)(&mut d.defs[i]) {
                    out.push(d);
                }
            }};
        }
        match &doc.defs[i] {
            Def::Type(t) => {
                for k in 0..t.fields.len() {
                    edit!(|d: &mut Def| if let Def::Type(t) = d { t.fields.remove(k); true } else { false });
                    for a in 0..t.fields[k].args.len() {
                        edit!(|d: &mut Def| if let Def::Type(t) = d { t.fields[k].args.remove(a); true } else { false });
                        if t.fields[k].args[a].default.is_some() {
                            edit!(|d: &mut Def| if let Def::Type(t) = d { t.fields[k].args[a].default = None; true } else { false });
                        }
                        if t.fields[k].args[a].desc.is_some() {
                            edit!(|d: &mut Def| if let Def::Type(t) = d { t.fields[k].args[a].desc = None; true } else { false });
                        }
                        if !t.fields[k].args[a].dirs.is_empty() {
                            edit!(|d: &mut Def| if let Def::Type(t) = d { t.fields[k].args[a].dirs.clear(); true } else { false });
                        }
                    }
                    if t.fields[k].desc.is_some() {
                        edit!(|d: &mut Def| if let Def::Type(t) = d { t.fields[k].desc = None; true } else { false });
                    }
                    if !t.fields[k].dirs.is_empty() {
                        edit!(|d: &mut Def| if let Def::Type(t) = d { t.fields[k].dirs.clear(); true } else { false });
                    }
                    if t.fields[k].ty != TyRef::named("Int") {
                        edit!(|d: &mut Def| if let Def::Type(t) = d { t.fields[k].ty = TyRef::named("Int"); true } else { false });
                    }
                }
                for k in 0..t.input_fields.len() {
                    edit!(|d: &mut Def| if let Def::Type(t) = d { t.input_fields.remove(k); true } else { false });
                    if t.input_fields[k].default.is_some() {
                        edit!(|d: &mut Def| if let Def::Type(t) = d { t.input_fields[k].default = None; true } else { false });
                    }
                    if t.input_fields[k].desc.is_some() {
                        edit!(|d: &mut Def| if let Def::Type(t) = d { t.input_fields[k].desc = None; true } else { false });
                    }
                    if !t.input_fields[k].dirs.is_empty() {
                        edit!(|d: &mut Def| if let Def::Type(t) = d { t.input_fields[k].dirs.clear(); true } else { false });
                    }
                }
                for k in 0..t.values.len() {
                    edit!(|d: &mut Def| if let Def::Type(t) = d { t.values.remove(k); true } else { false });
                    if t.values[k].desc.is_some() {
                        edit!(|d: &mut Def| if let Def::Type(t) = d { t.values[k].desc = None; true } else { false });
                    }
                    if !t.values[k].dirs.is_empty() {
                        edit!(|d: &mut Def| if let Def::Type(t) = d { t.values[k].dirs.clear(); true } else { false });
                    }
                }
                for k in 0..t.members.len() {
                    edit!(|d: &mut Def| if let Def::Type(t) = d { t.members.remove(k); true } else { false });
                }
                for k in 0..t.implements.len() {
                    edit!(|d: &mut Def| if let Def::Type(t) = d { t.implements.remove(k); true } else { false });
                }
                for k in 0..t.dirs.len() {
                    edit!(|d: &mut Def| if let Def::Type(t) = d { t.dirs.remove(k); true } else { false });
                }
                if t.desc.is_some() {
                    edit!(|d: &mut Def| if let Def::Type(t) = d { t.desc = None; true } else { false });
                }
            }
            Def::Directive(dd) => {
                for k in 0..dd.args.len() {
                    edit!(|d: &mut Def| if let Def::Directive(x) = d { x.args.remove(k); true } else { false });
                    if dd.args[k].default.is_some() {
                        edit!(|d: &mut Def| if let Def::Directive(x) = d { x.args[k].default = None; true } else { false });
                    }
                    if dd.args[k].desc.is_some() {
                        edit!(|d: &mut Def| if let Def::Directive(x) = d { x.args[k].desc = None; true } else { false });
                    }
                    if !dd.args[k].dirs.is_empty() {
                        edit!(|d: &mut Def| if let Def::Directive(x) = d { x.args[k].dirs.clear(); true } else { false });
                    }
                }
                if dd.locations.len() > 1 {
                    for k in 0..dd.locations.len() {
                        edit!(|d: &mut Def| if let Def::Directive(x) = d { x.locations.remove(k); true } else { false });
                    }
                }
                if dd.desc.is_some() {
                    edit!(|d: &mut Def| if let Def::Directive(x) = d { x.desc = None; true } else { false });
                }
            }
            Def::Schema(s) => {
                for k in 0..s.roots.len() {
                    edit!(|d: &mut Def| if let Def::Schema(x) = d { x.roots.remove(k); true } else { false });
                }
                if !s.dirs.is_empty() {
                    edit!(|d: &mut Def| if let Def::Schema(x) = d { x.dirs.clear(); true } else { false });
                }
                if s.desc.is_some() {
                    edit!(|d: &mut Def| if let Def::Schema(x) = d { x.desc = None; true } else { false });
                }
            }
            _ => {}
        }
    }
    out
}

/// Greedy reduction with a budget of judge calls.
pub fn reduce(doc: &Doc, extra: Option<&Extra>, sig: &str, mut budget: usize) -> Doc {
    let mut cur = doc.clone();
    'outer: loop {
        for cand in reductions(&cur) {
            if budget == 0 {
                break 'outer;
            }
            budget -= 1;
            if still_fails(&cand, extra, sig) {
                cur = cand;
                continue 'outer;
            }
        }
        break;
    }
    cur
}

// ---------------------------------------------------------------------------------------------
// Coverage classes (measured on the model of every compared schema)
// ---------------------------------------------------------------------------------------------

fn wrappers(ctx: &mut Ctx, t: &TyRef) {
    match t {
        TyRef::Named(_) => {}
        TyRef::List(x) => {
            ctx.class("kind", "LIST");
            wrappers(ctx, x);
        }
        TyRef::NonNull(x) => {
            ctx.class("kind", "NON_NULL");
            if matches!(**x, TyRef::List(_)) && matches!(x.item(), Some(TyRef::NonNull(_))) {
                ctx.class("feature", "non_null_list_of_non_null");
            }
            wrappers(ctx, x);
        }
    }
}

fn default_classes(ctx: &mut Ctx, v: &Val, top: bool) {
    ctx.class("default_kind", default_kind(v));
    if top {
        ctx.count("default_values_compared", 1);
    }
    match v {
        Val::List(items) => {
            for it in items {
                default_classes(ctx, it, false);
            }
        }
        Val::Obj(fs) => {
            for (_, x) in fs {
                default_classes(ctx, x, false);
            }
        }
        _ => {}
    }
}

fn input_classes(ctx: &mut Ctx, a: &InputDef, what: &str) {
    wrappers(ctx, &a.ty);
    if let Some(v) = &a.default {
        default_classes(ctx, v, true);
    }
    if a.dirs.iter().any(|d| d.name == "deprecated") {
        ctx.class("feature", &format!("deprecated_{what}"));
    }
    if a.desc.is_some() {
        ctx.class("feature", &format!("description_{what}"));
    }
}

fn coverage(ctx: &mut Ctx, doc: &Doc, flat: &FlatSchema) {
    for t in flat.types.iter().filter(|t| !t.builtin) {
        ctx.class(
            "kind",
            match t.kind {
                Kind::Scalar => "SCALAR",
                Kind::Object => "OBJECT",
                Kind::Interface => "INTERFACE",
                Kind::Union => "UNION",
                Kind::Enum => "ENUM",
                Kind::Input => "INPUT_OBJECT",
            },
        );
        if t.desc.is_some() {
            ctx.class("feature", "description_type");
        }
        match t.kind {
            Kind::Scalar => {
                if t.dirs.iter().any(|d| d.name == "specifiedBy") {
                    ctx.class("feature", "specifiedBy");
                }
            }
            Kind::Union => ctx.class("feature", "union"),
            Kind::Interface => {
                if !t.implements.is_empty() {
                    ctx.class("feature", "interface_implements_interface");
                }
                if flat.possible_types(&t.name).len() > 1 {
                    ctx.class("feature", "interface_with_several_possible_types");
                }
            }
            Kind::Object => {
                if t.implements.len() > 1 {
                    ctx.class("feature", "object_implements_several");
                }
            }
            _ => {}
        }
        for f in &t.fields {
            wrappers(ctx, &f.ty);
            if f.dirs.iter().any(|d| d.name == "deprecated") {
                ctx.class("feature", "deprecated_field");
                if f.dirs.iter().any(|d| d.name == "deprecated" && d.args.is_empty()) {
                    ctx.class("feature", "deprecated_default_reason");
                }
            }
            if f.desc.is_some() {
                ctx.class("feature", "description_field");
            }
            for a in &f.args {
                input_classes(ctx, a, "arg");
            }
        }
        for f in &t.input_fields {
            input_classes(ctx, f, "input_field");
        }
        for v in &t.values {
            if v.dirs.iter().any(|d| d.name == "deprecated") {
                ctx.class("feature", "deprecated_enum_value");
            }
            if v.desc.is_some() {
                ctx.class("feature", "description_enum_value");
            }
        }
    }
    for d in &flat.directives {
        if crate::refmodel::introspection::BUILTIN_DIRECTIVES.contains(&d.name.as_str()) {
            continue;
        }
        ctx.class("feature", "custom_directive");
        if d.repeatable {
            ctx.class("feature", "repeatable_directive");
        } else {
            ctx.class("feature", "non_repeatable_directive");
        }
        if d.desc.is_some() {
            ctx.class("feature", "description_directive");
        }
        for a in &d.args {
            input_classes(ctx, a, "directive_arg");
        }
    }
    if flat.desc.is_some() {
        ctx.class("feature", "schema_description");
    }
    if flat.query.as_deref() != Some("Query") {
        ctx.class("feature", "renamed_roots");
    }
    if flat.mutation.is_some() {
        ctx.class("feature", "mutation_root");
    }
    if flat.subscription.is_some() {
        ctx.class("feature", "subscription_root");
    }
    let mut seen_def: Vec<&str> = Vec::new();
    for d in &doc.defs {
        match d {
            Def::Type(t) if t.ext => {
                ctx.class("feature", "type_extension");
                if !seen_def.contains(&t.name.as_str()) {
                    ctx.class("feature", "extension_before_definition");
                }
                if !t.implements.is_empty() {
                    ctx.class("feature", "extension_adds_interface");
                }
            }
            Def::Type(t) => seen_def.push(&t.name),
            Def::Schema(s) if s.ext => ctx.class("feature", "schema_extension"),
            Def::Schema(_) => ctx.class("feature", "explicit_schema_definition"),
            _ => {}
        }
    }
    let used = RefIntrospection { flat: flat.clone() }.referenced_builtin_scalars();
    for b in BUILTIN_SCALARS {
        if !used.contains(b) {
            ctx.class("feature", "unreferenced_builtin_scalar_omitted");
        }
    }
}

// ---------------------------------------------------------------------------------------------
// The check
// ---------------------------------------------------------------------------------------------

thread_local! {
    static REDUCED: std::cell::RefCell<std::collections::HashSet<String>> = std::cell::RefCell::new(Default::default());
}

pub fn check_case(ctx: &mut Ctx, doc: &Doc, sdl: &str, extra: Option<&Extra>, source: &str, path: &str) {
    ctx.eval();
    let case = json!({"sdl": sdl, "extra": extra.map(|x| x.to_json()), "source": source, "path": path});
    ctx.inflight("C24", case.to_string().as_bytes());
    match judge(doc, sdl, extra) {
        Outcome::OutOfEnvelope(why) => {
            ctx.count(&format!("skipped_out_of_envelope[{path}]"), 1);
            ctx.class("out_of_envelope_reason", &format!("{path}: {why}"));
            if path == "model" {
                ctx.note("model_out_of_envelope_example", json!({"why": why, "sdl": clip(sdl, 600)}));
            }
        }
        Outcome::Rejected(msg) => {
            ctx.count(&format!("skipped_schema_rejected_by_apollo[{path}]"), 1);
            if path == "model" {
                ctx.class("model_schema_rejected", &msg);
            }
        }
        Outcome::Panicked(sig) => {
            ctx.count("skipped_panic_other_property", 1);
            ctx.class("panic_skipped", &sig);
        }
        Outcome::Compared {
            violations,
            extra_checked,
        } => {
            ctx.count(&format!("schemas_compared[{path}]"), 1);
            if extra_checked {
                ctx.count("extra_root_clause_checked", 1);
            } else if extra.is_some() {
                ctx.count("extra_root_query_not_accepted", 1);
            }
            ctx.class("source", source);
            ctx.class("path", path);
            ctx.nontrivial_hash(fnv_str(sdl));
            let flat = RefIntrospection::merged(doc);
            coverage(ctx, doc, &flat);
            for (sig, msg) in violations {
                if ctx.violation_count() == 0 {
                    let (evals, used, shard) = (ctx.evals, ctx.used(), ctx.shard);
                    ctx.note("first_violation_in_shard", json!({"shard": shard, "after_evaluations": evals, "budget_fraction_used": used}));
                }
                // minimise on the model, keeping the signature
                // reduce only the first occurrence of a signature in this worker (reduction costs
                // hundreds of judge calls); later occurrences are counted with their own case
                let first = REDUCED.with(|r| r.borrow_mut().insert(sig.clone()));
                let (wsdl, wmsg) = if ctx.replay_mode || !first {
                    (sdl.to_string(), msg)
                } else {
                    let r = reduce(doc, extra, &sig, 400);
                    let s = print_plain(&r);
                    let m = match judge(&r, &s, extra) {
                        Outcome::Compared { violations, .. } => {
                            violations.into_iter().find(|(x, _)| *x == sig).map(|(_, m)| m).unwrap_or(msg)
                        }
                        _ => msg,
                    };
                    (s, m)
                };
                ctx.violation(
                    sig,
                    wmsg,
                    json!({"sdl": wsdl, "extra": extra.map(|x| x.to_json()), "source": source, "path": path,
                           "note": "witness reduced on the model (greedy, same signature) and re-printed"}),
                );
            }
            ctx.sample(|| json!({"source": source, "path": path, "sdl": clip(sdl, 400), "extra": extra.map(|x| x.to_json())}));
        }
    }
}

/// Parsed path: type-system part of a text, through apollo's AST and `doc_from_ast`.
fn parsed_doc(text: &str) -> Option<(Doc, bool)> {
    let ast = rt::catch(|| ast::Document::parse(text, "corpus.graphql").ok()).ok()??;
    let doc = doc_from_ast(&ast)?;
    let ts = doc.type_system();
    if ts.defs.is_empty() {
        return None;
    }
    let pure = ts.defs.len() == doc.defs.len();
    Some((ts, pure))
}

fn check_text(ctx: &mut Ctx, text: &str, source: &str, rng: &mut Rng) {
    let Some((doc, pure)) = parsed_doc(text) else {
        ctx.count(&format!("parsed_path_not_a_schema_document[{source}]"), 1);
        return;
    };
    // apollo-rs gets the original text when it is a pure type-system document, otherwise the
    // re-printed type-system part of the model
    let sdl = if pure { text.to_string() } else { print_plain(&doc) };
    let flat = RefIntrospection::merged(&doc);
    let extra = extra_for(&flat, rng);
    check_case(ctx, &doc, &sdl, extra.as_ref(), source, "parsed");
}

/// Keep the model inside the don't-care-free zone: `@specifiedBy` stays on the scalar definition
/// (graphql-js v16 reads it from the definition node only).
fn fixups(doc: &mut Doc) {
    let mut moved: Vec<(String, DirApp)> = Vec::new();
    for d in doc.defs.iter_mut() {
        if let Def::Type(t) = d {
            if t.ext && t.kind == Kind::Scalar {
                let mut keep = Vec::new();
                for a in t.dirs.drain(..) {
                    if a.name == "specifiedBy" {
                        moved.push((t.name.clone(), a));
                    } else {
                        keep.push(a);
                    }
                }
                t.dirs = keep;
            }
        }
    }
    for (name, app) in moved {
        for d in doc.defs.iter_mut() {
            if let Def::Type(t) = d {
                if !t.ext && t.name == name {
                    t.dirs.insert(0, app.clone());
                }
            }
        }
    }
    // an extension left without content is not valid SDL
    doc.defs.retain(|d| match d {
        Def::Type(t) if t.ext => {
            !(t.dirs.is_empty()
                && t.fields.is_empty()
                && t.values.is_empty()
                && t.input_fields.is_empty()
                && t.members.is_empty()
                && t.implements.is_empty())
        }
        _ => true,
    });
}

/// Move the last `implements` entry of one object/interface definition into a new extension
/// (`extend type T implements I`) placed anywhere: the merged list keeps its order (definition
/// first, then extensions), the schema stays valid.
fn implements_through_extension(doc: &mut Doc, rng: &mut Rng) {
    let cands: Vec<usize> = doc
        .defs
        .iter()
        .enumerate()
        .filter(|(_, d)| matches!(d, Def::Type(t) if !t.ext && !t.implements.is_empty()))
        .map(|(i, _)| i)
        .collect();
    if cands.is_empty() {
        return;
    }
    let i = *rng.pick(&cands);
    let name = match &doc.defs[i] {
        Def::Type(t) => t.name.clone(),
        _ => return,
    };
    // an existing extension of the same type that also declares interfaces would change the order
    if doc.defs.iter().any(|d| matches!(d, Def::Type(t) if t.ext && t.name == name && !t.implements.is_empty())) {
        return;
    }
    let Def::Type(t) = &mut doc.defs[i] else { return };
    let moved = t.implements.pop().unwrap();
    let mut ext = TypeDef::new(t.kind, &t.name);
    ext.ext = true;
    ext.implements.push(moved);
    let at = rng.below(doc.defs.len() + 1);
    doc.defs.insert(at, Def::Type(ext));
}

fn model_case(ctx: &mut Ctx, n: u64) {
    let mut rng = ctx.sub_rng("c24-model", n);
    let opts = SchemaOpts {
        max_each: *rng.pick(&[1usize, 2, 3, 3, 4, 5]),
        extensions: !rng.chance(1, 5),
        descriptions: !rng.chance(1, 6),
        directives: !rng.chance(1, 6),
        defaults: true,
        deprecations: true,
        renamed_roots: *rng.pick(&[0usize, 2, 5]),
        mutation: true,
        subscription: true,
        simple_defaults: true,
    };
    let mut doc = gen_schema(&mut rng, &opts);
    fixups(&mut doc);
    if rng.chance(1, 5) {
        implements_through_extension(&mut doc, &mut rng);
    }
    let trivia = rng.chance(1, 4);
    let sdl = if trivia { print_trivia(&doc, &mut rng) } else { print_plain(&doc) };
    let flat = RefIntrospection::merged(&doc);
    let extra = extra_for(&flat, &mut rng);
    check_case(ctx, &doc, &sdl, extra.as_ref(), if trivia { "model_trivia" } else { "model_plain" }, "model");
}

fn smith_case(ctx: &mut Ctx, n: u64) {
    use apollo_smith::DocumentBuilder;
    use arbitrary::Unstructured;
    let mut rng = ctx.sub_rng("c24-smith", n);
    let len = *rng.pick(&[512usize, 2048, 8192]);
    let bytes = rng.bytes(len);
    let max = rng.range(1, 4);
    let text = rt::catch(|| {
        let mut u = Unstructured::new(&bytes);
        DocumentBuilder::new(&mut u)
            .max_scalar_types(max)
            .max_enum_types(max)
            .max_interface_types(max)
            .max_object_types(max)
            .max_union_types(max)
            .max_input_object_types(max)
            .max_fragment_definitions(1)
            .max_directive_definitions(max)
            .max_operation_definitions(1)
            .build()
            .ok()
            .map(String::from)
    });
    match text {
        Ok(Some(t)) => check_text(ctx, &t, "smith", &mut rng),
        Ok(None) => ctx.count("smith_input_exhausted", 1),
        Err(_) => ctx.count("smith_panicked_skipped", 1),
    }
}

/// Hand-written schemas that exercise every clause on the parsed path (calibration set; the first
/// is the schema of apollo-compiler's own introspection test without its `@deprecated(reason: null)`
/// uses, which are outside the envelope).
pub const FIXED_SCHEMAS: &[&str] = &[
    r#"
    "The schema"
    schema { query: TheQuery }
    """
    Root query type
    """
    type TheQuery implements I {
      id: ID!
      ints: [[Int!]]! @deprecated(reason: "…")
      url(arg: In = { a: 2, b: 4 }): Url
      union: U @deprecated
    }
    interface I { id: ID! }
    input In { a: Int! b: Int @deprecated }
    scalar Url @specifiedBy(url: "https://url.spec.whatwg.org/")
    union U = TheQuery | T
    type T { enum: E @deprecated }
    enum E { NEW OLD @deprecated }
    "#,
    r#"
    type Query { node(id: ID! = "n1", first: Int = 10, ratio: Float = 0.5, ok: Boolean = true, s: String = "x y", e: E = B, l: [Int!] = [1, 2], n: In = null): Node }
    interface Node { id: ID! }
    interface Named implements Node { id: ID! name: String }
    type A implements Node & Named { id: ID! name: String }
    type B implements Node { id: ID! }
    extend type B implements Named { name: String }
    enum E { A B }
    input In { a: [[In!]] = [[]] b: E = A @deprecated(reason: "no") }
    union AB = A
    extend union AB = B
    directive @rep(x: In = {a: [], b: B}) repeatable on FIELD | OBJECT
    directive @once(old: Int @deprecated) on FIELD_DEFINITION
    "#,
];

pub fn run(ctx: &mut Ctx) {
    // Phase 0: fixed schemas and corpora through the parsed path.
    let files = corpus::all();
    let wanted = [
        "compiler_ok",
        "compiler_ser",
        "compiler_introspection",
        "examples_compiler",
        "examples_compiler_docs",
        "examples_smith",
        "examples_parser",
        "parser_ok",
    ];
    let mut idx = 0u64;
    for (i, t) in FIXED_SCHEMAS.iter().enumerate() {
        idx += 1;
        if ctx.mine(idx) {
            let mut rng = ctx.sub_rng("c24-fixed", i as u64);
            check_text(ctx, t, "fixed", &mut rng);
        }
    }
    for f in files.iter().filter(|f| wanted.contains(&f.group)) {
        idx += 1;
        if !ctx.mine(idx) {
            continue;
        }
        if f.text.len() > 200_000 {
            continue;
        }
        let mut rng = ctx.sub_rng("c24-corpus", idx);
        check_text(ctx, &f.text, "corpus", &mut rng);
    }
    // Phase 1: model path and apollo-smith, interleaved 3:1 until the budget is used.
    let mut n = 0u64;
    while !ctx.time_up() {
        n += 1;
        if n % 4 == 0 {
            smith_case(ctx, n);
        } else {
            model_case(ctx, n);
        }
    }
}

pub fn replay(ctx: &mut Ctx, case: &Value) {
    let Some(sdl) = case.get("sdl").and_then(|s| s.as_str()) else {
        return;
    };
    let extra = case.get("extra").and_then(Extra::from_json);
    match parsed_doc(sdl) {
        Some((doc, _)) => check_case(ctx, &doc, sdl, extra.as_ref(), "replay", "parsed"),
        None => ctx.inconclusive("replay text is not a type-system document apollo-rs parses", case.clone()),
    }
}
