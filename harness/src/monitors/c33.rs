//! C33 — apollo-smith `ResponseBuilder`: generated responses match the operation's shape.
//!
//! Precondition (filter, rate reported): every abstract type the operation can reach has at least
//! one possible object type; the operation has no `@skip/@include` (generated with
//! `skip_include: false`).
//!
//! Oracles:
//!  * SHAPE CHECKER (harness, over the model schema and `RefExecutor::collect_fields`): for some
//!    possible concrete type of every object position, keys = response keys of `CollectFields` in
//!    order; `__typename` = that concrete type; no `null` at non-null positions; list nesting equal
//!    to the field type's; enum values defined; built-in scalars of the right JSON kind.
//!  * RE-EXECUTION (second witness, only when the shape holds): apollo's `execute_sync` with
//!    resolvers serving exactly that data reproduces it without errors.
//!
//! Signature: (oracle, JSON path class with names masked, kind of difference); the list-nesting
//! kind carries no path class so that the known defect (one level of lists only) has ONE signature.

use crate::gen::exec_gen::{gen_executable, ExecOpts};
use crate::gen::from_ast::doc_from_ast;
use crate::gen::model::*;
use crate::gen::schema_gen::{gen_schema, valid_const};
use crate::monitors::execkit::*;
use crate::prng::{fnv64, Rng};
use crate::refmodel::executor::*;
use crate::rt::{self, clip, Ctx};
use apollo_compiler::resolvers::{Execution, FieldError, ObjectValue, ResolveInfo, ResolvedValue};
use apollo_smith::{RandomProvider, ResponseBuilder, ResponseError};
use serde_json::{json, Map, Value as J};

// ---------------------------------------------------------------------------------------------
// Randomness sources (harness implementations of the public `RandomProvider` trait)
// ---------------------------------------------------------------------------------------------

const ALNUM: &[u8] = b"ABCDEFGHIJKLMNOPQRSTUVWXYZabcdefghijklmnopqrstuvwxyz0123456789";

pub enum Source {
    Seeded(Rng),
    Min,
    Max,
    /// alternates between the smallest and the largest answer on every call
    Alternating(bool),
}

impl Source {
    /// 0 = min, 1 = max, for the next call
    fn pick<T>(&mut self, lo: T, hi: T, mid: impl FnOnce(&mut Rng) -> T) -> T {
        match self {
            Source::Seeded(r) => mid(r),
            Source::Min => lo,
            Source::Max => hi,
            Source::Alternating(b) => {
                *b = !*b;
                if *b {
                    lo
                } else {
                    hi
                }
            }
        }
    }
}

impl RandomProvider for Source {
    fn gen_bool(&mut self) -> Result<bool, ResponseError> {
        Ok(self.pick(false, true, |r| r.bool()))
    }
    fn gen_i32_range(&mut self, min: i32, max: i32) -> Result<i32, ResponseError> {
        Ok(self.pick(min, max, |r| {
            let span = (max as i64 - min as i64 + 1) as u64;
            (min as i64 + (r.next_u64() % span) as i64) as i32
        }))
    }
    fn gen_usize_range(&mut self, min: usize, max: usize) -> Result<usize, ResponseError> {
        Ok(self.pick(min, max, |r| r.range(min, max.max(min))))
    }
    fn gen_f64_range(&mut self, min: f64, max: f64) -> Result<f64, ResponseError> {
        Ok(self.pick(min, max, |r| min + r.f64_unit() * (max - min)))
    }
    fn gen_alphanumeric_char(&mut self) -> Result<char, ResponseError> {
        Ok(self.pick('A', '9', |r| ALNUM[r.below(ALNUM.len())] as char))
    }
    fn choose_index(&mut self, len: usize) -> Result<usize, ResponseError> {
        if len == 0 {
            return Err(ResponseError::EmptyChoose);
        }
        Ok(self.pick(0, len - 1, |r| r.below(len)))
    }
    fn ratio(&mut self, numerator: u32, denominator: u32) -> Result<bool, ResponseError> {
        Ok(self.pick(false, true, |r| r.chance(numerator as usize, denominator.max(1) as usize)))
    }
}

pub const SOURCES: &[&str] = &["seeded", "min", "max", "alternating", "unstructured", "unstructured-empty"];
pub const NULL_RATIOS: &[Option<(u32, u32)>] = &[None, Some((1, 10)), Some((1, 2)), Some((1, 1))];
pub const LIST_BOUNDS: &[(usize, usize)] = &[(0, 0), (0, 1), (1, 3), (5, 5)];

#[derive(Clone, Debug)]
pub struct Config {
    pub source: String,
    pub seed: u64,
    pub null_ratio: Option<(u32, u32)>,
    pub list: (usize, usize),
}

impl Config {
    fn to_json(&self) -> J {
        json!({"source": self.source, "seed": self.seed, "null_ratio": self.null_ratio.map(|(a, b)| vec![a, b]), "list_bounds": [self.list.0, self.list.1]})
    }
    fn from_json(v: &J) -> Option<Config> {
        Some(Config {
            source: v.get("source")?.as_str()?.to_string(),
            seed: v.get("seed")?.as_u64()?,
            null_ratio: v.get("null_ratio").and_then(|x| x.as_array()).map(|a| (a[0].as_u64().unwrap_or(1) as u32, a[1].as_u64().unwrap_or(1) as u32)),
            list: {
                let a = v.get("list_bounds")?.as_array()?;
                (a[0].as_u64()? as usize, a[1].as_u64()? as usize)
            },
        })
    }
}

/// Run the builder. `Ok(None)`: the builder returned a `ResponseError` (not a shape).
fn build_response(sc: &SchemaCase, ec: &ExecCase, op_name: Option<&str>, cfg: &Config) -> Result<Result<J, String>, rt::PanicReport> {
    rt::catch(|| {
        macro_rules! go {
            ($rng:expr) => {{
                let mut b = ResponseBuilder::new($rng, &ec.exec, &sc.schema)
                    .with_min_list_size(cfg.list.0)
                    .with_max_list_size(cfg.list.1)
                    .with_operation_name(op_name);
                if let Some((n, d)) = cfg.null_ratio {
                    b = b.with_null_ratio(n, d);
                }
                b.build().map(|v| bytes_to_j(&v)).map_err(|e| e.to_string())
            }};
        }
        match cfg.source.as_str() {
            "seeded" | "min" | "max" | "alternating" => {
                let mut src = match cfg.source.as_str() {
                    "seeded" => Source::Seeded(Rng::new(cfg.seed)),
                    "min" => Source::Min,
                    "max" => Source::Max,
                    _ => Source::Alternating(cfg.seed & 1 == 1),
                };
                go!(&mut src)
            }
            "unstructured-empty" => {
                let mut u = arbitrary::Unstructured::new(&[]);
                go!(&mut u)
            }
            _ => {
                let bytes = Rng::new(cfg.seed).bytes(if cfg.seed % 3 == 0 { 64 } else { 4096 });
                let mut u = arbitrary::Unstructured::new(&bytes);
                go!(&mut u)
            }
        }
    })
}

// ---------------------------------------------------------------------------------------------
// Shape checker
// ---------------------------------------------------------------------------------------------

/// The response annotated with the concrete type chosen for every object position.
#[derive(Clone, Debug)]
pub enum Typed {
    Null,
    Leaf(J),
    List(Vec<Typed>),
    Obj { type_name: String, fields: Vec<(String, Typed)> },
}

#[derive(Clone, Debug)]
pub struct ShapeViolation {
    pub path: Path,
    pub kind: &'static str,
    pub detail: String,
    /// how far the candidate got (to pick the most informative violation among candidates)
    depth: usize,
    /// for `null-at-non-null-position`: the field's declaration in the static parent type of the
    /// selection (e.g. the interface) is nullable, only the concrete type's declaration is non-null
    pub static_declaration_nullable: bool,
}

struct Shape<'a> {
    /// DIAGNOSIS ONLY: take field types from the declaration in the selection's static parent
    /// type (what the builder consults) instead of the chosen concrete type's declaration.
    static_mode: bool,
    ex: RefExecutor<'a>,
    depths_seen: Vec<usize>,
    abstract_resolved: usize,
}

fn json_kind(v: &J) -> &'static str {
    match v {
        J::Null => "null",
        J::Bool(_) => "boolean",
        J::Number(n) if n.is_f64() => "float",
        J::Number(_) => "integer",
        J::String(_) => "string",
        J::Array(_) => "list",
        J::Object(_) => "object",
    }
}

impl<'a> Shape<'a> {
    fn viol(&self, path: &Path, kind: &'static str, detail: String) -> ShapeViolation {
        ShapeViolation {
            path: path.clone(),
            kind,
            detail,
            depth: path.len(),
            static_declaration_nullable: false,
        }
    }

    fn object(&mut self, static_type: &str, sels: &[SSel<'a>], v: &Map<String, J>, path: &Path) -> Result<Typed, ShapeViolation> {
        let flat = self.ex.schema;
        let candidates: Vec<String> = if flat.kind(static_type) == Some(Kind::Object) { vec![static_type.to_string()] } else { flat.possible_types(static_type) };
        if flat.kind(static_type) != Some(Kind::Object) {
            self.abstract_resolved += 1;
        }
        let mut best: Option<ShapeViolation> = None;
        for t in &candidates {
            match self.object_as(t, sels, v, path) {
                Ok(x) => return Ok(x),
                Err(e) => {
                    // the most informative violation among the candidates: one found inside an
                    // object whose keys and `__typename` fit beats a key mismatch, which beats a
                    // `__typename` mismatch; then the deeper one
                    let rank = |v: &ShapeViolation| -> (usize, usize) {
                        let r = match v.kind {
                            "typename-not-the-concrete-type" => 0,
                            "missing-response-key" | "extra-response-key" | "response-key-order" => 1,
                            _ => 2,
                        };
                        (r, v.depth)
                    };
                    if best.as_ref().map(|b| rank(&e) > rank(b)).unwrap_or(true) {
                        best = Some(e);
                    }
                }
            }
        }
        Err(best.unwrap_or_else(|| self.viol(path, "no-possible-type", format!("abstract type {static_type} has no possible object type"))))
    }

    fn object_as(&mut self, t: &str, sels: &[SSel<'a>], v: &Map<String, J>, path: &Path) -> Result<Typed, ShapeViolation> {
        let groups = self.ex.collect_fields(t, sels);
        let want: Vec<&String> = groups.iter().map(|(k, _)| k).collect();
        let got: Vec<&String> = v.keys().collect();
        if want != got {
            let (kind, detail) = if let Some(k) = want.iter().find(|k| !v.contains_key(k.as_str())) {
                ("missing-response-key", format!("response key {k:?} of CollectFields for {t} is missing"))
            } else if let Some(k) = got.iter().find(|k| !want.contains(k)) {
                ("extra-response-key", format!("key {k:?} is not a response key of CollectFields for {t}"))
            } else {
                ("response-key-order", "same keys, different order".to_string())
            };
            return Err(self.viol(path, kind, format!("{detail}; got {got:?}, CollectFields({t}) gives {want:?}")));
        }
        let mut fields = Vec::with_capacity(groups.len());
        for (key, fs) in groups {
            let Sel::Field { name, .. } = fs[0].0 else { continue };
            let mut p = path.clone();
            p.push(Seg::Key(key.clone()));
            let val = &v[&key];
            if name == "__typename" {
                if val.as_str() != Some(t) {
                    return Err(self.viol(&p, "typename-not-the-concrete-type", format!("__typename is {val}, the object's keys are those of {t}")));
                }
                fields.push((key, Typed::Leaf(val.clone())));
                continue;
            }
            let declared = if self.static_mode { self.ex.field_type(fs[0].1, name).or_else(|| self.ex.field_type(t, name)) } else { self.ex.field_type(t, name) };
            let Some(ty) = declared else {
                return Err(self.viol(&p, "unknown-field", format!("{t}.{name} is not defined")));
            };
            if !val.is_null() {
                self.depths_seen.push(ty.list_depth());
            }
            let typed = match self.value(&ty, &fs, val, &p, 0, ty.list_depth()) {
                Ok(t) => t,
                Err(mut e) => {
                    if e.kind == "null-at-non-null-position" && e.path == p {
                        let static_ty = self.ex.field_type(fs[0].1, name);
                        e.static_declaration_nullable = static_ty.map(|t| !t.is_non_null()).unwrap_or(false);
                        if e.static_declaration_nullable {
                            e.detail = format!("{} ({}.{} is declared {}, but the selection's static parent type {} declares it nullable)", e.detail, t, name, ty.print(), fs[0].1);
                        }
                    }
                    return Err(e);
                }
            };
            fields.push((key, typed));
        }
        Ok(Typed::Obj {
            type_name: t.to_string(),
            fields,
        })
    }

    fn value(&mut self, ty: &TyRef, fields: &[SSel<'a>], v: &J, path: &Path, level: usize, depth: usize) -> Result<Typed, ShapeViolation> {
        if v.is_null() {
            if ty.is_non_null() {
                return Err(self.viol(path, "null-at-non-null-position", format!("null where the type is {}", ty.print())));
            }
            return Ok(Typed::Null);
        }
        match ty.nullable() {
            TyRef::List(item) => {
                let J::Array(xs) = v else {
                    return Err(self.viol(
                        path,
                        "list-nesting-too-shallow",
                        format!("the field type nests lists {depth} deep, the value is a {} at list level {level}", json_kind(v)),
                    ));
                };
                let mut out = Vec::with_capacity(xs.len());
                for (i, x) in xs.iter().enumerate() {
                    let mut p = path.clone();
                    p.push(Seg::Idx(i));
                    out.push(self.value(&item, fields, x, &p, level + 1, depth)?);
                }
                Ok(Typed::List(out))
            }
            TyRef::Named(n) => {
                let flat = self.ex.schema;
                match flat.kind(&n) {
                    Some(Kind::Object) | Some(Kind::Interface) | Some(Kind::Union) => match v {
                        J::Object(m) => {
                            let sub = self.ex.merged_sub_selections(fields);
                            self.object(&n, &sub, m, path)
                        }
                        J::Array(_) => Err(self.viol(path, "list-nesting-too-deep", format!("a list at list level {level} where the field type nests lists {depth} deep"))),
                        _ => Err(self.viol(path, "leaf-where-object", format!("{} where an object of {n} is expected", json_kind(v)))),
                    },
                    Some(Kind::Enum) => {
                        let ok = v.as_str().map(|s| flat.ty(&n).map(|t| t.values.iter().any(|e| e.name == s)).unwrap_or(false)).unwrap_or(false);
                        if ok {
                            Ok(Typed::Leaf(v.clone()))
                        } else if v.is_array() {
                            Err(self.viol(path, "list-nesting-too-deep", format!("a list at list level {level} where the field type nests lists {depth} deep")))
                        } else {
                            Err(self.viol(path, "enum-value-undefined", format!("{v} is not a value of enum {n}")))
                        }
                    }
                    _ => {
                        let ok = match n.as_str() {
                            "Int" => matches!(v, J::Number(x) if !x.is_f64() && x.as_i64().map(|i| i32::try_from(i).is_ok()).unwrap_or(false)),
                            "Float" => v.is_number(),
                            "String" => v.is_string(),
                            "Boolean" => v.is_boolean(),
                            "ID" => v.is_string() || matches!(v, J::Number(x) if x.is_i64()),
                            _ => true,
                        };
                        if ok {
                            Ok(Typed::Leaf(v.clone()))
                        } else if v.is_array() && is_builtin(&n) {
                            Err(self.viol(path, "list-nesting-too-deep", format!("a list at list level {level} where the field type nests lists {depth} deep")))
                        } else {
                            Err(self.viol(path, "scalar-of-wrong-json-kind", format!("{} for built-in scalar {n}", json_kind(v))))
                        }
                    }
                }
            }
            TyRef::NonNull(_) => unreachable!(),
        }
    }
}

fn is_builtin(n: &str) -> bool {
    BUILTIN_SCALARS.contains(&n)
}

// ---------------------------------------------------------------------------------------------
// Re-execution: resolvers serving exactly the generated data
// ---------------------------------------------------------------------------------------------

struct DataObj<'t> {
    type_name: &'t str,
    fields: &'t [(String, Typed)],
}

fn typed_resolved<'t>(t: &'t Typed) -> ResolvedValue<'t> {
    match t {
        Typed::Null => ResolvedValue::null(),
        Typed::Leaf(v) => ResolvedValue::Leaf(j_to_bytes(v)),
        Typed::List(xs) => ResolvedValue::list(xs.iter().map(typed_resolved)),
        Typed::Obj { type_name, fields } => ResolvedValue::object(DataObj { type_name, fields }),
    }
}

impl<'t> ObjectValue for DataObj<'t> {
    fn type_name(&self) -> &str {
        self.type_name
    }
    fn resolve_field<'a>(&'a self, info: &'a ResolveInfo<'a>) -> Result<ResolvedValue<'a>, FieldError> {
        let key = info.field_selections()[0].response_key().as_str();
        match self.fields.iter().find(|(k, _)| k == key) {
            Some((_, t)) => Ok(typed_resolved(t)),
            None => Err(FieldError {
                message: format!("no data for response key {key}"),
            }),
        }
    }
}

/// Variables for re-execution: every variable gets a non-null valid value, so that argument
/// coercion cannot raise field errors of its own.
fn total_variables(rng: &mut Rng, flat: &FlatSchema, op: &OpDef) -> Map<String, J> {
    let mut m = Map::new();
    for v in &op.vars {
        let val = valid_const(rng, flat, &v.ty.clone().non_null(), 2, false);
        m.insert(v.name.clone(), val_to_json(&val));
    }
    m
}

// ---------------------------------------------------------------------------------------------
// Precondition and workload
// ---------------------------------------------------------------------------------------------

/// Every abstract type the operation can reach has at least one possible object type.
fn abstract_types_inhabited(flat: &FlatSchema, doc: &Doc, op: &OpDef) -> bool {
    fn go(flat: &FlatSchema, doc: &Doc, sels: &[Sel], parent: &str, depth: usize) -> bool {
        if depth > 24 {
            return true;
        }
        for s in sels {
            match s {
                Sel::Field { name, sels, .. } => {
                    if name.starts_with("__") || sels.is_empty() {
                        continue;
                    }
                    // the field may be declared by the parent or, for an abstract parent, by it too
                    let Some(fd) = flat.field(parent, name) else { continue };
                    let inner = fd.ty.inner_name().to_string();
                    if flat.is_composite(&inner) {
                        if flat.possible_types(&inner).is_empty() {
                            return false;
                        }
                        if !go(flat, doc, sels, &inner, depth + 1) {
                            return false;
                        }
                        // narrowed declarations on the possible types
                        for t in flat.possible_types(&inner) {
                            if !go(flat, doc, sels, &t, depth + 1) {
                                return false;
                            }
                        }
                    }
                }
                Sel::Spread { name, .. } => {
                    if let Some(f) = doc.frag(name) {
                        if !go(flat, doc, &f.sels, &f.on, depth + 1) {
                            return false;
                        }
                    }
                }
                Sel::Inline { on, sels, .. } => {
                    let p = on.clone().unwrap_or_else(|| parent.to_string());
                    if !go(flat, doc, sels, &p, depth + 1) {
                        return false;
                    }
                }
            }
        }
        true
    }
    match flat.root(&op.kind) {
        Some(root) => go(flat, doc, &op.sels, root, 0),
        None => false,
    }
}

/// Quota: rewrite the types of about a third of the output fields (all declarations of one field
/// name together, so that interface implementations stay covariant) to list depth 2 or 3.
/// Upper bound on the number of JSON nodes a response can have when every list has `max_len`
/// items: list nesting multiplies, so `[[[T]]]` fields nested in each other explode. Used to skip
/// (and count) configurations whose honest cost would be seconds, never as a verdict.
fn worst_case_nodes(flat: &FlatSchema, doc: &Doc, sels: &[Sel], parent: &str, max_len: f64, depth: usize) -> f64 {
    if depth > 24 {
        return 1e12;
    }
    let mut total = 0.0;
    for s in sels {
        match s {
            Sel::Field { name, sels, .. } => {
                let Some(f) = flat.field(parent, name) else {
                    total += 1.0;
                    continue;
                };
                let mult = max_len.powi(f.ty.list_depth() as i32);
                let inner = worst_case_nodes(flat, doc, sels, f.ty.inner_name(), max_len, depth + 1);
                total += mult * (1.0 + inner);
            }
            Sel::Inline { on, sels, .. } => {
                total += worst_case_nodes(flat, doc, sels, on.as_deref().unwrap_or(parent), max_len, depth + 1);
            }
            Sel::Spread { name, .. } => {
                if let Some(fr) = doc.frag(name) {
                    total += worst_case_nodes(flat, doc, &fr.sels, &fr.on, max_len, depth + 1);
                }
            }
        }
        if total > 1e12 {
            return total;
        }
    }
    total
}

fn force_nested_lists(rng: &mut Rng, doc: &mut Doc) -> usize {
    let mut names: Vec<String> = Vec::new();
    for d in &doc.defs {
        if let Def::Type(t) = d {
            if matches!(t.kind, Kind::Object | Kind::Interface) {
                for f in &t.fields {
                    if !names.contains(&f.name) {
                        names.push(f.name.clone());
                    }
                }
            }
        }
    }
    names.sort();
    let mut changed = 0;
    for n in names {
        if !rng.chance(1, 3) {
            continue;
        }
        let depth = rng.range(2, 3);
        let flags: Vec<bool> = (0..=depth).map(|_| rng.chance(1, 3)).collect();
        for d in doc.defs.iter_mut() {
            if let Def::Type(t) = d {
                if matches!(t.kind, Kind::Object | Kind::Interface) {
                    for f in t.fields.iter_mut().filter(|f| f.name == n) {
                        let mut ty = TyRef::named(f.ty.inner_name());
                        if flags[0] {
                            ty = ty.non_null();
                        }
                        for l in 0..depth {
                            ty = ty.list();
                            if flags[l + 1] {
                                ty = ty.non_null();
                            }
                        }
                        f.ty = ty;
                    }
                }
            }
        }
        changed += 1;
    }
    changed
}

pub struct Case<'a> {
    pub sc: &'a SchemaCase,
    pub ec: &'a ExecCase,
    pub op: &'a OpDef,
    pub cfg: Config,
    pub vars: Map<String, J>,
}

impl<'a> Case<'a> {
    fn to_json(&self) -> J {
        json!({"schema": self.sc.text, "exec": self.ec.text, "op": self.op.name, "config": self.cfg.to_json(), "variables": J::Object(self.vars.clone())})
    }
}

pub const SIG_STATIC_DECLARATION: &str = "shape|static-field-declaration|shape fits the field types declared by the selections' static parent types, not the chosen concrete types' (non-null or narrowed) declarations";
pub const SIG_LIST_NESTING: &str = "shape|list-nesting-too-shallow|a field whose type nests lists gets a flat list";

pub fn check_case(ctx: &mut Ctx, c: &Case) {
    ctx.eval();
    let built = match build_response(c.sc, c.ec, c.op.name.as_deref(), &c.cfg) {
        Err(p) => {
            mark_violation_time(ctx);
            ctx.violation(
                p.signature("ResponseBuilder::build"),
                format!("ResponseBuilder::build panicked: {} at {}:{}", p.message, p.file, p.line),
                c.to_json(),
            );
            return;
        }
        Ok(Err(e)) => {
            // a `ResponseError` is an answer of the randomness source, not a response
            ctx.count("builder_returned_response_error", 1);
            ctx.class("builder_result", &format!("error: {}", rt::mask_message(&e)));
            return;
        }
        Ok(Ok(v)) => v,
    };
    ctx.class("builder_result", "response");
    ctx.class("source", &c.cfg.source);
    ctx.class("null_ratio", &format!("{:?}", c.cfg.null_ratio));
    ctx.class("list_bounds", &format!("{}..{}", c.cfg.list.0, c.cfg.list.1));
    let data = built.get("data").cloned().unwrap_or(J::Null);
    let J::Object(data) = data else {
        mark_violation_time(ctx);
        ctx.violation(
            "shape|$|data-is-not-an-object",
            format!("build() returned data = {} for an existing operation", clip(&data.to_string(), 80)),
            c.to_json(),
        );
        return;
    };
    // distinct (schema, operation) pairs for which the builder returned data; the configurations
    // (source x null ratio x list bounds) run on each pair are counted in `evaluations`
    ctx.nontrivial_hash(fnv64(format!("{}\u{0}{}\u{0}{:?}", c.sc.text, c.ec.text, c.op.name).as_bytes()));
    let empty_vars = Map::new();
    let empty_world = World::default();
    let ex = RefExecutor::new(&c.sc.flat, &c.ec.doc, &empty_vars, &empty_world, true);
    let root = c.sc.flat.root(&c.op.kind).unwrap_or("").to_string();
    let root_sels = ex.root_sels(c.op);
    let mut shape = Shape {
        static_mode: false,
        ex,
        depths_seen: vec![],
        abstract_resolved: 0,
    };
    let res = shape.object(&root, &root_sels, &data, &vec![]);
    for d in &shape.depths_seen {
        ctx.class("list_depth_of_checked_field", &d.to_string());
    }
    ctx.count("abstract_positions_resolved", shape.abstract_resolved as u64);
    ctx.sample(|| json!({"exec": clip(&c.ec.text, 300), "config": c.cfg.to_json(), "data": clip(&J::Object(data.clone()).to_string(), 400)}));

    // second witness, run in both cases; reported on its own only when the shape holds
    let reexec = |typed: &Typed| -> Result<Option<String>, rt::PanicReport> {
        let Typed::Obj { type_name, fields } = typed else { return Ok(None) };
        let coerced = match coerce_vars(c.sc, c.ec, c.op.name.as_deref(), &c.vars) {
            Ok(v) => v,
            Err(_) => return Ok(Some("__variables".into())),
        };
        let rootv = DataObj { type_name, fields };
        let resp = rt::catch(|| {
            Execution::new(&c.sc.schema, &c.ec.exec)
                .operation_name(c.op.name.as_deref())
                .map_err(|e| e.message().to_string())
                .and_then(|e| e.coerced_variable_values(&coerced).execute_sync(&rootv).map_err(|e| e.message().to_string()))
        })?;
        Ok(match resp {
            Err(m) => Some(format!("request error: {m}")),
            Ok(r) => {
                if !r.errors.is_empty() {
                    let p = apollo_path(&r.errors[0].path);
                    Some(format!("errors|{}|{}", path_class(&p), r.errors[0].message))
                } else {
                    let got = r.data.as_ref().map(bytes_map_to_j).map(J::Object).unwrap_or(J::Null);
                    diff_ordered(&got, &J::Object(data.clone()), &vec![]).map(|d| format!("data|{}|{}: {}", path_class(&d.path), d.kind, d.detail))
                }
            }
        })
    };
    match res {
        Err(v) => {
            ctx.class("shape_verdict", "violated");
            // classification by root cause (each run of the checker below is diagnosis only)
            let sig = if v.kind == "list-nesting-too-shallow" {
                SIG_LIST_NESTING.to_string()
            } else {
                let ex2 = RefExecutor::new(&c.sc.flat, &c.ec.doc, &empty_vars, &empty_world, true);
                let sels2 = ex2.root_sels(c.op);
                let mut st = Shape {
                    static_mode: true,
                    ex: ex2,
                    depths_seen: vec![],
                    abstract_resolved: 0,
                };
                match st.object(&root, &sels2, &data, &vec![]) {
                    Ok(_) => SIG_STATIC_DECLARATION.to_string(),
                    Err(e) if e.kind == "list-nesting-too-shallow" => SIG_LIST_NESTING.to_string(),
                    Err(_) => format!("shape|{}|{}", path_class(&v.path), v.kind),
                }
            };
            mark_violation_time(ctx);
            ctx.violation(sig, format!("shape violated at {}: {}", path_to_json(&v.path), v.detail), c.to_json());
        }
        Ok(typed) => {
            ctx.class("shape_verdict", "holds");
            match reexec(&typed) {
                Err(p) => {
                mark_violation_time(ctx);
                ctx.violation(
                    p.signature("execute_sync(re-execution)"),
                    format!("re-execution panicked: {} at {}:{}", p.message, p.file, p.line),
                    c.to_json(),
                );
            },
                Ok(None) => {
                    ctx.count("reexecutions_reproducing_the_data", 1);
                    ctx.class("reexecution", "reproduced");
                }
                Ok(Some(m)) if m == "__variables" => ctx.count("reexecution_skipped_variables_rejected", 1),
                Ok(Some(m)) => {
                    let mut parts = m.splitn(3, '|');
                    let (a, b) = (parts.next().unwrap_or(""), parts.next().unwrap_or(""));
                    mark_violation_time(ctx);
                    ctx.violation(
                        format!("reexecution|{}|{}", b, a),
                        format!("execute_sync over resolvers serving the generated data does not reproduce it: {m}"),
                        c.to_json(),
                    );
                }
            }
        }
    }
}

pub fn exec_opts_c33(rng: &mut Rng) -> ExecOpts {
    ExecOpts {
        max_depth: rng.range(1, 3),
        max_fields: rng.range(2, 3),
        skip_include: false,
        subscriptions: false,
        max_ops: 2,
        ..ExecOpts::default()
    }
}

/// The minimal witness of the known defect (DESIGN §3 row 16), checked at the start of every run.
pub const WITNESS_SCHEMA: &str = "type Query { f: [[Int!]] }";
pub const WITNESS_EXEC: &str = "{ f }";
/// Minimal witness of the static-declaration finding: `a` is nullable in `I`, non-null in `T`.
pub const WITNESS2_SCHEMA: &str = "interface I { a: Int } type T implements I { a: Int! } type Query { i: I! }";
pub const WITNESS2_EXEC: &str = "{ i { a } }";

fn check_texts(ctx: &mut Ctx, schema: &str, exec: &str, op_name: Option<&str>, cfg: Config, vars: Map<String, J>) -> Result<(), String> {
    let sast = apollo_compiler::ast::Document::parse(schema, "schema.graphql").map_err(|e| e.errors.to_string())?;
    let sc = build_schema(doc_from_ast(&sast).ok_or("schema not representable")?)?;
    let east = apollo_compiler::ast::Document::parse(exec, "op.graphql").map_err(|e| e.errors.to_string())?;
    let ec = build_exec(&sc, doc_from_ast(&east).ok_or("operation not representable")?)?;
    let op = ec.doc.ops().find(|o| o.name.as_deref() == op_name).ok_or("operation not found")?;
    check_case(
        ctx,
        &Case {
            sc: &sc,
            ec: &ec,
            op,
            cfg,
            vars,
        },
    );
    Ok(())
}

pub fn run(ctx: &mut Ctx) {
    if ctx.shard == 0 {
        let cfg = Config {
            source: "min".into(),
            seed: 0,
            null_ratio: None,
            list: (1, 3),
        };
        if let Err(e) = check_texts(ctx, WITNESS_SCHEMA, WITNESS_EXEC, None, cfg, Map::new()) {
            ctx.inconclusive(&format!("witness: {e}"), json!({"schema": WITNESS_SCHEMA}));
        }
        ctx.class("workload", "minimal-witness-of-nested-list-defect");
        let cfg = Config {
            source: "max".into(),
            seed: 0,
            null_ratio: Some((1, 1)),
            list: (1, 3),
        };
        if let Err(e) = check_texts(ctx, WITNESS2_SCHEMA, WITNESS2_EXEC, None, cfg, Map::new()) {
            ctx.inconclusive(&format!("witness: {e}"), json!({"schema": WITNESS2_SCHEMA}));
        }
        ctx.class("workload", "minimal-witness-of-static-declaration-finding");
    }
    let mut n = 0u64;
    while !ctx.time_up() {
        n += 1;
        let mut rng = ctx.sub_rng("c33", n);
        let mut doc = gen_schema(&mut rng, &exec_schema_opts());
        let plain = doc.clone();
        let nested = force_nested_lists(&mut rng, &mut doc);
        let sc = match build_schema(doc) {
            Ok(s) => s,
            Err(_) => {
                ctx.count("nested_list_rewrite_rejected_falling_back", 1);
                match build_schema(plain) {
                    Ok(s) => s,
                    Err(_) => {
                        ctx.count("filtered_schema_rejected_by_apollo", 1);
                        continue;
                    }
                }
            }
        };
        ctx.count("schemas", 1);
        ctx.count("fields_rewritten_to_nested_lists", nested as u64);
        for _ in 0..5 {
            if ctx.time_up() {
                return;
            }
            let opts = exec_opts_c33(&mut rng);
            let ec = match build_exec(&sc, gen_executable(&mut rng, &sc.flat, &opts)) {
                Ok(e) => e,
                Err(_) => {
                    ctx.count("filtered_operation_rejected_by_apollo", 1);
                    continue;
                }
            };
            if has_skip_include(&ec.doc) {
                ctx.count("filtered_skip_include", 1);
                continue;
            }
            for op in ec.doc.ops() {
                ctx.count("pairs_generated", 1);
                if !abstract_types_inhabited(&sc.flat, &ec.doc, op) {
                    ctx.count("filtered_by_precondition_uninhabited_abstract_type", 1);
                    continue;
                }
                ctx.count("pairs_satisfying_precondition", 1);
                let vars = total_variables(&mut rng, &sc.flat, op);
                // every source × null ratio × list bound once, with fresh seeds
                for (si, src) in SOURCES.iter().enumerate() {
                    if ctx.time_up() {
                        return;
                    }
                    for (ni, nr) in NULL_RATIOS.iter().enumerate() {
                        for (li, lb) in LIST_BOUNDS.iter().enumerate() {
                            // thin the deterministic sources: they do not depend on the seed
                            if matches!(*src, "min" | "max" | "unstructured-empty") && (ni + li + n as usize) % 2 == 1 {
                                continue;
                            }
                            let root = sc.flat.root(&op.kind).unwrap_or("Query").to_string();
                            if worst_case_nodes(&sc.flat, &ec.doc, &op.sels, &root, lb.1 as f64, 0) > 50_000.0 {
                                ctx.count("configurations_skipped_response_would_exceed_50000_nodes", 1);
                                continue;
                            }
                            let cfg = Config {
                                source: src.to_string(),
                                seed: rng.next_u64() >> 16 | (si as u64 & 1),
                                null_ratio: *nr,
                                list: *lb,
                            };
                            check_case(
                                ctx,
                                &Case {
                                    sc: &sc,
                                    ec: &ec,
                                    op,
                                    cfg,
                                    vars: vars.clone(),
                                },
                            );
                        }
                    }
                }
            }
        }
    }
}

pub fn replay(ctx: &mut Ctx, case: &J) {
    let r = (|| -> Result<(), String> {
        let schema = case.get("schema").and_then(|x| x.as_str()).ok_or("no schema")?;
        let exec = case.get("exec").and_then(|x| x.as_str()).ok_or("no exec")?;
        let cfg = Config::from_json(case.get("config").ok_or("no config")?).ok_or("bad config")?;
        let vars = case.get("variables").and_then(|x| x.as_object()).cloned().unwrap_or_default();
        check_texts(ctx, schema, exec, case.get("op").and_then(|x| x.as_str()), cfg, vars)
    })();
    if let Err(e) = r {
        ctx.inconclusive(&format!("replay: {e}"), case.clone());
    }
}
