//! C13 — Building from several sources is compositional.
//!
//! (1) A schema / executable document built from sources t1..tk added one after another equals
//! the one built from their concatenation: same Ok/Err, same ordered digest, same ordered list
//! of diagnostic messages. (2) Moving one type or schema extension from after its definition to
//! before it does not change the built schema (PartialEq + digest) nor the multiset of messages.

use crate::gen::exec_gen::{gen_executable, ExecOpts};
use crate::gen::model::*;
use crate::gen::schema_gen::gen_schema;
use crate::monitors::c12::random_opts;
use crate::monitors::util::{first_diff, line_class, schema_digest};
use crate::prng::Rng;
use crate::rt::{self, clip, Ctx};
use apollo_compiler::validation::{DiagnosticList, Valid};
use apollo_compiler::{ExecutableDocument, Schema};
use serde_json::{json, Value};

struct Built {
    ok: bool,
    digest: Vec<String>,
    messages: Vec<String>,
    schema: Schema,
}

fn build_schema(sources: &[String], adopt: bool) -> Built {
    let mut b = Schema::builder();
    if adopt {
        b = b.adopt_orphan_extensions();
    }
    for (i, s) in sources.iter().enumerate() {
        b = b.parse(s.clone(), format!("s{i}.graphql"));
    }
    match b.build() {
        Ok(s) => Built {
            ok: true,
            digest: schema_digest(&s),
            messages: vec![],
            schema: s,
        },
        Err(e) => Built {
            ok: false,
            digest: schema_digest(&e.partial),
            messages: e.errors.iter().map(|d| d.error.to_string()).collect(),
            schema: e.partial,
        },
    }
}

fn msg_class(m: &str) -> String {
    // message with backtick-quoted names removed and digits masked
    let mut out = String::new();
    let mut inside = false;
    for c in m.chars() {
        if c == '`' {
            inside = !inside;
            out.push('`');
        } else if !inside {
            out.push(if c.is_ascii_digit() { '#' } else { c });
        }
    }
    out.chars().take(90).collect()
}

fn first_msg_diff(a: &[String], b: &[String]) -> Option<String> {
    let n = a.len().max(b.len());
    for i in 0..n {
        let x = a.get(i).map(|s| s.as_str()).unwrap_or("<none>");
        let y = b.get(i).map(|s| s.as_str()).unwrap_or("<none>");
        if x != y {
            return Some(format!("split: {} | concatenated: {}", msg_class(x), msg_class(y)));
        }
    }
    None
}

/// Claim 1 for schemas.
pub fn check_split(ctx: &mut Ctx, sources: &[String], adopt: bool, label: &str) {
    ctx.eval();
    let case = json!({"kind": "schema_split", "sources": sources, "adopt_orphan_extensions": adopt});
    ctx.inflight("C13", case.to_string().as_bytes());
    let r = rt::catch(|| {
        let a = build_schema(sources, adopt);
        let b = build_schema(&[sources.join("\n")], adopt);
        let mut f: Vec<(String, String)> = Vec::new();
        if a.ok != b.ok {
            f.push((
                format!("split|ok-differs|{}", if a.ok { "split-ok" } else { "concat-ok" }),
                format!("split build ok={} but concatenated build ok={}; messages {:?} vs {:?}", a.ok, b.ok, a.messages, b.messages),
            ));
        }
        if let Some((_, _, x, y)) = first_diff(&a.digest, &b.digest) {
            f.push((
                format!("split|digest|{}", line_class(&x)),
                format!("ordered digest differs: split {:?} vs concatenated {:?}", clip(&x, 140), clip(&y, 140)),
            ));
        }
        if let Some(d) = first_msg_diff(&a.messages, &b.messages) {
            let _ = d;
            f.push((
                format!("split|messages|{}", if a.messages.len() != b.messages.len() { "count" } else { "order-or-text" }),
                format!("diagnostic messages differ: {:?} vs {:?}", a.messages, b.messages),
            ));
        }
        (a.ok, a.messages.len(), f)
    });
    match r {
        Err(_) => ctx.count("panicked_cases_skipped", 1),
        Ok((ok, nmsg, findings)) => {
            ctx.class("split_outcome", if ok { "builds" } else { "build-errors" });
            ctx.class("source", label);
            if sources.len() > 1 && (nmsg > 0 || sources.iter().filter(|s| s.contains("extend")).count() > 0) {
                ctx.nontrivial(&sources.join("\u{1}"));
            }
            for (sig, msg) in findings {
                ctx.violation(sig, msg, case.clone());
            }
        }
    }
}

/// Claim 2: `defs[ext]` is an extension placed after its definition `defs[def]`; move it to just
/// before the definition.
pub fn check_move(ctx: &mut Ctx, defs: &[String], def: usize, ext: usize, only_ext_of_target: bool, adopt: bool, what: &str) {
    // two destinations: right before the definition, and the very beginning of the document (so
    // that other definitions and orphan extensions sit between the extension and its definition)
    check_move_to(ctx, defs, def, ext, only_ext_of_target, adopt, what, false);
    if def > 0 {
        check_move_to(ctx, defs, def, ext, only_ext_of_target, adopt, what, true);
    }
}

#[allow(clippy::too_many_arguments)]
pub fn check_move_to(ctx: &mut Ctx, defs: &[String], def: usize, ext: usize, only_ext_of_target: bool, adopt: bool, what: &str, to_front: bool) {
    ctx.eval();
    let mut moved: Vec<String> = defs.to_vec();
    let e = moved.remove(ext);
    moved.insert(if to_front { 0 } else { def }, e);
    let case = json!({"kind": "schema_move", "defs": defs, "definition_index": def, "extension_index": ext,
                      "only_extension_of_target": only_ext_of_target, "adopt_orphan_extensions": adopt, "to_front": to_front});
    ctx.inflight("C13", case.to_string().as_bytes());
    let r = rt::catch(|| {
        let a = build_schema(&[defs.join("\n")], adopt);
        let b = build_schema(&[moved.join("\n")], adopt);
        let mut f: Vec<(String, String)> = Vec::new();
        if a.ok != b.ok {
            f.push((
                format!("move|ok-differs|{}|{}", what, if a.ok { "after-ok" } else { "before-ok" }),
                format!("extension after definition: ok={} {:?}; before: ok={} {:?}", a.ok, a.messages, b.ok, b.messages),
            ));
        }
        let mut ma = a.messages.clone();
        let mut mb = b.messages.clone();
        ma.sort();
        mb.sort();
        if ma != mb {
            let missing: Vec<String> = ma.iter().filter(|m| !mb.contains(m)).map(|m| msg_class(m)).collect();
            let extra: Vec<String> = mb.iter().filter(|m| !ma.contains(m)).map(|m| msg_class(m)).collect();
            f.push((
                format!(
                    "move|messages|{}|{}",
                    what,
                    match (missing.is_empty(), extra.is_empty()) {
                        (false, true) => "diagnostic-lost-when-before",
                        (true, false) => "diagnostic-added-when-before",
                        _ => "diagnostics-differ",
                    }
                ),
                format!("diagnostics change when the extension moves before its definition: after {:?} / before {:?}", a.messages, b.messages),
            ));
        }
        let mut da = a.digest.clone();
        let mut db = b.digest.clone();
        if !only_ext_of_target {
            da.sort();
            db.sort();
        }
        if let Some((_, _, x, y)) = first_diff(&da, &db) {
            f.push((
                format!("move|digest|{}|{}", what, line_class(&x)),
                format!("built schema differs: after {:?} / before {:?}", clip(&x, 140), clip(&y, 140)),
            ));
        } else if a.schema != b.schema {
            f.push((format!("move|not-equal|{}", what), "built schemas are not equal".into()));
        }
        (a.ok, f)
    });
    match r {
        Err(_) => ctx.count("panicked_cases_skipped", 1),
        Ok((ok, findings)) => {
            ctx.class("move_outcome", if ok { "builds" } else { "build-errors" });
            ctx.class("move_kind", what);
            ctx.nontrivial(&format!("{}|{}|{}", defs.join("\u{1}"), def, ext));
            for (sig, msg) in findings {
                ctx.violation(sig, msg, case.clone());
            }
        }
    }
}

fn exec_build(schema: Option<&Valid<Schema>>, sources: &[String]) -> (String, Vec<String>, Vec<String>, Vec<String>) {
    let mut errors = DiagnosticList::new(Default::default());
    let mut b = ExecutableDocument::builder(schema, &mut errors);
    for (i, s) in sources.iter().enumerate() {
        b = b.parse(s.clone(), format!("e{i}.graphql"));
    }
    let doc = b.build();
    let ops: Vec<String> = doc.operations.named.keys().map(|k| k.to_string()).collect();
    let frags: Vec<String> = doc.fragments.keys().map(|k| k.to_string()).collect();
    let text = doc.to_string();
    let msgs: Vec<String> = errors.iter().map(|d| d.error.to_string()).collect();
    (text, ops, frags, msgs)
}

pub fn check_exec_split(ctx: &mut Ctx, schema_text: &str, sources: &[String], with_schema: bool) {
    ctx.eval();
    let case = json!({"kind": "exec_split", "schema": schema_text, "sources": sources, "with_schema": with_schema});
    ctx.inflight("C13", case.to_string().as_bytes());
    let r = rt::catch(|| {
        let schema = if with_schema {
            match Schema::parse_and_validate(schema_text, "schema.graphql") {
                Ok(s) => Some(s),
                Err(_) => return None,
            }
        } else {
            None
        };
        let a = exec_build(schema.as_ref(), sources);
        let b = exec_build(schema.as_ref(), &[sources.join("\n")]);
        let mut f: Vec<(String, String)> = Vec::new();
        if a.1 != b.1 || a.2 != b.2 {
            f.push(("exec-split|definition-order".to_string(), format!("operations/fragments order differs: {:?}/{:?} vs {:?}/{:?}", a.1, a.2, b.1, b.2)));
        }
        if a.0 != b.0 {
            f.push(("exec-split|document".to_string(), format!("built documents serialize differently:\n{}\n---\n{}", clip(&a.0, 400), clip(&b.0, 400))));
        }
        if let Some(d) = first_msg_diff(&a.3, &b.3) {
            let _ = d;
            f.push((
                format!("exec-split|messages|{}", if a.3.len() != b.3.len() { "count" } else { "order-or-text" }),
                format!("diagnostic messages differ: {:?} vs {:?}", a.3, b.3),
            ));
        }
        Some((a.3.len(), f))
    });
    match r {
        Err(_) => ctx.count("panicked_cases_skipped", 1),
        Ok(None) => ctx.count("schema_invalid_skipped", 1),
        Ok(Some((nmsg, findings))) => {
            ctx.class("exec_split_outcome", if nmsg == 0 { "clean" } else { "build-errors" });
            ctx.class("exec_split_mode", if with_schema { "with-schema" } else { "without-schema" });
            if sources.len() > 1 {
                ctx.nontrivial(&sources.join("\u{2}"));
            }
            for (sig, msg) in findings {
                ctx.violation(sig, msg, case.clone());
            }
        }
    }
}

/// All ways to cut `defs` into at most 3 consecutive non-empty groups.
fn cuts(n: usize) -> Vec<Vec<usize>> {
    let mut out = vec![vec![]];
    for i in 1..n {
        out.push(vec![i]);
        for j in i + 1..n {
            out.push(vec![i, j]);
        }
    }
    out
}

fn split_at(defs: &[String], cut: &[usize]) -> Vec<String> {
    let mut out = Vec::new();
    let mut prev = 0;
    for &c in cut.iter().chain(std::iter::once(&defs.len())) {
        out.push(defs[prev..c].join("\n"));
        prev = c;
    }
    out
}

/// Deliberate collisions added to a list of definitions.
fn add_collisions(rng: &mut Rng, doc: &mut Doc) -> &'static str {
    let types: Vec<TypeDef> = doc
        .defs
        .iter()
        .filter_map(|d| match d {
            Def::Type(t) if !t.ext => Some(t.clone()),
            _ => None,
        })
        .collect();
    if types.is_empty() {
        return "none";
    }
    let t = rng.pick(&types).clone();
    let at = rng.below(doc.defs.len() + 1);
    match rng.below(9) {
        0 => {
            doc.defs.insert(at, Def::Type(t));
            "duplicate-type"
        }
        1 => {
            // kind-mismatched extension
            let mut e = TypeDef::new(if t.kind == Kind::Scalar { Kind::Enum } else { Kind::Scalar }, &t.name);
            e.ext = true;
            if e.kind == Kind::Enum {
                e.values.push(EnumVal {
                    desc: None,
                    name: "ZZ".into(),
                    dirs: vec![],
                });
            } else {
                e.dirs.push(DirApp {
                    name: "specifiedBy".into(),
                    args: vec![("url".into(), Val::Str("u".into()))],
                });
            }
            doc.defs.insert(at, Def::Type(e));
            "kind-mismatched-extension"
        }
        2 => {
            // one to three orphan extensions of distinct undefined types, at random positions
            let n = rng.range(1, 3);
            for i in 0..n {
                let mut e = TypeDef::new(Kind::Object, &format!("NoSuchType{i}"));
                e.ext = true;
                e.fields.push(FieldDef {
                    desc: None,
                    name: "x".into(),
                    args: vec![],
                    ty: TyRef::named("Int"),
                    dirs: vec![],
                });
                let at = rng.below(doc.defs.len() + 1);
                doc.defs.insert(at, Def::Type(e));
            }
            "orphan-type-extension"
        }
        3 => {
            // extension duplicating an existing component
            let mut e = TypeDef::new(t.kind, &t.name);
            e.ext = true;
            e.fields = t.fields.iter().take(1).cloned().collect();
            e.values = t.values.iter().take(1).cloned().collect();
            e.members = t.members.iter().take(1).cloned().collect();
            e.input_fields = t.input_fields.iter().take(1).cloned().collect();
            e.implements = t.implements.iter().take(1).cloned().collect();
            if e.fields.is_empty() && e.values.is_empty() && e.members.is_empty() && e.input_fields.is_empty() && e.implements.is_empty() {
                e.dirs = t.dirs.clone();
                if e.dirs.is_empty() {
                    return "none";
                }
            }
            doc.defs.insert(at, Def::Type(e));
            "duplicate-component-in-extension"
        }
        4 => {
            doc.defs.insert(
                at,
                Def::Schema(SchemaDef {
                    ext: false,
                    desc: None,
                    dirs: vec![],
                    roots: vec![("query".into(), t.name.clone())],
                }),
            );
            "extra-schema-definition"
        }
        5 => {
            doc.defs.insert(
                at,
                Def::Schema(SchemaDef {
                    ext: true,
                    desc: None,
                    dirs: vec![],
                    roots: vec![("query".into(), t.name.clone())],
                }),
            );
            "schema-extension-duplicate-root"
        }
        6 => {
            let dd: Vec<DirectiveDef> = doc
                .defs
                .iter()
                .filter_map(|d| match d {
                    Def::Directive(x) => Some(x.clone()),
                    _ => None,
                })
                .collect();
            if let Some(d) = dd.first() {
                doc.defs.insert(at, Def::Directive(d.clone()));
                "duplicate-directive"
            } else {
                "none"
            }
        }
        7 => {
            // redefine a built-in scalar / built-in directive
            if rng.bool() {
                doc.defs.insert(at, Def::Type(TypeDef::new(Kind::Scalar, "Int")));
                "builtin-scalar-redefinition"
            } else {
                doc.defs.insert(
                    at,
                    Def::Directive(DirectiveDef {
                        desc: None,
                        name: "skip".into(),
                        args: vec![],
                        repeatable: false,
                        locations: vec!["FIELD".into()],
                    }),
                );
                "builtin-directive-redefinition"
            }
        }
        _ => {
            // an executable definition inside a schema source
            doc.defs.insert(
                at,
                Def::Op(OpDef {
                    kind: "query".into(),
                    name: Some("Q".into()),
                    vars: vec![],
                    dirs: vec![],
                    sels: vec![Sel::Field {
                        alias: None,
                        name: "x".into(),
                        args: vec![],
                        dirs: vec![],
                        sels: vec![],
                    }],
                    shorthand: false,
                }),
            );
            "executable-definition-in-schema"
        }
    }
}

const MOVE_SPECIALS: &[(&[&str], usize, usize, bool)] = &[
    // kind-mismatched extensions: (defs, definition index, extension index, only extension)
    (&["type A { a: Int }", "type X { x: Int }", "extend union X = A", "type Query { q: Int }"], 1, 2, true),
    (&["type X { x: Int }", "extend scalar X @specifiedBy(url: \"u\")", "type Query { q: Int }"], 0, 1, true),
    (&["enum X { V }", "extend type X { f: Int }", "type Query { q: Int }"], 0, 1, true),
    (&["input X { f: Int }", "extend enum X { V }", "type Query { q: Int }"], 0, 1, true),
    (&["scalar X", "extend input X { f: Int }", "type Query { q: Int }"], 0, 1, true),
    (&["union X = Query", "extend interface X { f: Int }", "type Query { q: Int }"], 0, 1, true),
    (&["interface X { f: Int }", "extend type X { g: Int }", "type Query { q: Int }"], 0, 1, true),
    // well-kinded
    (&["type X { x: Int }", "extend type X { y: Int }", "type Query { q: X }"], 0, 1, true),
    (&["type X { x: Int }", "extend type X { x: Int }", "type Query { q: X }"], 0, 1, true),
    (&["schema { query: Query }", "extend schema { mutation: M }", "type Query { q: Int }", "type M { m: Int }"], 0, 1, true),
    (&["schema { query: Query }", "extend schema { query: M }", "type Query { q: Int }", "type M { m: Int }"], 0, 1, true),
    (&["type Query { q: Int }", "type M { m: Int }", "extend schema { mutation: M }"], 0, 2, true),
    // several orphan extensions around a definition + extension pair (adopt mode keeps them)
    (&["type Query { q: Int }", "type A { a: Int }", "extend type A { a2: Int }", "extend type B { b: Int }", "extend type C { c: Int }"], 1, 2, true),
    (&["type Query { q: Int }", "extend type B { b: Int }", "type A { a: Int }", "extend type C { c: Int }", "extend type A { a2: Int }", "extend type D { d: Int }"], 2, 4, true),
    (&["type Query { q: Int }", "extend type B { b: Int }", "extend type C { c: Int }", "type A { a: Int }", "extend type A { a2: Int }"], 3, 4, true),
];

pub fn run(ctx: &mut Ctx) {
    if ctx.shard == 0 {
        for (defs, d, e, only) in MOVE_SPECIALS {
            let v: Vec<String> = defs.iter().map(|s| s.to_string()).collect();
            for adopt in [false, true] {
                check_move(ctx, &v, *d, *e, *only, adopt, "special");
            }
            for cut in cuts(v.len()) {
                check_split(ctx, &split_at(&v, &cut), false, "special");
            }
        }
    }
    let mut n = 0u64;
    while !ctx.time_up() {
        n += 1;
        let mut rng = ctx.sub_rng("c13", n);
        let opts = random_opts(&mut rng);
        let mut doc = gen_schema(&mut rng, &opts);
        let flat = FlatSchema::from_doc(&doc);
        let schema_text = print_plain(&doc);
        let collision = if rng.chance(2, 3) { add_collisions(&mut rng, &mut doc) } else { "none" };
        ctx.class("collision", collision);
        // keep the documents small enough for exhaustive cuts
        let defs: Vec<String> = doc.defs.iter().map(print_def_plain).collect();
        let adopt = rng.chance(1, 4);
        if defs.len() <= 6 {
            for cut in cuts(defs.len()) {
                check_split(ctx, &split_at(&defs, &cut), adopt, "model_exhaustive_cuts");
            }
        } else {
            for _ in 0..4 {
                let mut c = vec![rng.range(1, defs.len() - 1)];
                if rng.bool() {
                    let j = rng.range(1, defs.len() - 1);
                    if j != c[0] {
                        c.push(j);
                        c.sort();
                    }
                }
                check_split(ctx, &split_at(&defs, &c), adopt, "model_random_cuts");
            }
        }
        // moves: every extension that sits after its definition
        for (ei, d) in doc.defs.iter().enumerate() {
            let (is_ext, target): (bool, Option<String>) = match d {
                Def::Type(t) if t.ext => (true, Some(t.name.clone())),
                Def::Schema(s) if s.ext => (true, None),
                _ => (false, None),
            };
            if !is_ext {
                continue;
            }
            let def_idx = doc.defs.iter().position(|x| match (x, &target) {
                (Def::Type(t), Some(n)) => !t.ext && t.name == *n,
                (Def::Schema(s), None) => !s.ext,
                _ => false,
            });
            let Some(di) = def_idx else { continue };
            if di > ei {
                continue;
            }
            let n_ext = doc
                .defs
                .iter()
                .filter(|x| match (x, &target) {
                    (Def::Type(t), Some(n)) => t.ext && t.name == *n,
                    (Def::Schema(s), None) => s.ext,
                    _ => false,
                })
                .count();
            let what = match d {
                Def::Schema(_) => "schema-extension",
                Def::Type(t) => {
                    let def_kind = match &doc.defs[di] {
                        Def::Type(dt) => dt.kind,
                        _ => t.kind,
                    };
                    if def_kind != t.kind {
                        "kind-mismatched-type-extension"
                    } else {
                        "type-extension"
                    }
                }
                _ => "other",
            };
            check_move(ctx, &defs, di, ei, n_ext == 1, adopt, what);
        }
        // executable documents
        if n % 2 == 0 && collision == "none" {
            let ex = gen_executable(&mut rng, &flat, &ExecOpts { max_ops: 3, ..ExecOpts::default() });
            let mut edefs: Vec<String> = ex.defs.iter().map(print_def_plain).collect();
            // collisions: duplicate a definition, add anonymous operations
            match rng.below(5) {
                0 if !edefs.is_empty() => {
                    let d = rng.pick(&edefs).clone();
                    let at = rng.below(edefs.len() + 1);
                    edefs.insert(at, d);
                    ctx.class("exec_collision", "duplicate-definition");
                }
                1 => {
                    let at = rng.below(edefs.len() + 1);
                    edefs.insert(at, "{ __typename }".into());
                    let at = rng.below(edefs.len() + 1);
                    edefs.insert(at, "query { __typename }".into());
                    ctx.class("exec_collision", "anonymous-operations");
                }
                2 => {
                    let at = rng.below(edefs.len() + 1);
                    edefs.insert(at, "type NotExecutable { x: Int }".into());
                    ctx.class("exec_collision", "type-system-definition");
                }
                _ => ctx.class("exec_collision", "none"),
            }
            if edefs.len() <= 6 {
                for cut in cuts(edefs.len()) {
                    check_exec_split(ctx, &schema_text, &split_at(&edefs, &cut), rng.chance(3, 4));
                }
            } else {
                let c = vec![rng.range(1, edefs.len() - 1)];
                check_exec_split(ctx, &schema_text, &split_at(&edefs, &c), true);
            }
        }
        ctx.sample(|| json!({"collision": collision, "definitions": defs.len(), "first_def": clip(defs.first().map(|s| s.as_str()).unwrap_or(""), 120)}));
    }
}

pub fn replay(ctx: &mut Ctx, case: &Value) {
    let strs = |k: &str| -> Vec<String> {
        case.get(k)
            .and_then(|v| v.as_array())
            .map(|a| a.iter().filter_map(|x| x.as_str().map(|s| s.to_string())).collect())
            .unwrap_or_default()
    };
    let adopt = case.get("adopt_orphan_extensions").and_then(|v| v.as_bool()).unwrap_or(false);
    match case.get("kind").and_then(|k| k.as_str()) {
        Some("schema_split") => check_split(ctx, &strs("sources"), adopt, "replay"),
        Some("schema_move") => check_move_to(
            ctx,
            &strs("defs"),
            case["definition_index"].as_u64().unwrap_or(0) as usize,
            case["extension_index"].as_u64().unwrap_or(0) as usize,
            case["only_extension_of_target"].as_bool().unwrap_or(false),
            adopt,
            "replay",
            case["to_front"].as_bool().unwrap_or(false),
        ),
        Some("exec_split") => check_exec_split(
            ctx,
            case["schema"].as_str().unwrap_or(""),
            &strs("sources"),
            case["with_schema"].as_bool().unwrap_or(true),
        ),
        _ => {}
    }
}
