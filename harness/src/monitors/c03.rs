//! C03 — The lexer implements the GraphQL lexical grammar.
//!
//! Refuting events (DESIGN §6 C03):
//!  (i)   token data and error data, concatenated in index order, differ from the input;
//!  (ii)  `RefLexer` accepts the whole input but apollo reports a lexical error, or vice versa;
//!  (iii) both accept and the token sequences (kind, byte start, byte end) differ — runs of
//!        WhiteSpace / LineTerminator / BOM are merged on both sides before comparing (apollo
//!        documents that it assimilates them to one Whitespace token), commas and comments are
//!        compared one by one;
//!  (iv)  both reject and the tokens before the first error differ, or apollo's first error does
//!        not begin where the reference cannot match a token.
//!
//! Oracle: `refmodel::lexer::RefLexer` (strict SourceCharacter). One known root cause — control
//! characters inside strings, block strings and comments are accepted — is recognised by re-judging
//! the input with a reference that tolerates exactly that; it is still reported, under ONE signature.

use crate::gen::inputs::TextSource;
use crate::gen::text;
use crate::prng::Rng;
use crate::refmodel::lexer::{RefErrorKind, RefKind, RefLexed, RefLexer};
use crate::rt::{self, clip, Ctx};
use apollo_parser::{Lexer, TokenKind};
use serde_json::{json, Value};

pub const SIG_CONTROL_INSIDE_LEXEME: &str =
    "apollo-accepts|oracle-rejects|SourceCharacter|C0 control character inside string, block string or comment";

#[derive(Clone, Debug, PartialEq, Eq)]
pub struct NTok {
    pub kind: &'static str,
    pub start: usize,
    pub end: usize,
}

#[derive(Clone, Debug)]
pub struct AItem {
    pub ok: bool,
    pub kind: &'static str,
    pub index: usize,
    pub data: String,
    pub message: String,
}

#[derive(Clone, Debug)]
pub struct Finding {
    pub signature: String,
    pub message: String,
}

pub fn apollo_kind(k: TokenKind) -> &'static str {
    match k {
        TokenKind::Whitespace => "Whitespace",
        TokenKind::Comment => "Comment",
        TokenKind::Bang => "!",
        TokenKind::Dollar => "$",
        TokenKind::Amp => "&",
        TokenKind::Spread => "...",
        TokenKind::Comma => "Comma",
        TokenKind::Colon => ":",
        TokenKind::Eq => "=",
        TokenKind::At => "@",
        TokenKind::LParen => "(",
        TokenKind::RParen => ")",
        TokenKind::LBracket => "[",
        TokenKind::RBracket => "]",
        TokenKind::LCurly => "{",
        TokenKind::RCurly => "}",
        TokenKind::Pipe => "|",
        TokenKind::Eof => "EOF",
        TokenKind::Name => "Name",
        TokenKind::StringValue => "String",
        TokenKind::Int => "Int",
        TokenKind::Float => "Float",
    }
}

pub fn ref_kind(k: RefKind) -> &'static str {
    match k {
        RefKind::Bom | RefKind::WhiteSpace | RefKind::LineTerminator => "Whitespace",
        RefKind::Comment => "Comment",
        RefKind::Comma => "Comma",
        RefKind::Bang => "!",
        RefKind::Dollar => "$",
        RefKind::Amp => "&",
        RefKind::LParen => "(",
        RefKind::RParen => ")",
        RefKind::Spread => "...",
        RefKind::Colon => ":",
        RefKind::Eq => "=",
        RefKind::At => "@",
        RefKind::LBracket => "[",
        RefKind::RBracket => "]",
        RefKind::LCurly => "{",
        RefKind::Pipe => "|",
        RefKind::RCurly => "}",
        RefKind::Name => "Name",
        RefKind::Int => "Int",
        RefKind::Float => "Float",
        RefKind::Str | RefKind::BlockStr => "String",
    }
}

/// All items of the unlimited lexer, in iteration order.
pub fn apollo_items(text: &str) -> Vec<AItem> {
    let mut v = Vec::new();
    for item in Lexer::new(text) {
        match item {
            Ok(t) => v.push(AItem {
                ok: true,
                kind: apollo_kind(t.kind()),
                index: t.index(),
                data: t.data().to_string(),
                message: String::new(),
            }),
            Err(e) => v.push(AItem {
                ok: false,
                kind: "error",
                index: e.index(),
                data: e.data().to_string(),
                message: e.message().to_string(),
            }),
        }
        if v.len() > text.len() + 2 {
            break; // progress is C01's subject
        }
    }
    v
}

fn merge_ws(mut v: Vec<NTok>) -> Vec<NTok> {
    let mut out: Vec<NTok> = Vec::with_capacity(v.len());
    for t in v.drain(..) {
        if t.kind == "Whitespace" {
            if let Some(l) = out.last_mut() {
                if l.kind == "Whitespace" && l.end == t.start {
                    l.end = t.end;
                    continue;
                }
            }
        }
        out.push(t);
    }
    out
}

fn ref_ntoks(l: &RefLexed) -> Vec<NTok> {
    merge_ws(
        l.tokens
            .iter()
            .map(|t| NTok {
                kind: ref_kind(t.kind),
                start: t.start,
                end: t.end,
            })
            .collect(),
    )
}

/// What kind of lexeme starts at `off` (for signatures): class of the first character.
fn lexeme_class(text: &str, off: usize) -> &'static str {
    match text.get(off..).and_then(|s| s.chars().next()) {
        None => "end-of-input",
        Some(c) if c.is_ascii_alphabetic() || c == '_' => "name",
        Some(c) if c.is_ascii_digit() || c == '-' => "number",
        Some('"') => {
            if text[off..].starts_with("\"\"\"") {
                "block-string"
            } else {
                "string"
            }
        }
        Some('#') => "comment",
        Some('.') => "dot",
        Some(c) if matches!(c, ' ' | '\t' | '\n' | '\r' | '\u{FEFF}' | ',') => "ignored",
        Some(c) if (c as u32) < 0x20 || c as u32 == 0x7f => "control",
        Some(c) if c.is_ascii() => "punctuation",
        Some(_) => "non-ascii",
    }
}

/// Construct class at which the reference's deciding rule fires (for signatures): the lexeme class
/// plus, for strings cut by a line terminator or the end of input, where in the string that happens.
fn reject_site(text: &str, re: &crate::refmodel::lexer::RefError) -> String {
    let base = lexeme_class(text, re.start);
    if re.kind == RefErrorKind::UnterminatedString {
        let c = text.get(re.at..).and_then(|s| s.chars().next());
        let what = match c {
            None => "end of input",
            Some(_) if re.at == re.start + 1 => "line terminator as first character",
            Some(_) => "line terminator after other characters",
        };
        return format!("{base}: {what}");
    }
    base.to_string()
}

/// Compare apollo's items with one reference lexing. Returns the first disagreement.
fn compare_with(text: &str, items: &[AItem], r: &RefLexed) -> Option<Finding> {
    let a_first_err = items.iter().find(|i| !i.ok);
    let a_toks = merge_ws(
        items
            .iter()
            .filter(|i| i.ok && i.kind != "EOF")
            .map(|i| NTok {
                kind: i.kind,
                start: i.index,
                end: i.index + i.data.len(),
            })
            .collect(),
    );
    let r_toks = ref_ntoks(r);
    let show = |t: Option<&NTok>| match t {
        Some(t) => format!("{} {:?} @{}..{}", t.kind, clip(text.get(t.start..t.end).unwrap_or("<bad range>"), 40), t.start, t.end),
        None => "nothing".to_string(),
    };
    let first_diff = |a: &[NTok], r: &[NTok]| -> Option<Finding> {
        let n = a.len().max(r.len());
        for k in 0..n {
            let (x, y) = (a.get(k), r.get(k));
            if x == y {
                continue;
            }
            let what = match (x, y) {
                (Some(x), Some(y)) if x.start != y.start => "start",
                (Some(x), Some(y)) if x.end != y.end => "end",
                (Some(_), Some(_)) => "kind",
                (None, Some(_)) => "missing",
                _ => "extra",
            };
            return Some(Finding {
                signature: format!(
                    "token-mismatch|ref={}|apollo={}|{}",
                    y.map(|t| t.kind).unwrap_or("none"),
                    x.map(|t| t.kind).unwrap_or("none"),
                    what
                ),
                message: format!("token #{k}: reference has {}, apollo has {}", show(y), show(x)),
            });
        }
        None
    };
    let before = |v: &[NTok], off: usize| -> Vec<NTok> { v.iter().filter(|t| t.end <= off).cloned().collect() };
    match (&r.error, a_first_err) {
        (None, None) => first_diff(&a_toks, &r_toks),
        // When only one side reports an error, a token that already differs *before* that error is
        // the more specific site (a mis-delimited lexeme makes everything after it disagree).
        (None, Some(e)) if first_diff(&before(&a_toks, e.index), &before(&r_toks, e.index)).is_some() => {
            first_diff(&before(&a_toks, e.index), &before(&r_toks, e.index))
        }
        (Some(re), None) if first_diff(&before(&a_toks, re.start), &r_toks).is_some() => first_diff(&before(&a_toks, re.start), &r_toks),
        (None, Some(e)) => Some(Finding {
            signature: format!("apollo-rejects|oracle-accepts|{}", lexeme_class(text, e.index)),
            message: format!(
                "the input is a sequence of valid lexical tokens but apollo reports {:?} at {} (data {:?})",
                e.message,
                e.index,
                clip(&e.data, 40)
            ),
        }),
        (Some(re), None) => Some(Finding {
            signature: format!("apollo-accepts|oracle-rejects|{}|{}", re.kind.id(), reject_site(text, re)),
            message: format!(
                "no lexical token can be matched at byte {} ({}, deciding character at byte {}) but apollo reports no error",
                re.start,
                re.kind.id(),
                re.at
            ),
        }),
        (Some(re), Some(ae)) => {
            // Where may apollo's first error begin? At the offset where the grammar cannot match a
            // token; for a non-SourceCharacter that ends a comment also at the start of that comment
            // (whether the well-formed part of the comment is still emitted is left open).
            let mut allowed = vec![re.start];
            let mut r_before = r_toks.clone();
            if re.kind == RefErrorKind::ControlInComment {
                if let Some(last) = r_before.last() {
                    if last.kind == "Comment" && last.end == re.start && ae.index == last.start {
                        allowed.push(last.start);
                        r_before.pop();
                    }
                }
            }
            // a token that differs before both error positions is the more specific site
            let cut = ae.index.min(re.start);
            if let Some(f) = first_diff(&before(&a_toks, cut), &before(&r_before, cut)) {
                return Some(f);
            }
            if !allowed.contains(&ae.index) {
                if ae.index < re.start {
                    return Some(Finding {
                        signature: format!("apollo-rejects|oracle-accepts|{}", lexeme_class(text, ae.index)),
                        message: format!(
                            "apollo's first error {:?} is at byte {} (data {:?}); the reference matches valid tokens up to byte {}",
                            ae.message,
                            ae.index,
                            clip(&ae.data, 40),
                            re.start
                        ),
                    });
                }
                return Some(Finding {
                    signature: format!("apollo-accepts|oracle-rejects|{}|{}", re.kind.id(), reject_site(text, re)),
                    message: format!(
                        "no lexical token can be matched at byte {} ({}) but apollo's first error is only at byte {}",
                        re.start,
                        re.kind.id(),
                        ae.index
                    ),
                });
            }
            let a_before: Vec<NTok> = a_toks.iter().filter(|t| t.start < ae.index).cloned().collect();
            first_diff(&a_before, &r_before)
        }
    }
}

pub struct Judged {
    pub findings: Vec<Finding>,
    pub ref_strict: RefLexed,
    pub items: Vec<AItem>,
}

/// Judge one input. Pure (no Ctx), so that probes and other monitors can use it.
pub fn judge(text: &str) -> Judged {
    let items = apollo_items(text);
    let mut findings = Vec::new();

    // (i) concatenation in index order reproduces the input
    let mut order: Vec<usize> = (0..items.len()).collect();
    order.sort_by_key(|&k| items[k].index);
    let mut cat = String::with_capacity(text.len());
    for &k in &order {
        cat.push_str(&items[k].data);
    }
    if cat != text {
        // first item whose data is not the input at the running offset
        let mut pos = 0usize;
        let mut culprit = "missing-tail";
        let mut detail = String::new();
        for &k in &order {
            let it = &items[k];
            if text.get(pos..pos + it.data.len()) != Some(it.data.as_str()) {
                culprit = if it.ok { it.kind } else { "error" };
                detail = format!(
                    "item {:?} (index {}, data {:?}) does not match the input at running offset {}",
                    it.kind,
                    it.index,
                    clip(&it.data, 40),
                    pos
                );
                break;
            }
            pos += it.data.len();
        }
        if detail.is_empty() {
            detail = format!("items cover {} of {} bytes", pos, text.len());
        }
        findings.push(Finding {
            signature: format!("concat-mismatch|{}|{}", culprit, lexeme_class(text, pos)),
            message: format!("concatenated token and error data differ from the input: {detail}"),
        });
    }
    // (iii) byte offsets of tokens: every Ok token's data is the input at its index
    for it in items.iter().filter(|i| i.ok) {
        if text.get(it.index..it.index + it.data.len()) != Some(it.data.as_str()) {
            findings.push(Finding {
                signature: format!("token-index|{}", it.kind),
                message: format!("token {} index {} data {:?} is not the input text at that offset", it.kind, it.index, clip(&it.data, 40)),
            });
            break;
        }
    }

    let strict = RefLexer::strict().lex(text);
    if findings.is_empty() {
        if let Some(f) = compare_with(text, &items, &strict) {
            let control = strict.error.map(|e| e.kind.is_control_inside_lexeme()).unwrap_or(false);
            if control {
                // Known root cause: non-SourceCharacters inside strings / block strings / comments
                // are accepted. If tolerating exactly that explains apollo's output, report it under
                // its single signature; otherwise report what remains.
                let lenient = RefLexer::lenient_controls().lex(text);
                match compare_with(text, &items, &lenient) {
                    None => findings.push(Finding {
                        signature: SIG_CONTROL_INSIDE_LEXEME.to_string(),
                        message: format!(
                            "a character outside SourceCharacter at byte {} ({}) is accepted: {}",
                            strict.error.unwrap().at,
                            strict.error.unwrap().kind.id(),
                            f.message
                        ),
                    }),
                    Some(f2) => findings.push(f2),
                }
            } else {
                findings.push(f);
            }
        }
    }
    Judged {
        findings,
        ref_strict: strict,
        items,
    }
}

fn mask_apollo_message(m: &str) -> String {
    // messages embed the offending character: keep the text up to the first quote/backtick
    let cut = m.find(['`', '"']).unwrap_or(m.len());
    m[..cut].trim().to_string()
}

pub fn check_case(ctx: &mut Ctx, text: &str, source: &str) {
    check_case_h(ctx, text, source, true)
}

fn check_case_h(ctx: &mut Ctx, text: &str, source: &str, hash: bool) {
    ctx.eval();
    if text.len() > 64 {
        ctx.inflight("C03", text.as_bytes());
    }
    let r = rt::catch(|| judge(text));
    let case = json!({"text": text});
    match r {
        Err(p) => {
            // A panic of the lexer is C01's finding; it also refutes "for every input the lexer's
            // tokens and errors reproduce the input", so it is reported here under the panic site.
            ctx.violation(
                p.signature("lexer"),
                format!("panic while lexing: {} at {}:{}", p.message, p.file, p.line),
                case,
            );
        }
        Ok(j) => {
            ctx.count("apollo_items_compared", j.items.len() as u64);
            ctx.count("ref_tokens_compared", j.ref_strict.tokens.len() as u64);
            let mut significant = false;
            for t in &j.ref_strict.tokens {
                if !t.kind.is_ignored() {
                    significant = true;
                }
                if !ctx.has_class("ref_kind", kind_name(t.kind)) {
                    ctx.class("ref_kind", kind_name(t.kind));
                }
            }
            match &j.ref_strict.error {
                None => {
                    ctx.count("oracle_accepts", 1);
                }
                Some(e) => {
                    ctx.count("oracle_rejects", 1);
                    ctx.class("ref_error", e.kind.id());
                    significant = true;
                }
            }
            for it in j.items.iter().filter(|i| !i.ok) {
                let m = mask_apollo_message(&it.message);
                if !ctx.has_class("apollo_error", &m) {
                    ctx.class("apollo_error", &m);
                }
            }
            if significant {
                if hash {
                    ctx.nontrivial(text);
                } else {
                    ctx.count("nontrivial_cases_not_hashed_over_cap", 1);
                }
            }
            for f in j.findings {
                ctx.violation(f.signature, f.message, case.clone());
            }
        }
    }
    if !ctx.has_class("source", source) {
        ctx.class("source", source);
    }
}

fn kind_name(k: RefKind) -> &'static str {
    match k {
        RefKind::Bom => "UnicodeBOM",
        RefKind::WhiteSpace => "WhiteSpace",
        RefKind::LineTerminator => "LineTerminator",
        RefKind::Comment => "Comment",
        RefKind::Comma => "Comma",
        RefKind::Name => "Name",
        RefKind::Int => "IntValue",
        RefKind::Float => "FloatValue",
        RefKind::Str => "StringValue-quoted",
        RefKind::BlockStr => "StringValue-block",
        other => ref_kind(other),
    }
}

/// The three exhaustively enumerated sub-spaces: (name, alphabet, prefix, suffix, max length quick,
/// max length thorough).
pub const LEX_ALPHABET: &[&str] = &["0", "1", ".", "e", "+", "-", "\"", "\\", "u", "a", "_", "#", "\n", " "];
pub const STR_ALPHABET: &[&str] = &["\\", "u", "0", "D", "8", "a", "\"", "{", "}", "\n", "n"];
pub const BLOCK_ALPHABET: &[&str] = &["\"", "\\", "a", "\n", " "];

pub struct Space {
    pub name: &'static str,
    pub alphabet: &'static [&'static str],
    pub prefix: &'static str,
    pub suffix: &'static str,
    pub max_quick: u32,
    pub max_thorough: u32,
}

pub const SPACES: &[Space] = &[
    Space { name: "lexical-14", alphabet: LEX_ALPHABET, prefix: "", suffix: "", max_quick: 5, max_thorough: 6 },
    Space { name: "quoted-body-11", alphabet: STR_ALPHABET, prefix: "\"", suffix: "\"", max_quick: 5, max_thorough: 6 },
    Space { name: "block-body-5", alphabet: BLOCK_ALPHABET, prefix: "\"\"\"", suffix: "\"\"\"", max_quick: 7, max_thorough: 8 },
];

/// The `idx`-th string of length `len` over `alphabet` (base-|alphabet| digits, most significant first).
pub fn nth_string(alphabet: &[&str], len: u32, mut idx: u64, out: &mut String) {
    let k = alphabet.len() as u64;
    let mut digits = [0usize; 16];
    for d in (0..len as usize).rev() {
        digits[d] = (idx % k) as usize;
        idx /= k;
    }
    for d in 0..len as usize {
        out.push_str(alphabet[digits[d]]);
    }
}

fn enumerate_space(ctx: &mut Ctx, sp: &Space) {
    let max = if ctx.quick() { sp.max_quick } else { sp.max_thorough };
    let k = sp.alphabet.len() as u64;
    let mut global = 0u64;
    let mut done = 0u64;
    let mut buf = String::new();
    for len in 0..=max {
        let n = k.pow(len);
        // indices of this shard: global + idx ≡ shard (mod nshards)
        let mut idx = (ctx.shard + ctx.nshards - global % ctx.nshards) % ctx.nshards;
        while idx < n {
            debug_assert!(ctx.mine(global + idx));
            buf.clear();
            buf.push_str(sp.prefix);
            nth_string(sp.alphabet, len, idx, &mut buf);
            buf.push_str(sp.suffix);
            let s = std::mem::take(&mut buf);
            check_case(ctx, &s, sp.name);
            buf = s;
            done += 1;
            idx += ctx.nshards;
        }
        global += n;
    }
    ctx.count(&format!("exhaustive:{}:cases", sp.name), done);
    ctx.note(
        &format!("exhaustive:{}", sp.name),
        json!({"alphabet": sp.alphabet, "prefix": sp.prefix, "suffix": sp.suffix, "max_length": max, "total_strings": global, "completed": true}),
    );
}

/// Inputs the design lists as hand-checked against the specification.
pub const PROBES: &[&str] = &[
    "1.e5", "0x", "1a", "1.0.", "..", "\"\\u12\"", "\"\"\"\\\"\"\"\"\"", "01", "-", "-a", "1e", "1e+", "1.5e5.5", "1..2", "1...", "0.0", "-0",
    "-0.0e-0", "\"\\u{1F600}\"", "\"\\uD83D\\uDE00\"", "\"\\uDFFF\"", "\"\\ud7ff\"", "\"\\uE000\"", "\"a\nb\"", "\"a\rb\"", "\"\n\"", "\"\r\"",
    "\"\\\n\"", "\"", "\"\"", "\"\"\"", "\"\"\"\"", "\"\"\"\"\"", "\"\"\"\"\"\"", "\"\"\"\"\"\"\"", "\"\"\"\"\"\"\"\"", "\"\"\"\\\"\"\"\"\"\"",
    "\"\"\"\\\\\"\"\"", "\"\"\"\\\\\\\"\"\"\"\"\"", "\"\"\"\\\"\"\"\"", "\"\"\" \\\"\" \"\"\"", "\"a\u{0}b\"", "\"\"\"a\u{0}b\"\"\"", "# c\u{1}",
    "# c\u{1}\n1.", "\u{0}", "a\u{0}", "\u{7f}", "\"\u{7f}\"", "\u{FEFF}a", "a\u{FEFF}", "\r\n", "\r", "#\r\n#", "#", "# é中🚀\n", "é", "a-1", "1-1",
    "a.b", "a...b", "....", ".....", "......", "$a", "@a", "a:b", "{}", "[]", "()", "!|&=", "a1_", "_", "__", "9a", "1_", "1e5e", "1e5_", "1.5a",
    "0e0", "0E0", "1E+01", "00", "-00", "-01", "0.", ".0", "0.e", "+1", "1+1", "'a'", "\\", "\\u0041", "\"\\\"\"", "\"\\\\\"", "\"\\/\"",
    "\"\\b\\f\\n\\r\\t\"", "\"\\a\"", "\"\\ \"", "\"\\u\"", "\"\\u1\"", "\"\\u12\"", "\"\\u123\"", "\"\\u123g\"", "\"\\u12345\"", "\"\\U0041\"",
    "\"\\u0041", "\"\\", "\"\\u", "\"abc", "\"\"\"abc", "\"\"\"abc\"", "\"\"\"abc\"\"", "\"\"\"abc\\\"\"\"", "\"\u{2028}\"", "\"\u{85}\"", "\t,\u{FEFF} \n",
];

fn number_soup(rng: &mut Rng) -> String {
    const P: &[&str] = &["0", "1", "9", "12", ".", "e", "E", "+", "-", "_", "a", "x", " ", ",", "..", "...", "00", "e5", ".5", "1.5", "-0", "é"];
    let n = rng.range(1, 8);
    let mut s = String::new();
    for _ in 0..n {
        s.push_str(rng.pick_str(P));
    }
    s
}

fn string_soup(rng: &mut Rng) -> String {
    const P: &[&str] = &[
        "\"", "\"", "\"\"\"", "\\", "\\\"", "\\\"\"\"", "\\u", "\\u0041", "\\uD800", "\\udfff", "\\u{", "}", "0", "A", "f", "g", "a", " ", "\t", "\n", "\r",
        "\r\n", "\\n", "\\\\", "\\/", "\\q", "é", "🚀", "\u{0}", "\u{1}", "\u{1f}", "\u{7f}", "\u{FEFF}", "#", "# c", ",", "1", "{", "x",
    ];
    let n = rng.range(1, 10);
    let mut s = String::new();
    if rng.chance(2, 3) {
        s.push_str(if rng.bool() { "\"" } else { "\"\"\"" });
    }
    for _ in 0..n {
        s.push_str(rng.pick_str(P));
    }
    if rng.chance(1, 2) {
        s.push_str(if rng.bool() { "\"" } else { "\"\"\"" });
    }
    s
}

/// A number of the grammar: IntegerPart FractionalPart? ExponentPart?
pub fn gen_number(rng: &mut Rng) -> String {
    let mut s = String::new();
    if rng.chance(1, 3) {
        s.push('-');
    }
    if rng.chance(1, 4) {
        s.push('0');
    } else {
        s.push(*rng.pick(&['1', '2', '5', '9']));
        for _ in 0..rng.below(4) {
            s.push(*rng.pick(&['0', '1', '7', '9']));
        }
    }
    if rng.chance(1, 3) {
        s.push('.');
        for _ in 0..rng.range(1, 3) {
            s.push(*rng.pick(&['0', '1', '5', '9']));
        }
    }
    if rng.chance(1, 3) {
        s.push(if rng.bool() { 'e' } else { 'E' });
        match rng.below(3) {
            0 => s.push('+'),
            1 => s.push('-'),
            _ => {}
        }
        for _ in 0..rng.range(1, 3) {
            s.push(*rng.pick(&['0', '1', '5', '9']));
        }
    }
    s
}

/// A quoted string of the grammar.
pub fn gen_quoted(rng: &mut Rng) -> String {
    const P: &[&str] = &[
        "a", "Z", " ", "\t", "é", "中", "🚀", "\u{FEFF}", "#", ",", "{", "'", "\\n", "\\r", "\\t", "\\b", "\\f", "\\\\", "\\/", "\\\"", "\\u0041", "\\u00e9", "\\uD7FF",
        "\\uE000", "\\uffff", "\\u0000", "u", "n", "0", "\u{7f}", "\u{2028}",
    ];
    let mut s = String::from("\"");
    for _ in 0..rng.below(8) {
        s.push_str(rng.pick_str(P));
    }
    s.push('"');
    s
}

/// A block string of the grammar (a quote piece is always followed by a non-quote piece).
pub fn gen_block(rng: &mut Rng) -> String {
    const P: &[&str] = &["a", "b c", " ", "  ", "\t", "\n", "\r\n", "\r", "é", "\\\"\"\"", "\\", "\\n", "\\u0041", "#", "\u{FEFF}", "🚀"];
    let mut s = String::from("\"\"\"");
    for _ in 0..rng.below(10) {
        if rng.chance(1, 6) {
            s.push_str(if rng.bool() { "\"" } else { "\"\"" });
            s.push_str(rng.pick_str(&["a", " ", "\n", "é"]));
        } else {
            s.push_str(rng.pick_str(P));
        }
    }
    // a trailing backslash would escape the terminator
    while s.ends_with('\\') {
        s.push('a');
    }
    s.push_str("\"\"\"");
    s
}

/// A stream of valid lexemes with random (possibly empty) separators; adjacency without a separator
/// is what exercises the lookahead restrictions.
fn lexeme_stream(rng: &mut Rng) -> String {
    const PUNCT: &[&str] = &["!", "$", "&", "(", ")", "...", ":", "=", "@", "[", "]", "{", "|", "}"];
    const NAMES: &[&str] = &["a", "_", "e", "E5", "x1", "__typename", "u0041", "n", "on", "true"];
    const SEPS: &[&str] = &["", "", " ", " ", "\n", ",", "\t", "\r\n", "\r", "\u{FEFF}", " # c\n", "#\n", "#é🚀\r"];
    let mut s = String::new();
    for _ in 0..rng.range(1, 10) {
        match rng.below(8) {
            0..=1 => s.push_str(&gen_number(rng)),
            2 => s.push_str(&gen_quoted(rng)),
            3 => s.push_str(&gen_block(rng)),
            4 => s.push_str(rng.pick_str(NAMES)),
            5..=6 => s.push_str(rng.pick_str(PUNCT)),
            _ => s.push_str(rng.pick_str(text::LEXEMES)),
        }
        s.push_str(rng.pick_str(SEPS));
    }
    s
}

/// Random-phase inputs whose hash is added to the distinct count, per worker (the rest are
/// evaluated and counted, not hashed: the orchestrator merges all hashes in memory).
const RANDOM_HASH_CAP: u64 = 250_000;

pub fn run(ctx: &mut Ctx) {
    let src = TextSource::new();
    ctx.note("corpus_files", json!(src.files.len()));

    // Phase 0: hand-checked probes and every lexeme / near-lexeme alone and in pairs.
    if ctx.shard == 0 {
        for p in PROBES {
            check_case(ctx, p, "probe");
        }
        for a in text::LEXEMES {
            check_case(ctx, a, "lexeme");
        }
    }
    // Every \uXXXX escape (upper and lower case hex), alone in a string: the surrogate range
    // D800-DFFF must be rejected, everything else accepted.
    for cp in 0u32..=0xFFFF {
        if ctx.mine(cp as u64) {
            check_case(ctx, &format!("\"\\u{cp:04X}\""), "unicode_escape_sweep");
            check_case(ctx, &format!("\"a\\u{cp:04x}b\""), "unicode_escape_sweep");
        }
    }
    let mut k = 0u64;
    for a in text::LEXEMES {
        for b in text::LEXEMES {
            k += 1;
            if ctx.mine(k) {
                check_case(ctx, &format!("{a}{b}"), "lexeme_pair");
                check_case(ctx, &format!("{a} {b}"), "lexeme_pair");
            }
        }
    }

    // Phase 1: exhaustive sub-spaces (always completed; they take seconds).
    for sp in SPACES {
        enumerate_space(ctx, sp);
    }

    // Phase 2: corpus files as they are.
    for (i, f) in src.files.iter().enumerate() {
        if ctx.mine(i as u64) {
            check_case(ctx, &f.text, "corpus");
        }
    }

    // Phase 3: random inputs weighted towards numbers, strings, block strings, escapes, comments.
    let mut n = 0u64;
    while !ctx.time_up() {
        n += 1;
        let mut rng = ctx.sub_rng("c03-random", n);
        let (kind, text): (&'static str, String) = match rng.below(14) {
            0..=1 => ("number_soup", number_soup(&mut rng)),
            2..=3 => ("string_soup", string_soup(&mut rng)),
            4 => ("lexeme_soup", text::lexeme_soup(&mut rng, 12)),
            5 => ("char_soup", text::char_soup(&mut rng, 16)),
            6..=10 => ("valid_lexeme_stream", lexeme_stream(&mut rng)),
            11 => {
                // soups glued together with separators: later lexemes are reached only when the
                // earlier ones are valid
                let mut s = String::new();
                for _ in 0..rng.range(2, 5) {
                    s.push_str(&if rng.bool() { number_soup(&mut rng) } else { string_soup(&mut rng) });
                    s.push_str(rng.pick_str(&[" ", "\n", ",", "", "\t", "\r\n"]));
                }
                ("mixed_soup", s)
            }
            _ => {
                let (k, t) = src.random(&mut rng);
                (k, t)
            }
        };
        check_case_h(ctx, &text, kind, n <= RANDOM_HASH_CAP);
        ctx.sample(|| json!({"source": kind, "text": clip(&text, 120)}));
    }
}

pub fn replay(ctx: &mut Ctx, case: &Value) {
    if let Some(t) = case.get("text").and_then(|t| t.as_str()) {
        check_case(ctx, t, "replay");
    }
}
