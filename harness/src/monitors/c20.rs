//! C20 — Validating without a schema is a relaxation.
//!
//! Two refuting events, both observed at `ast::Document::validate_standalone_executable()` called
//! on the AST of the EXECUTABLE DEFINITIONS ONLY of a text (a mixed text is split first: the entry
//! point rightly rejects type-system definitions):
//!  (1) the document validates against some schema (`ExecutableDocument::parse_and_validate`
//!      accepts it — the relation between the two entry points is the property) but standalone
//!      validation returns `Err`;
//!  (2) on ANY executable document, valid or not, a standalone diagnostic whose
//!      `unstable_error_name()` is outside the schema-independent set {UndefinedFragment,
//!      UnusedFragment, RecursiveFragmentDefinition, UniqueVariable, UnusedVariable,
//!      UndefinedVariable, AmbiguousAnonymousOperation, OperationNameCollision,
//!      FragmentNameCollision, UniqueArgument, recursion limits}: standalone validation "only
//!      reports problems that are errors under every possible schema".
//! apollo's own `@defer` diagnostics are neither: `@defer` is not generated and their names are a
//! counted don't-care.
//!
//! Signature: one per diagnostic name outside the schema-independent set (one root cause — a
//! schema-dependent rule leaking into the schema-less path — gives one signature under either
//! clause, and a known leak cannot hide a new one); if a valid document is rejected with
//! schema-independent names only, the signature is `standalone-rejects-valid-document|names`.

use crate::gen::exec_gen::{gen_executable, ExecOpts};
use crate::gen::exec_mut;
use crate::gen::from_ast::doc_from_ast;
use crate::gen::model::*;
use crate::gen::schema_gen::{gen_schema, SchemaOpts};
use crate::monitors::c17::{self, SchemaCase};
use crate::prng::fnv_str;
use crate::rt::{self, clip, Ctx};
use apollo_compiler::{ast, ExecutableDocument};
use serde_json::{json, Value};
use std::collections::BTreeSet;

pub const SCHEMA_INDEPENDENT: &[&str] = &[
    "UndefinedFragment",
    "UnusedFragment",
    "RecursiveFragmentDefinition",
    "UniqueVariable",
    "UnusedVariable",
    "UndefinedVariable",
    "AmbiguousAnonymousOperation",
    "OperationNameCollision",
    "FragmentNameCollision",
    "UniqueArgument",
    // recursion limits
    "RecursionError",
    "RecursionLimitError",
    "DeeplyNestedType",
];

const DEFER_DONT_CARE: &[&str] = &[
    "DuplicateDeferLabel",
    "DeferLabelMustNotBeVariable",
    "DeferOnRootMutationOrSubscriptionField",
    "DeferInSubscriptionMustBeConditional",
];

/// `None`: the text does not parse. `Some(names)`: names of the standalone diagnostics (empty = Ok).
fn standalone(text: &str) -> Option<Result<BTreeSet<String>, rt::PanicReport>> {
    let doc = ast::Document::parse(text, "doc.graphql").ok()?;
    Some(rt::catch(|| match doc.validate_standalone_executable() {
        Ok(()) => BTreeSet::new(),
        Err(errors) => errors
            .iter()
            .map(|d| d.error.unstable_error_name().unwrap_or("<unnamed>").to_string())
            .collect(),
    }))
}

/// One signature per diagnostic name outside the schema-independent set (so that a known leak
/// cannot hide another one); if there is none but a valid document is rejected, one signature
/// for the rejection.
fn signatures(valid_with_schema: bool, names: &BTreeSet<String>) -> Vec<String> {
    let outside: Vec<String> = names
        .iter()
        .filter(|n| !SCHEMA_INDEPENDENT.contains(&n.as_str()) && !DEFER_DONT_CARE.contains(&n.as_str()))
        .map(|n| format!("standalone-diagnostic-outside-schema-independent-set|{n}"))
        .collect();
    if !outside.is_empty() {
        return outside;
    }
    if !names.is_empty() && valid_with_schema && !names.iter().any(|n| DEFER_DONT_CARE.contains(&n.as_str())) {
        let all: Vec<&str> = names.iter().map(|s| s.as_str()).collect();
        return vec![format!("standalone-rejects-valid-document|{}", all.join("+"))];
    }
    vec![]
}

fn has_directives(d: &Doc) -> bool {
    fn sels(ss: &[Sel]) -> bool {
        ss.iter().any(|s| match s {
            Sel::Field { dirs, sels: sub, .. } | Sel::Inline { dirs, sels: sub, .. } => !dirs.is_empty() || sels(sub),
            Sel::Spread { dirs, .. } => !dirs.is_empty(),
        })
    }
    d.defs.iter().any(|d| match d {
        Def::Op(o) => !o.dirs.is_empty() || o.vars.iter().any(|v| !v.dirs.is_empty()) || sels(&o.sels),
        Def::Frag(f) => !f.dirs.is_empty() || sels(&f.sels),
        _ => false,
    })
}

/// `sc` is the schema the document is validated against for clause (1); `model` must hold
/// executable definitions only.
pub fn check_case(ctx: &mut Ctx, sc: &SchemaCase, model: &Doc, text: &str, origin: &str) {
    ctx.eval();
    ctx.inflight("C20", json!({"schema": sc.text, "doc": text}).to_string().as_bytes());
    let valid = match c17::apollo_verdict(&sc.apollo, text) {
        Ok(a) => a.ok,
        Err(_) => {
            ctx.count("apollo_panics_skipped", 1);
            return;
        }
    };
    let names = match standalone(text) {
        None => {
            ctx.count("unparsable_skipped", 1);
            return;
        }
        Some(Err(_)) => {
            ctx.count("apollo_panics_skipped", 1);
            return;
        }
        Some(Ok(n)) => n,
    };
    let dirs = has_directives(model);
    ctx.count(if valid { "valid_with_schema" } else { "invalid_with_schema" }, 1);
    if valid {
        ctx.nontrivial_hash(fnv_str(&sc.text) ^ fnv_str(text).rotate_left(21));
        ctx.class("valid_document", if dirs { "with directives" } else { "without directives" });
        ctx.count(if names.is_empty() { "valid_and_standalone_ok" } else { "valid_but_standalone_err" }, 1);
    } else {
        ctx.class("invalid_document", if names.is_empty() { "standalone ok" } else { "standalone err" });
    }
    for n in &names {
        ctx.class("standalone_diagnostic", n);
        if DEFER_DONT_CARE.contains(&n.as_str()) {
            ctx.count("defer_diagnostics_dont_care", 1);
        }
    }
    for sig in signatures(valid, &names) {
        // minimise the first witness of a signature
        let seen = ctx.has_class("violation_signature_seen", &sig);
        ctx.class("violation_signature_seen", &sig);
        let (ms, best) = if !seen && !ctx.replay_mode {
            c17::minimise_with(&sc.doc, model, 900, &|sc2, cand| {
                let t = print_plain(cand);
                let v = c17::apollo_verdict(&sc2.apollo, &t).map(|a| a.ok).unwrap_or(false);
                match standalone(&t) {
                    Some(Ok(n)) => v == valid && signatures(v, &n).contains(&sig),
                    _ => false,
                }
            })
        } else {
            (sc.doc.clone(), model.clone())
        };
        let list: Vec<&str> = names.iter().map(|s| s.as_str()).collect();
        ctx.violation(
            sig,
            format!(
                "validate_standalone_executable reports [{}] on a document that {} against the schema",
                list.join(", "),
                if valid { "VALIDATES" } else { "does not validate" }
            ),
            json!({"origin": origin, "valid_with_schema": valid, "schema": print_plain(&ms), "doc": print_plain(&best)}),
        );
    }
}

fn parsed_case(ctx: &mut Ctx, schema_text: &str, exec_text: &str, origin: &str) -> Option<()> {
    let sm = doc_from_ast(&ast::Document::parse(schema_text, "s.graphql").ok()?)?.type_system();
    let em = doc_from_ast(&ast::Document::parse(exec_text, "e.graphql").ok()?)?.executable();
    let sc = SchemaCase::new(&sm)?;
    check_case(ctx, &sc, &em, &print_plain(&em), origin);
    Some(())
}

pub const FIXED: &[(&str, &str)] = &[
    ("type Query { a: Int }", "query($c: Boolean!) { a @skip(if: $c) }"),
    ("type Query { a: Int }", "{ a @include(if: true) }"),
    ("type Query { a: Int } directive @d on FIELD", "{ a @d }"),
    ("type Query { a: Int }", "{ a ...F } fragment F on Query { a }"),
    ("type Query { a(x: Int): Int }", "query Q($v: Int = 1) { a(x: $v) }"),
    ("type Query { a: Int } type Subscription { s: Int t: Int }", "subscription { s t }"),
];

pub fn run(ctx: &mut Ctx) {
    let _ = ExecutableDocument::new();
    if ctx.shard == 0 {
        for (s, d) in FIXED {
            parsed_case(ctx, s, d, "fixed");
            ctx.class("source", "fixed");
        }
    }
    let pairs = c17::corpus_pairs();
    ctx.note("corpus_pairs", json!(pairs.len()));
    for (i, (name, ts, exd)) in pairs.iter().enumerate() {
        if !ctx.mine(i as u64) {
            continue;
        }
        if let Some(sc) = SchemaCase::new(ts) {
            check_case(ctx, &sc, exd, &print_plain(exd), name);
            ctx.class("source", "corpus");
        }
    }
    let mut n = 0u64;
    let mut quota = exec_mut::Quota::new();
    while !ctx.time_up() {
        n += 1;
        let mut rng = ctx.sub_rng("c20-schema", n);
        if n % 10 == 0 {
            if let Some(t) = c17::smith_text(&mut rng) {
                if let Some((ts, exd)) = c17::split_mixed(&t) {
                    if let Some(sc) = SchemaCase::new(&ts) {
                        check_case(ctx, &sc, &exd, &print_plain(&exd), "smith");
                        ctx.class("source", "smith");
                    }
                }
            }
            continue;
        }
        // every third schema has no custom directives, so that directive-free valid documents
        // (which do not meet the known UndefinedDirective defect) are plentiful
        let plain = n % 3 == 0;
        let sopts = SchemaOpts { directives: !plain, ..SchemaOpts::default() };
        let sdoc = gen_schema(&mut rng, &sopts);
        let Some(sc) = SchemaCase::new(&sdoc) else { continue };
        let flat = FlatSchema::from_doc(&sdoc);
        for k in 0..4u64 {
            let mut r2 = ctx.sub_rng("c20-exec", n * 16 + k);
            let eopts = ExecOpts { directives: !plain, skip_include: !plain, ..ExecOpts::default() };
            let exd = gen_executable(&mut r2, &flat, &eopts);
            let text = if r2.chance(1, 3) { print_trivia(&exd, &mut r2) } else { print_plain(&exd) };
            check_case(ctx, &sc, &exd, &text, "generated");
            ctx.class("source", "generated");
            ctx.sample(|| json!({"schema": clip(&sc.text, 300), "doc": clip(&text, 300)}));
            for _ in 0..5 {
                let fam = quota.next(&mut r2);
                if let Some(m) = exec_mut::mutate(fam, &mut r2, &flat, &exd) {
                    quota.hit(fam);
                    let m = m.executable();
                    check_case(ctx, &sc, &m, &print_plain(&m), &format!("mutant:{fam}"));
                    ctx.class("source", "mutant");
                    ctx.class("mutator", fam);
                }
                if ctx.time_up() {
                    break;
                }
            }
        }
    }
}

pub fn replay(ctx: &mut Ctx, case: &Value) {
    let (Some(s), Some(d)) = (case.get("schema").and_then(|x| x.as_str()), case.get("doc").and_then(|x| x.as_str())) else {
        return;
    };
    if parsed_case(ctx, s, d, "replay").is_none() {
        ctx.inconclusive("replay case could not be parsed or its schema is rejected", case.clone());
    }
}
