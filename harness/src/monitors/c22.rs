//! C22 — Outputs are deterministic across processes.
//!
//! Every worker (= an independent OS process with its own randomly seeded hash maps) computes the
//! digests of the same, seed-derived input list; the orchestrator plug-in (checklib/procdiff.py)
//! compares the per-process digest logs offline. A second pass in the same process checks
//! within-process determinism.

use crate::gen::exec_gen::{gen_executable, ExecOpts};
use crate::gen::inputs::TextSource;
use crate::gen::model::*;
use crate::gen::schema_gen::gen_schema;
use crate::gen::text;
use crate::monitors::c12::random_opts;
use crate::monitors::c21::INTROSPECTION_QUERY;
use crate::monitors::util;
use crate::prng::{fnv_str, Rng};
use crate::rt::{self, clip, Ctx};
use apollo_compiler::validation::DiagnosticList;
use apollo_compiler::{ast, ExecutableDocument, Schema};
use serde_json::{json, Value};

pub const OUTPUT_KINDS: &[&str] = &[
    "schema_serialization",
    "schema_diagnostics",
    "executable_serialization",
    "executable_diagnostics",
    "mixed_diagnostics",
    "standalone_diagnostics",
    "introspection_json",
    "multi_file_diagnostics",
    "smith_document",
];

fn diag_text(l: &DiagnosticList) -> String {
    // messages with their positions, in list order (not the ariadne rendering: that is C21's)
    let mut s = String::new();
    for d in l.iter() {
        s.push_str(&format!("{:?} {}\n", d.line_column_range(), d.error));
    }
    s
}

/// The outputs of one input, one string per OUTPUT_KINDS entry ("" when not applicable).
fn outputs(kind: &str, text: &str) -> Vec<String> {
    let mut out = vec![String::new(); OUTPUT_KINDS.len()];
    if kind == "smith_bytes" {
        let bytes: Vec<u8> = text.split(',').filter_map(|b| b.parse::<u8>().ok()).collect();
        out[8] = util::smith_text(&bytes, 4).unwrap_or_else(|| "<exhausted>".into());
        return out;
    }
    let ast = match ast::Document::parse(text, "c22.graphql") {
        Ok(d) => d,
        Err(e) => e.partial,
    };
    // split a mixed document: the schema-only and executable-only entry points reject the other half
    let mut ts_ast = ast::Document::new();
    let mut ex_ast = ast::Document::new();
    ts_ast.sources = ast.sources.clone();
    ex_ast.sources = ast.sources.clone();
    for d in &ast.definitions {
        if d.is_executable_definition() {
            ex_ast.definitions.push(d.clone());
        } else {
            ts_ast.definitions.push(d.clone());
        }
    }
    let schema = match ts_ast.to_schema_validate() {
        Ok(s) => {
            out[0] = s.to_string();
            Some(s)
        }
        Err(e) => {
            out[0] = e.partial.to_string();
            out[1] = diag_text(&e.errors);
            None
        }
    };
    if let Some(s) = &schema {
        if !ex_ast.definitions.is_empty() {
            match ex_ast.to_executable_validate(s) {
                Ok(d) => out[2] = d.to_string(),
                Err(e) => {
                    out[2] = e.partial.to_string();
                    out[3] = diag_text(&e.errors);
                }
            }
        }
        if let Ok(doc) = ExecutableDocument::parse_and_validate(s, INTROSPECTION_QUERY, "i.graphql") {
            if let Ok(op) = doc.operations.get(None) {
                if let Ok(vars) = apollo_compiler::request::coerce_variable_values(s, op, &Default::default()) {
                    let imp = s.implementers_map();
                    if let Ok(resp) = apollo_compiler::introspection::partial_execute(s, &imp, &doc, op, &vars) {
                        out[6] = serde_json::to_string(&resp).unwrap_or_default();
                    }
                }
            }
        }
    }
    if let Err(e) = ast.to_mixed_validate() {
        out[4] = diag_text(&e);
    }
    if !ex_ast.definitions.is_empty() {
        if let Err(e) = ex_ast.validate_standalone_executable() {
            out[5] = diag_text(&e);
        }
    }
    // multi-file: split the text's definitions over three sources
    {
        let defs: Vec<String> = ast.definitions.iter().filter(|d| !d.is_executable_definition()).map(|d| d.to_string()).collect();
        if defs.len() >= 3 {
            let third = defs.len() / 3;
            let mut b = Schema::builder();
            b = b.parse(defs[..third].join("\n"), "a.graphql");
            b = b.parse(defs[third..2 * third].join("\n"), "b.graphql");
            b = b.parse(defs[2 * third..].join("\n"), "c.graphql");
            match b.build() {
                Ok(s) => match s.validate() {
                    Ok(v) => out[7] = format!("ok {}", v.types.len()),
                    Err(e) => out[7] = diag_text(&e.errors),
                },
                Err(e) => out[7] = diag_text(&e.errors),
            }
        }
    }
    out
}

/// Hand-written diagnostics-rich inputs: every kind of problem at >= 3 distinct names, so that an
/// order dependence on a hash map has room to show.
fn rich_inputs() -> Vec<String> {
    let mut v = Vec::new();
    let names = ["alpha", "beta", "gamma", "delta", "epsilon", "zeta"];
    // unused variables, undefined variables, unused fragments, undefined fragments
    let mut q = String::from("type Query { f(a: Int): Int g: Query }\nquery Q(");
    for n in names {
        q.push_str(&format!("${n}: Int "));
    }
    q.push_str(") { f ");
    for n in names {
        q.push_str(&format!("x_{n}: f(a: $undef_{n}) ...missing_{n} "));
    }
    q.push_str("}\n");
    for n in names {
        q.push_str(&format!("fragment unused_{n} on Query {{ f }}\n"));
    }
    v.push(q);
    // many undefined types, duplicate definitions, missing interface fields, unions of non-objects
    let mut s = String::from("type Query { q: Int }\n");
    for n in names {
        s.push_str(&format!("type T_{n} implements I_{n} {{ a: Undefined_{n} b(x: AlsoUndefined_{n}): Int }}\n"));
        s.push_str(&format!("interface I_{n} {{ required_{n}: Int }}\n"));
        s.push_str(&format!("union U_{n} = Query | E_{n} | Missing_{n}\nenum E_{n} {{ A A }}\n"));
        s.push_str(&format!("input In_{n} {{ self: In_{n}! dup: Int dup: Int }}\n"));
        s.push_str(&format!("type T_{n} {{ again: Int }}\n"));
        s.push_str(&format!("directive @d_{n}(a: In_{n} @d_{n}) on ARGUMENT_DEFINITION\n"));
    }
    v.push(s);
    // field merging conflicts and fragment cycles at several names
    let mut m = String::from("type Query { a(x: Int): Int b: String c: Query }\n{ ");
    for n in names {
        m.push_str(&format!("k_{n}: a(x: 1) k_{n}: a(x: 2) m_{n}: a m_{n}: b ...cyc_{n} "));
    }
    m.push_str("}\n");
    for (i, n) in names.iter().enumerate() {
        m.push_str(&format!("fragment cyc_{n} on Query {{ c {{ ...cyc_{} }} }}\n", names[(i + 1) % names.len()]));
    }
    v.push(m);
    // several diagnostics at ONE source location (a stable sort by position keeps their emission
    // order): a type declaring six interfaces, each implementing a further interface it does not
    // declare and each requiring a field it does not have; an input object missing six required
    // fields; a field with six unknown arguments
    let mut one = String::from("type Query { q(i: Wide): Int }\n");
    let mut decl = Vec::new();
    for n in names {
        one.push_str(&format!("interface Base_{n} {{ base_{n}: Int }}\ninterface Mid_{n} implements Base_{n} {{ base_{n}: Int mid_{n}: Int }}\n"));
        decl.push(format!("Mid_{n}"));
    }
    one.push_str(&format!("type Narrow implements {} {{ own: Int }}\n", decl.join(" & ")));
    one.push_str("input Wide {");
    for n in names {
        one.push_str(&format!(" req_{n}: Int!"));
    }
    one.push_str(" }\n{ q(i: {}) again: q(");
    for n in names {
        one.push_str(&format!("unknown_{n}: 1 "));
    }
    one.push_str(") }\n");
    v.push(one);
    // many implementers and union members (valid; exercises introspection possibleTypes order)
    let mut p = String::from("interface Node { id: ID }\ntype Query { n: Node u: U }\n");
    let mut members = Vec::new();
    for n in names {
        p.push_str(&format!("type Impl_{n} implements Node {{ id: ID v_{n}: Int }}\n"));
        members.push(format!("Impl_{n}"));
    }
    p.push_str(&format!("union U = {}\n{{ n {{ id }} }}\n", members.join(" | ")));
    v.push(p);
    v
}

/// The seed-derived input list: identical in every worker process.
fn input_list(seed: u64, n: usize, src: &TextSource) -> Vec<(String, String)> {
    let mut rng = Rng::derive(seed, "c22-inputs", 0, 0);
    let mut v: Vec<(String, String)> = rich_inputs().into_iter().map(|t| ("rich".to_string(), t)).collect();
    let diag: Vec<_> = src.files.iter().filter(|f| f.group == "compiler_diag" && f.text.len() < 20_000).collect();
    let ok: Vec<_> = src.files.iter().filter(|f| f.group == "compiler_ok" && f.text.len() < 20_000).collect();
    while v.len() < n {
        match rng.below(10) {
            0..=2 if !diag.is_empty() => v.push(("corpus_diagnostics".into(), rng.pick(&diag).text.clone())),
            3 if !ok.is_empty() => v.push(("corpus_ok".into(), rng.pick(&ok).text.clone())),
            4..=6 => {
                let opts = random_opts(&mut rng);
                let sdoc = gen_schema(&mut rng, &opts);
                let flat = FlatSchema::from_doc(&sdoc);
                let ex = gen_executable(&mut rng, &flat, &ExecOpts::default());
                let mut all = sdoc;
                all.defs.extend(ex.defs);
                let t = print_plain(&all);
                if rng.bool() {
                    v.push(("model_valid".into(), t));
                } else {
                    // several token mutations: many diagnostics
                    let mut s = t;
                    for _ in 0..rng.range(2, 6) {
                        s = text::mutate_tokens(&mut rng, &s);
                    }
                    v.push(("model_mutant".into(), s));
                }
            }
            7 if rng.bool() => {
                let base = if diag.is_empty() { "{ a }".to_string() } else { rng.pick(&diag).text.clone() };
                v.push(("corpus_mutant".into(), text::mutate_tokens(&mut rng, &base)));
            }
            _ => {
                // mostly small inputs; one in five is large enough (8-16 KiB) for interface closures
                // of several members and long implements lists
                let nb = if rng.chance(1, 2) { rng.range(8192, 16384) } else { rng.range(32, 2048) };
                let bytes = rng.bytes(nb);
                v.push(("smith_bytes".into(), bytes.iter().map(|b| b.to_string()).collect::<Vec<_>>().join(",")));
            }
        }
    }
    v
}

pub fn run(ctx: &mut Ctx) {
    let src = TextSource::new();
    let n = if ctx.quick() { 5000 } else { 40000 };
    let inputs = input_list(ctx.seed, n, &src);
    let mut digests: Vec<Value> = Vec::new();
    let mut list_hash = 0u64;
    for (i, (kind, text)) in inputs.iter().enumerate() {
        ctx.eval();
        list_hash = list_hash.rotate_left(5) ^ fnv_str(text);
        ctx.inflight("C22", json!({"kind": kind, "text": text}).to_string().as_bytes());
        let r = rt::catch(|| {
            let a = outputs(kind, text);
            let b = outputs(kind, text);
            (a, b)
        });
        match r {
            Err(_) => {
                ctx.count("panicked_inputs_skipped", 1);
                digests.push(json!(null));
            }
            Ok((a, b)) => {
                for (k, (x, y)) in a.iter().zip(b.iter()).enumerate() {
                    if x != y {
                        ctx.violation(
                            format!("same-process-nondeterminism|{}", OUTPUT_KINDS[k]),
                            format!("two computations in one process differ for {}: {:?} vs {:?}", OUTPUT_KINDS[k], clip(x, 200), clip(y, 200)),
                            json!({"kind": kind, "text": text}),
                        );
                    }
                }
                let mut nonempty = 0;
                for (k, x) in a.iter().enumerate() {
                    if !x.is_empty() {
                        nonempty += 1;
                        ctx.class("output_kind_observed", OUTPUT_KINDS[k]);
                    }
                }
                if nonempty >= 2 {
                    ctx.nontrivial(text);
                }
                ctx.class("source", kind);
                digests.push(json!(a.iter().map(|x| format!("{:016x}", fnv_str(x))).collect::<Vec<_>>()));
                if i < 3 {
                    ctx.sample(|| json!({"kind": kind, "text": clip(text, 200)}));
                }
            }
        }
    }
    ctx.note(&format!("digests_shard_{}", ctx.shard), json!(digests));
    ctx.note(&format!("input_list_hash_shard_{}", ctx.shard), json!(format!("{list_hash:016x}")));
    if ctx.shard == 0 {
        ctx.note("inputs", json!(inputs.iter().map(|(k, t)| json!({"kind": k, "text": t})).collect::<Vec<_>>()));
    }
}

pub fn replay(ctx: &mut Ctx, case: &Value) {
    // Replays one input in this process and prints its digests; cross-process comparison needs
    // several runs (the orchestrator does that with `--replay`).
    let kind = case.get("kind").and_then(|k| k.as_str()).unwrap_or("text");
    let text = case.get("text").and_then(|k| k.as_str()).unwrap_or("");
    ctx.eval();
    let a = outputs(kind, text);
    let exp = case.get("digests").and_then(|d| d.as_array()).cloned();
    for (k, x) in a.iter().enumerate() {
        let h = format!("{:016x}", fnv_str(x));
        if let Some(e) = &exp {
            if e.get(k).and_then(|v| v.as_str()).map(|s| s != h).unwrap_or(false) {
                ctx.violation(
                    format!("cross-process-nondeterminism|{}", OUTPUT_KINDS[k]),
                    format!("this process computes {} = {} but the recorded run had {}", OUTPUT_KINDS[k], h, e[k]),
                    case.clone(),
                );
            }
        }
    }
}
