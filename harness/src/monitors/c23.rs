//! C23 — Schema coordinates parse, print and resolve correctly.
//!
//! * `SchemaCoordinate::from_str(s).is_ok()` iff the hand-written matcher (`ref_coord`) for the five
//!   forms `Name`, `Name.Name`, `Name.Name(Name:)`, `@Name`, `@Name(Name:)` accepts, with the same
//!   form and names; the per-kind `FromStr` impls accept exactly their own form;
//! * `parse(s).to_string() == s`; `parse(c.to_string()) == c`;
//! * `lookup` returns `Ok` iff the harness's own walk over `schema.types` /
//!   `schema.directive_definitions` finds the element, and then returns that very element (same
//!   address, names equal to the coordinate's).

use crate::rt::{self, clip, Ctx};
use apollo_compiler::coordinate::{
    DirectiveArgumentCoordinate, DirectiveCoordinate, FieldArgumentCoordinate, SchemaCoordinate, SchemaCoordinateLookup,
    TypeAttributeCoordinate, TypeCoordinate,
};
use apollo_compiler::schema::ExtendedType;
use apollo_compiler::{Name, Schema};
use serde_json::{json, Value as J};
use std::str::FromStr;
use std::sync::OnceLock;

// ------------------------------------------------------------------------------------------------
// Reference matcher (RefCoordinate)
// ------------------------------------------------------------------------------------------------

#[derive(Clone, Copy, Debug, PartialEq, Eq)]
pub enum Kind {
    Type,
    TypeAttribute,
    FieldArgument,
    Directive,
    DirectiveArgument,
}

impl Kind {
    pub fn label(self) -> &'static str {
        match self {
            Kind::Type => "Type",
            Kind::TypeAttribute => "TypeAttribute",
            Kind::FieldArgument => "FieldArgument",
            Kind::Directive => "Directive",
            Kind::DirectiveArgument => "DirectiveArgument",
        }
    }
}

#[derive(Clone, Debug, PartialEq, Eq)]
pub struct RefCoord {
    pub kind: Kind,
    pub names: Vec<String>,
}

fn cclass(c: Option<u8>) -> &'static str {
    match c {
        None => "end",
        Some(b'_' | b'A'..=b'Z' | b'a'..=b'z') => "name-start",
        Some(b'0'..=b'9') => "digit",
        Some(b'.') => "dot",
        Some(b'(') => "open-paren",
        Some(b')') => "close-paren",
        Some(b':') => "colon",
        Some(b'@') => "at",
        Some(b' ' | b'\t' | b'\n' | b'\r') => "whitespace",
        Some(0x80..=0xff) => "non-ascii",
        Some(_) => "other-ascii",
    }
}

struct Cur<'a> {
    b: &'a [u8],
    i: usize,
}

impl Cur<'_> {
    fn peek(&self) -> Option<u8> {
        self.b.get(self.i).copied()
    }
    fn name(&mut self, state: &'static str) -> Result<String, (&'static str, &'static str)> {
        let start = self.i;
        match self.peek() {
            Some(b'_' | b'A'..=b'Z' | b'a'..=b'z') => self.i += 1,
            c => return Err((state, cclass(c))),
        }
        while matches!(self.peek(), Some(b'_' | b'A'..=b'Z' | b'a'..=b'z' | b'0'..=b'9')) {
            self.i += 1;
        }
        Ok(String::from_utf8(self.b[start..self.i].to_vec()).expect("ascii"))
    }
    fn expect(&mut self, c: u8, state: &'static str) -> Result<(), (&'static str, &'static str)> {
        if self.peek() == Some(c) {
            self.i += 1;
            Ok(())
        } else {
            Err((state, cclass(self.peek())))
        }
    }
    /// `( Name : )` then end of input
    fn argument_tail(&mut self, names: &mut Vec<String>) -> Result<(), (&'static str, &'static str)> {
        self.expect(b'(', "expecting-open-paren-or-end")?;
        names.push(self.name("expecting-argument-name")?);
        self.expect(b':', "expecting-colon")?;
        self.expect(b')', "expecting-close-paren")?;
        if self.peek().is_some() {
            return Err(("expecting-end-after-close-paren", cclass(self.peek())));
        }
        Ok(())
    }
}

/// Accepts exactly: `Name` | `Name.Name` | `Name.Name(Name:)` | `@Name` | `@Name(Name:)`.
/// On rejection returns (state of the matcher, class of the offending character).
pub fn ref_coord(s: &str) -> Result<RefCoord, (&'static str, &'static str)> {
    let mut c = Cur { b: s.as_bytes(), i: 0 };
    let mut names = Vec::new();
    if c.peek() == Some(b'@') {
        c.i += 1;
        names.push(c.name("expecting-directive-name")?);
        if c.peek().is_none() {
            return Ok(RefCoord { kind: Kind::Directive, names });
        }
        c.argument_tail(&mut names)?;
        return Ok(RefCoord { kind: Kind::DirectiveArgument, names });
    }
    names.push(c.name("expecting-type-name")?);
    if c.peek().is_none() {
        return Ok(RefCoord { kind: Kind::Type, names });
    }
    c.expect(b'.', "expecting-dot-or-end")?;
    names.push(c.name("expecting-attribute-name")?);
    if c.peek().is_none() {
        return Ok(RefCoord { kind: Kind::TypeAttribute, names });
    }
    c.argument_tail(&mut names)?;
    Ok(RefCoord { kind: Kind::FieldArgument, names })
}

fn apollo_parts(c: &SchemaCoordinate) -> RefCoord {
    let n = |x: &Name| x.as_str().to_string();
    match c {
        SchemaCoordinate::Type(t) => RefCoord { kind: Kind::Type, names: vec![n(&t.ty)] },
        SchemaCoordinate::TypeAttribute(t) => RefCoord { kind: Kind::TypeAttribute, names: vec![n(&t.ty), n(&t.attribute)] },
        SchemaCoordinate::FieldArgument(t) => RefCoord { kind: Kind::FieldArgument, names: vec![n(&t.ty), n(&t.field), n(&t.argument)] },
        SchemaCoordinate::Directive(t) => RefCoord { kind: Kind::Directive, names: vec![n(&t.directive)] },
        SchemaCoordinate::DirectiveArgument(t) => RefCoord { kind: Kind::DirectiveArgument, names: vec![n(&t.directive), n(&t.argument)] },
    }
}

fn build(r: &RefCoord) -> SchemaCoordinate {
    let n = |i: usize| Name::new(&r.names[i]).expect("reference-accepted name");
    match r.kind {
        Kind::Type => SchemaCoordinate::Type(TypeCoordinate { ty: n(0) }),
        Kind::TypeAttribute => SchemaCoordinate::TypeAttribute(TypeAttributeCoordinate { ty: n(0), attribute: n(1) }),
        Kind::FieldArgument => SchemaCoordinate::FieldArgument(FieldArgumentCoordinate { ty: n(0), field: n(1), argument: n(2) }),
        Kind::Directive => SchemaCoordinate::Directive(DirectiveCoordinate { directive: n(0) }),
        Kind::DirectiveArgument => SchemaCoordinate::DirectiveArgument(DirectiveArgumentCoordinate { directive: n(0), argument: n(1) }),
    }
}

// ------------------------------------------------------------------------------------------------
// Parse / print check
// ------------------------------------------------------------------------------------------------

/// At most HASH_CAP distinct-case hashes are kept per worker (orchestrator memory); everything is
/// still counted in `evaluations`, `from_str_calls` and `lookups`.
static HASHES: std::sync::atomic::AtomicU64 = std::sync::atomic::AtomicU64::new(0);
const HASH_CAP: u64 = 120_000;

/// Judge one string against all six `FromStr` impls and the print/parse round trips.
/// Returns the reference's reading.
pub fn check_string(ctx: &mut Ctx, s: &str) -> Option<RefCoord> {
    ctx.eval();
    let expected = ref_coord(s);
    let case = json!({"kind": "string", "input": s});
    if let Ok(r) = &expected {
        if HASHES.fetch_add(1, std::sync::atomic::Ordering::Relaxed) < HASH_CAP {
            ctx.nontrivial(&format!("coord|{s}"));
        }
        ctx.class("accepted_form", r.kind.label());
    }
    let run = rt::catch(|| {
        let any = SchemaCoordinate::from_str(s).ok();
        let per_kind: [(Kind, Option<String>); 5] = [
            (Kind::Type, TypeCoordinate::from_str(s).ok().map(|c| c.to_string())),
            (Kind::TypeAttribute, TypeAttributeCoordinate::from_str(s).ok().map(|c| c.to_string())),
            (Kind::FieldArgument, FieldArgumentCoordinate::from_str(s).ok().map(|c| c.to_string())),
            (Kind::Directive, DirectiveCoordinate::from_str(s).ok().map(|c| c.to_string())),
            (Kind::DirectiveArgument, DirectiveArgumentCoordinate::from_str(s).ok().map(|c| c.to_string())),
        ];
        (any, per_kind)
    });
    let (any, per_kind) = match run {
        Ok(x) => x,
        Err(p) => {
            ctx.violation(p.signature("SchemaCoordinate::from_str"), format!("from_str({:?}) panicked: {} at {}:{}", clip(s, 60), p.message, p.file, p.line), case);
            return expected.ok();
        }
    };
    ctx.count("from_str_calls", 6);
    match (&any, &expected) {
        (None, Err(_)) => {}
        (Some(c), Err((state, got))) => ctx.violation(
            format!("parse|SchemaCoordinate|apollo-accepts ref-rejects|{state}"),
            format!("SchemaCoordinate::from_str({:?}) = Ok({c:?}) but the string has none of the five forms (matcher stopped at {state}, saw {got})", clip(s, 60)),
            case.clone(),
        ),
        (None, Ok(r)) => ctx.violation(
            format!("parse|SchemaCoordinate|apollo-rejects ref-accepts|{}", r.kind.label()),
            format!("SchemaCoordinate::from_str({:?}) is an error but the string is a {} coordinate", clip(s, 60), r.kind.label()),
            case.clone(),
        ),
        (Some(c), Ok(r)) => {
            let got = apollo_parts(c);
            if got != *r {
                ctx.violation(
                    format!("parse|SchemaCoordinate|parsed as {} instead of {}", got.kind.label(), r.kind.label()),
                    format!("SchemaCoordinate::from_str({:?}) = {c:?}, expected {r:?}", clip(s, 60)),
                    case.clone(),
                );
            }
            let printed = c.to_string();
            if printed != s {
                ctx.violation(
                    format!("print|parse(s).to_string() != s|{}", got.kind.label()),
                    format!("parse({:?}).to_string() == {:?}", clip(s, 60), clip(&printed, 60)),
                    case.clone(),
                );
            }
            // c built independently from the reference's reading: parse(c.to_string()) == c
            let built = build(r);
            let text = built.to_string();
            match SchemaCoordinate::from_str(&text) {
                Ok(back) if back == built => {}
                other => ctx.violation(
                    format!("print|parse(c.to_string()) != c|{}", r.kind.label()),
                    format!("{built:?} prints {text:?}, which parses to {other:?}"),
                    case.clone(),
                ),
            }
            ctx.count("print_parse_roundtrips", 2);
        }
    }
    for (kind, r) in per_kind {
        let exp = matches!(&expected, Ok(e) if e.kind == kind);
        match (r, exp) {
            (None, false) => {}
            (Some(p), true) => {
                if p != s {
                    ctx.violation(
                        format!("print|per-kind parse(s).to_string() != s|{}", kind.label()),
                        format!("{}Coordinate::from_str({:?}).to_string() == {:?}", kind.label(), clip(s, 60), clip(&p, 60)),
                        case.clone(),
                    );
                }
            }
            (Some(_), false) => {
                let why = match &expected {
                    Ok(e) => format!("string is a {} coordinate", e.kind.label()),
                    Err((state, got)) => format!("{state}: {got}"),
                };
                ctx.violation(
                    format!("parse|{}Coordinate|apollo-accepts ref-rejects|{}", kind.label(), match &expected { Ok(e) => e.kind.label(), Err((st, _)) => st }),
                    format!("{}Coordinate::from_str({:?}) is Ok but {why}", kind.label(), clip(s, 60)),
                    case.clone(),
                );
            }
            (None, true) => ctx.violation(
                format!("parse|{}Coordinate|apollo-rejects ref-accepts", kind.label()),
                format!("{}Coordinate::from_str({:?}) is an error for a string of exactly that form", kind.label(), clip(s, 60)),
                case.clone(),
            ),
        }
    }
    ctx.class("verdict", if expected.is_ok() { "accept" } else { "reject" });
    if let Err((state, _)) = &expected {
        ctx.class("reject_state", state);
    }
    expected.ok()
}

// ------------------------------------------------------------------------------------------------
// Lookup check
// ------------------------------------------------------------------------------------------------

pub const SCHEMAS: &[&str] = &[
    // 0: every kind, directives with arguments, extensions, names shared across kinds
    r#"
schema { query: Query mutation: Mutation }
"Root" type Query implements Node { id: ID! node(id: ID!, first: Int = 10, filter: Filter): Node search(term: String!, kind: Kind = A): [SearchResult!]! Query: Query }
type Mutation { rename(id: ID!, name: String!): User @auth(role: "admin", scopes: ["a"]) }
interface Node { id: ID! }
interface Named implements Node { id: ID! name(upper: Boolean): String }
type User implements Node & Named { id: ID! name(upper: Boolean): String friends(first: Int, after: String): [User] kind: Kind }
type Post implements Node { id: ID! title: String author: User }
union SearchResult = User | Post
enum Kind { A B name id @deprecated(reason: "x") }
input Filter { kind: Kind = A, and: [Filter!], name: String, first: Int }
scalar Date @specifiedBy(url: "https://example.com")
scalar User_1
directive @auth(role: String!, scopes: [String!] = []) repeatable on FIELD_DEFINITION | OBJECT
directive @Kind(name: Kind) on FIELD
directive @noArgs on QUERY
extend type User { extra(arg: Date): Date }
extend enum Kind { EXTRA }
extend input Filter { extra: Date }
extend interface Node { added(x: Int): Int }
extend union SearchResult = Query
"#,
    // 1: built-ins and introspection types only
    "type Query { a: Int }",
    // 2: the same attribute name under every kind of type
    r#"
type Query { x(x: Int, y: Int): Int y: Int }
type A { x(x: Int): Int }
interface B { x(y: Int): Int }
input C { x: Int y: A_ }
enum D { x y }
union E = A
scalar F
scalar A_
directive @x(x: Int, D: D) on FIELD
directive @A(A: Int) on FIELD
type _ { _(_: Int): Int __1: Int }
enum x { A B C }
"#,
    // 3: custom root names, no Query type, arguments repeated across fields, deep names
    r#"
schema { query: RootQ subscription: RootS }
type RootQ { alpha(one: Int, two: [Int!]! = [1], three: In): Out beta(one: String): Out }
type RootS { tick(every: Int = 1): Int }
type Out { alpha(three: Int): Int gamma: En }
input In { one: Int = 1 two: In three: [In] }
enum En { ONE TWO three }
directive @alpha(one: Int) on FIELD_DEFINITION
directive @include2(if: Boolean!) on FIELD | FRAGMENT_SPREAD
"#,
];

pub fn schemas() -> &'static Vec<Schema> {
    static S: OnceLock<Vec<Schema>> = OnceLock::new();
    S.get_or_init(|| {
        SCHEMAS
            .iter()
            .enumerate()
            .map(|(i, t)| match Schema::parse(*t, format!("c23-{i}.graphql")) {
                Ok(s) => s,
                Err(e) => e.partial,
            })
            .collect()
    })
}

/// What the harness's own walk finds: (kind label, address of the element, its own name).
#[derive(Debug, Clone, PartialEq, Eq)]
pub struct Found {
    pub what: &'static str,
    pub addr: usize,
    pub name: String,
}

fn addr<T: ?Sized>(x: &T) -> usize {
    x as *const T as *const u8 as usize
}

/// Address of the value inside a `Node`.
fn addr_node<T>(n: &apollo_compiler::Node<T>) -> usize {
    addr::<T>(n)
}

/// Address of the value inside a `Component` (which wraps a `Node`).
fn addr_comp<T>(c: &apollo_compiler::schema::Component<T>) -> usize {
    let n: &apollo_compiler::Node<T> = c;
    addr::<T>(n)
}

/// Independent lookup: linear walks comparing names as strings; never calls `.get`.
pub fn own_lookup(schema: &Schema, c: &RefCoord) -> Result<Found, &'static str> {
    let find_type = |n: &str| schema.types.iter().find(|(k, _)| k.as_str() == n).map(|(_, v)| v);
    let find_dir = |n: &str| schema.directive_definitions.iter().find(|(k, _)| k.as_str() == n).map(|(_, v)| v);
    match c.kind {
        Kind::Type => {
            let t = find_type(&c.names[0]).ok_or("no such type")?;
            Ok(Found { what: "Type", addr: addr(t), name: t.name().to_string() })
        }
        Kind::Directive => {
            let d = find_dir(&c.names[0]).ok_or("no such directive")?;
            Ok(Found { what: "Directive", addr: addr_node(d), name: d.name.to_string() })
        }
        Kind::DirectiveArgument => {
            let d = find_dir(&c.names[0]).ok_or("no such directive")?;
            let a = d.arguments.iter().find(|a| a.name.as_str() == c.names[1]).ok_or("directive has no such argument")?;
            Ok(Found { what: "Argument", addr: addr_node(a), name: a.name.to_string() })
        }
        Kind::TypeAttribute | Kind::FieldArgument => {
            let t = find_type(&c.names[0]).ok_or("no such type")?;
            let attr = c.names[1].as_str();
            let field = match t {
                ExtendedType::Object(o) => o.fields.iter().find(|(k, _)| k.as_str() == attr).map(|(_, f)| f),
                ExtendedType::Interface(o) => o.fields.iter().find(|(k, _)| k.as_str() == attr).map(|(_, f)| f),
                _ => None,
            };
            if c.kind == Kind::FieldArgument {
                let f = match (field, t) {
                    (Some(f), _) => f,
                    (None, ExtendedType::Object(_) | ExtendedType::Interface(_)) => return Err("type has no such field"),
                    (None, ExtendedType::Enum(_) | ExtendedType::InputObject(_)) => return Err("attribute of this type cannot have arguments"),
                    (None, _) => return Err("type has no attributes"),
                };
                let a = f.arguments.iter().find(|a| a.name.as_str() == c.names[2]).ok_or("field has no such argument")?;
                return Ok(Found { what: "Argument", addr: addr_node(a), name: a.name.to_string() });
            }
            match t {
                ExtendedType::Object(_) | ExtendedType::Interface(_) => {
                    let f = field.ok_or("type has no such field")?;
                    Ok(Found { what: "Field", addr: addr_comp(f), name: f.name.to_string() })
                }
                ExtendedType::InputObject(o) => {
                    let f = o.fields.iter().find(|(k, _)| k.as_str() == attr).map(|(_, f)| f).ok_or("input object has no such field")?;
                    Ok(Found { what: "InputField", addr: addr_comp(f), name: f.name.to_string() })
                }
                ExtendedType::Enum(e) => {
                    let v = e.values.iter().find(|(k, _)| k.as_str() == attr).map(|(_, v)| v).ok_or("enum has no such value")?;
                    Ok(Found { what: "EnumValue", addr: addr_comp(v), name: v.value.to_string() })
                }
                ExtendedType::Scalar(_) | ExtendedType::Union(_) => Err("type has no attributes"),
            }
        }
    }
}

fn apollo_found(l: &SchemaCoordinateLookup) -> Found {
    match l {
        SchemaCoordinateLookup::Type(t) => Found { what: "Type", addr: addr(*t), name: t.name().to_string() },
        SchemaCoordinateLookup::Directive(d) => Found { what: "Directive", addr: addr_node(d), name: d.name.to_string() },
        SchemaCoordinateLookup::Field(f) => Found { what: "Field", addr: addr_comp(f), name: f.name.to_string() },
        SchemaCoordinateLookup::InputField(f) => Found { what: "InputField", addr: addr_comp(f), name: f.name.to_string() },
        SchemaCoordinateLookup::EnumValue(v) => Found { what: "EnumValue", addr: addr_comp(v), name: v.value.to_string() },
        SchemaCoordinateLookup::Argument(a) => Found { what: "Argument", addr: addr_node(a), name: a.name.to_string() },
        _ => Found { what: "(unknown variant)", addr: 0, name: String::new() },
    }
}

pub fn check_lookup(ctx: &mut Ctx, schema_index: usize, r: &RefCoord) {
    ctx.eval();
    let schema = &schemas()[schema_index];
    let c = build(r);
    let case = json!({"kind": "lookup", "schema": schema_index, "coordinate": c.to_string()});
    let own = own_lookup(schema, r);
    if HASHES.fetch_add(1, std::sync::atomic::Ordering::Relaxed) < HASH_CAP {
        ctx.nontrivial(&format!("lookup|{schema_index}|{c}"));
    }
    ctx.class("lookup_outcome", &format!("{}:{}", r.kind.label(), match &own { Ok(f) => f.what, Err(why) => why }));
    let got = rt::catch(|| {
        let any = c.lookup(schema).map(|l| apollo_found(&l)).map_err(|e| e.to_string());
        // the per-kind entry points
        let specific: Vec<(&'static str, Result<Found, String>)> = match &c {
            SchemaCoordinate::Type(t) => vec![("TypeCoordinate::lookup", t.lookup(schema).map(|t| Found { what: "Type", addr: addr(t), name: t.name().to_string() }).map_err(|e| e.to_string()))],
            SchemaCoordinate::TypeAttribute(t) => vec![
                ("TypeAttributeCoordinate::lookup", t.lookup(schema).map(|l| apollo_found(&l.into())).map_err(|e| e.to_string())),
                ("lookup_field", t.lookup_field(schema).map(|f| Found { what: "Field", addr: addr_comp(f), name: f.name.to_string() }).map_err(|e| e.to_string())),
                ("lookup_input_field", t.lookup_input_field(schema).map(|f| Found { what: "InputField", addr: addr_comp(f), name: f.name.to_string() }).map_err(|e| e.to_string())),
                ("lookup_enum_value", t.lookup_enum_value(schema).map(|f| Found { what: "EnumValue", addr: addr_comp(f), name: f.value.to_string() }).map_err(|e| e.to_string())),
            ],
            SchemaCoordinate::FieldArgument(t) => vec![("FieldArgumentCoordinate::lookup", t.lookup(schema).map(|a| Found { what: "Argument", addr: addr_node(a), name: a.name.to_string() }).map_err(|e| e.to_string()))],
            SchemaCoordinate::Directive(t) => vec![("DirectiveCoordinate::lookup", t.lookup(schema).map(|d| Found { what: "Directive", addr: addr_node(d), name: d.name.to_string() }).map_err(|e| e.to_string()))],
            SchemaCoordinate::DirectiveArgument(t) => vec![("DirectiveArgumentCoordinate::lookup", t.lookup(schema).map(|a| Found { what: "Argument", addr: addr_node(a), name: a.name.to_string() }).map_err(|e| e.to_string()))],
        };
        (any, specific)
    });
    let (any, specific) = match got {
        Ok(x) => x,
        Err(p) => {
            ctx.violation(p.signature("SchemaCoordinate::lookup"), format!("lookup of {c} panicked: {}", p.message), case);
            return;
        }
    };
    ctx.count("lookups", 1 + specific.len() as u64);
    let last = r.names.last().cloned().unwrap_or_default();
    let mut judge = |api: &str, got: &Result<Found, String>, own: &Result<Found, &'static str>| match (got, own) {
        (Err(_), Err(_)) => {}
        (Ok(g), Err(why)) => ctx.violation(
            format!("lookup|{api}|{}|apollo finds {} but own walk: {why}", r.kind.label(), g.what),
            format!("{api} of {c} in schema {schema_index} returns a {} named {:?}; the harness's walk says: {why}", g.what, g.name),
            case.clone(),
        ),
        (Err(e), Ok(o)) => ctx.violation(
            format!("lookup|{api}|{}|apollo error but own walk finds {}", r.kind.label(), o.what),
            format!("{api} of {c} in schema {schema_index} fails ({e}) although the schema has that {}", o.what),
            case.clone(),
        ),
        (Ok(g), Ok(o)) => {
            if g.what != o.what || g.addr != o.addr {
                ctx.violation(
                    format!("lookup|{api}|{}|different element: apollo {} vs own {}", r.kind.label(), g.what, o.what),
                    format!("{api} of {c} in schema {schema_index} returns {} {:?}, the harness's walk finds {} {:?} at another address", g.what, g.name, o.what, o.name),
                    case.clone(),
                );
            } else if g.name != last {
                ctx.violation(
                    format!("lookup|{api}|{}|element name differs from the coordinate", r.kind.label()),
                    format!("{api} of {c} returns an element named {:?}", g.name),
                    case.clone(),
                );
            }
        }
    };
    judge("SchemaCoordinate::lookup", &any, &own);
    for (api, got) in &specific {
        // the kind-specific helpers succeed only for their own kind of attribute
        let narrowed: Result<Found, &'static str> = match (*api, &own) {
            ("lookup_field", Ok(f)) if f.what != "Field" => Err("attribute is not an object/interface field"),
            ("lookup_input_field", Ok(f)) if f.what != "InputField" => Err("attribute is not an input field"),
            ("lookup_enum_value", Ok(f)) if f.what != "EnumValue" => Err("attribute is not an enum value"),
            (_, o) => o.clone(),
        };
        judge(api, got, &narrowed);
    }
}

// ------------------------------------------------------------------------------------------------
// Workload
// ------------------------------------------------------------------------------------------------

pub const ALPHABET: &[char] = &['A', 'b', '_', '1', '.', '(', ')', ':', '@', ' '];
const EDIT_CHARS: &[char] = &['A', 'b', '_', '1', '.', '(', ')', ':', '@', ' ', 'é', '-'];

fn nth(mut i: u64, len: usize) -> String {
    let mut s = String::with_capacity(len);
    for _ in 0..len {
        s.push(ALPHABET[(i % ALPHABET.len() as u64) as usize]);
        i /= ALPHABET.len() as u64;
    }
    s
}

/// All names appearing anywhere in a schema (types, attributes, arguments, directives), plus one
/// that appears nowhere.
fn name_pool(schema: &Schema) -> Vec<String> {
    let mut v: Vec<String> = Vec::new();
    let mut add = |s: &str| {
        if !v.iter().any(|x| x == s) {
            v.push(s.to_string());
        }
    };
    for (n, t) in &schema.types {
        add(n);
        match t {
            ExtendedType::Object(o) => {
                for (fname, f) in &o.fields {
                    add(fname);
                    f.arguments.iter().for_each(|a| add(&a.name));
                }
            }
            ExtendedType::Interface(o) => {
                for (fname, f) in &o.fields {
                    add(fname);
                    f.arguments.iter().for_each(|a| add(&a.name));
                }
            }
            ExtendedType::InputObject(o) => o.fields.keys().for_each(|k| add(k)),
            ExtendedType::Enum(e) => e.values.keys().for_each(|k| add(k)),
            _ => {}
        }
    }
    for (n, d) in &schema.directive_definitions {
        add(n);
        d.arguments.iter().for_each(|a| add(&a.name));
    }
    add("zz");
    v
}

/// Every coordinate that exists in the schema, found by the harness's own walk.
fn existing(schema: &Schema) -> Vec<RefCoord> {
    let mut v = Vec::new();
    let s = |x: &Name| x.as_str().to_string();
    for (n, t) in &schema.types {
        v.push(RefCoord { kind: Kind::Type, names: vec![s(n)] });
        match t {
            ExtendedType::Object(o) => push_fields(&mut v, n, o.fields.iter()),
            ExtendedType::Interface(o) => push_fields(&mut v, n, o.fields.iter()),
            ExtendedType::InputObject(o) => o.fields.keys().for_each(|k| v.push(RefCoord { kind: Kind::TypeAttribute, names: vec![s(n), s(k)] })),
            ExtendedType::Enum(e) => e.values.keys().for_each(|k| v.push(RefCoord { kind: Kind::TypeAttribute, names: vec![s(n), s(k)] })),
            _ => {}
        }
    }
    for (n, d) in &schema.directive_definitions {
        v.push(RefCoord { kind: Kind::Directive, names: vec![s(n)] });
        for a in &d.arguments {
            v.push(RefCoord { kind: Kind::DirectiveArgument, names: vec![s(n), s(&a.name)] });
        }
    }
    v
}

fn push_fields<'a>(
    v: &mut Vec<RefCoord>,
    n: &Name,
    fields: impl Iterator<Item = (&'a Name, &'a apollo_compiler::schema::Component<apollo_compiler::schema::FieldDefinition>)>,
) {
    let s = |x: &Name| x.as_str().to_string();
    for (fname, f) in fields {
        v.push(RefCoord { kind: Kind::TypeAttribute, names: vec![s(n), s(fname)] });
        for a in &f.arguments {
            v.push(RefCoord { kind: Kind::FieldArgument, names: vec![s(n), s(fname), s(&a.name)] });
        }
    }
}

fn single_edits(s: &str) -> Vec<String> {
    let chars: Vec<char> = s.chars().collect();
    let mut out = Vec::new();
    for i in 0..chars.len() {
        let mut d = chars.clone();
        d.remove(i);
        out.push(d.iter().collect());
        for &c in EDIT_CHARS {
            let mut r = chars.clone();
            r[i] = c;
            out.push(r.iter().collect());
        }
        if i + 1 < chars.len() {
            let mut w = chars.clone();
            w.swap(i, i + 1);
            out.push(w.iter().collect());
        }
    }
    for i in 0..=chars.len() {
        for &c in EDIT_CHARS {
            let mut r = chars.clone();
            r.insert(i, c);
            out.push(r.iter().collect());
        }
    }
    out
}

pub const REGRESSION: &[&str] = &[
    "", "A", "A.b", "A.b(c:)", "@A", "@A(b:)", "@", "@(:)", "@A(:)", "@(b:)", "A.", ".b", "A.b(:)", "A.b(c)", "A.b(c:", "A.b(c:)x", "A.b(c:))",
    "A.b(c::)", "A.b(c:):)", "A.b.c", "A(b:)", "@A.b", "@A.b(c:)", "A@b", " A", "A ", "A .b", "A.b (c:)", "A.b(c :)", "A.b(c: )", "A.b((c:)",
    "Aé", "é", "A.é", "@é", "1A", "A.1", "A.b(1:)", "__typename", "_._(_:)", "@_(_:)", "A..b", "A.b()", "A.b(:c)", "(c:)", ":", "A:b", "A.b(c:)\n",
];

pub fn run(ctx: &mut Ctx) {
    let ss = schemas();
    ctx.note("schemas", json!(ss.len()));
    if ctx.shard == 0 {
        for s in REGRESSION {
            check_string(ctx, s);
        }
    }

    // Phase 1: EXHAUSTIVE strings over the 10-symbol alphabet, sharded.
    let max_len = if ctx.quick() { 5 } else { 7 };
    let mut idx = 0u64;
    let mut complete = true;
    'outer: for len in 0..=max_len {
        for i in 0..(ALPHABET.len() as u64).pow(len as u32) {
            idx += 1;
            if !ctx.mine(idx) {
                continue;
            }
            let s = nth(i, len);
            if let Some(r) = check_string(ctx, &s) {
                // whatever parses is also looked up (nothing with these names exists, except in
                // schema 2 which defines `A`, `_` and friends)
                for k in 0..ss.len() {
                    check_lookup(ctx, k, &r);
                }
            }
            if idx % 65536 == 0 && ctx.used() > 3.0 {
                complete = false;
                break 'outer;
            }
        }
    }
    if complete {
        ctx.class("exhaustive", &format!("strings:len<={max_len}"));
    } else {
        ctx.inconclusive("exhaustive string enumeration did not finish within 3x the budget", json!({"shard": ctx.shard, "index": idx}));
    }

    // Phase 2: per schema — every existing coordinate, every cross product of names, single edits.
    let mut k = 0u64;
    for (si, schema) in ss.iter().enumerate() {
        let pool = name_pool(schema);
        let exist = existing(schema);
        ctx.count("existing_coordinates", if ctx.shard == 0 { exist.len() as u64 } else { 0 });
        ctx.count_max("name_pool", pool.len() as u64);
        for r in &exist {
            k += 1;
            if !ctx.mine(k) {
                continue;
            }
            check_lookup(ctx, si, r);
            let text = build(r).to_string();
            match check_string(ctx, &text) {
                Some(back) if back == *r => {}
                other => ctx.violation(
                    format!("harness|existing coordinate does not read back|{}", r.kind.label()),
                    format!("{r:?} printed {text:?}, reference reads {other:?}"),
                    json!({"kind": "string", "input": text}),
                ),
            }
            ctx.class("source", "existing");
            for e in single_edits(&text) {
                if let Some(pr) = check_string(ctx, &e) {
                    check_lookup(ctx, si, &pr);
                }
            }
            ctx.class("source", "single_edit");
        }
        // cross products: a name of one kind used in the place of another
        let types: Vec<String> = schema.types.keys().map(|k| k.to_string()).chain(["zz".to_string()]).collect();
        let dirs: Vec<String> = schema.directive_definitions.keys().map(|k| k.to_string()).chain(["zz".to_string()]).collect();
        for p in &pool {
            k += 1;
            if ctx.mine(k) {
                check_lookup(ctx, si, &RefCoord { kind: Kind::Type, names: vec![p.clone()] });
                check_lookup(ctx, si, &RefCoord { kind: Kind::Directive, names: vec![p.clone()] });
            }
        }
        for d in &dirs {
            for p in &pool {
                k += 1;
                if ctx.mine(k) {
                    check_lookup(ctx, si, &RefCoord { kind: Kind::DirectiveArgument, names: vec![d.clone(), p.clone()] });
                }
            }
        }
        for t in &types {
            for p in &pool {
                k += 1;
                if ctx.mine(k) {
                    check_lookup(ctx, si, &RefCoord { kind: Kind::TypeAttribute, names: vec![t.clone(), p.clone()] });
                }
            }
        }
        ctx.class("source", "cross_product");
        // three-level products: for every attribute that exists on the type (of any kind) every
        // name of the schema is tried as argument (complete in both tiers); for attributes that
        // do not exist a strided sample (quick) or everything (thorough)
        let stride = if ctx.quick() { 7 } else { 1 };
        let mut j = ctx.seed;
        for t in &types {
            for a in &pool {
                let attr_exists = own_lookup(schema, &RefCoord { kind: Kind::TypeAttribute, names: vec![t.clone(), a.clone()] }).is_ok();
                for p in &pool {
                    j += 1;
                    if !attr_exists && j % stride != 0 {
                        continue;
                    }
                    k += 1;
                    if ctx.mine(k) {
                        check_lookup(ctx, si, &RefCoord { kind: Kind::FieldArgument, names: vec![t.clone(), a.clone(), p.clone()] });
                    }
                }
            }
            if ctx.used() > 2.5 {
                ctx.note("cross_product_cut_short", json!(true));
                break;
            }
        }
        ctx.class("source", "field_argument_product");
    }

    // Phase 3: random strings built from coordinate pieces, until the budget is used.
    let mut n = 0u64;
    let pieces = ["A", "b", "Query", "id", "_", "x1", ".", "(", ")", ":", "@", ":)", "(x:)", " ", "é", "..", "((", "))", "::", "@@", "\n", "-", "1"];
    while !ctx.time_up() {
        n += 1;
        let mut rng = ctx.sub_rng("c23-random", n);
        let mut s = String::new();
        for _ in 0..rng.range(1, 9) {
            s.push_str(rng.pick_str(&pieces));
        }
        if let Some(r) = check_string(ctx, &s) {
            let si = rng.below(ss.len());
            check_lookup(ctx, si, &r);
        }
        ctx.class("source", "random_pieces");
        ctx.sample(|| json!({"input": s}));
    }
}

pub fn replay(ctx: &mut Ctx, case: &J) {
    match case.get("kind").and_then(|k| k.as_str()) {
        Some("lookup") => {
            let si = case.get("schema").and_then(|s| s.as_u64()).unwrap_or(0) as usize;
            if let Some(c) = case.get("coordinate").and_then(|s| s.as_str()) {
                if let Ok(r) = ref_coord(c) {
                    check_lookup(ctx, si.min(schemas().len() - 1), &r);
                }
                check_string(ctx, c);
            }
        }
        _ => {
            if let Some(s) = case.get("input").and_then(|s| s.as_str()) {
                if let Some(r) = check_string(ctx, s) {
                    for k in 0..schemas().len() {
                        check_lookup(ctx, k, &r);
                    }
                }
            }
        }
    }
}
