//! C04 — Token and recursion limits are enforced exactly.
//!
//! Metamorphic against the *unlimited* lexer plus nesting depth known by construction.
//! For input `s` let the unlimited `Lexer::new(s)` yield `N` items (tokens, EOF included, and
//! errors). For a run with token limit `n` and/or recursion limit `r`:
//!  (a) the tree holds no text beyond the end of the n-th unlimited item, and
//!      `token_limit().high <= n+1`;
//!  (b) a token-limit error is present  <=>  N > n   (when a recursion-limit error is also present
//!      only `token-limit error => N > n` is required: whether a second limit error must still be
//!      reported after the first is not stated);
//!  (c) the tree text is a prefix of `s`; equal to `s` when no limit error is reported;
//!  (d) no error of any kind follows the first limit error in `errors()`;
//!  (e) for syntactically valid documents of known depth `D` (gen::nested) and token limit off:
//!      recursion-limit error <=> D > r, and `recursion_limit().high == min(D, r+1)`;
//!      for arbitrary inputs only: r >= number of `{`/`[` characters => no recursion-limit error;
//!  (f) `apollo_compiler::parser::Parser::{recursion_reached, tokens_reached}` equal the
//!      apollo-parser tree's `high` values for the same text and limits.
//!
//! Inputs whose tree is not lossless even without limits (C02's known finding) are not used for
//! the text clauses (a-text, c); they are counted.

use crate::gen::inputs::TextSource;
use crate::gen::nested::{recount_depth, NestGen, NestedDoc};
use crate::gen::text;
use crate::rt::{self, clip, Ctx};
use apollo_parser::cst::CstNode;
use apollo_parser::{Lexer, Parser};
use serde_json::{json, Value};

pub const SIG_LEXER_ERROR_AFTER_RECURSION_LIMIT: &str =
    "d|recursion limit first|later error pushed by the lexer (lexical error or token-limit error)";

#[derive(Clone, Debug)]
pub struct ErrInfo {
    pub message: String,
    pub index: usize,
    pub data: String,
    pub is_limit: bool,
}

impl ErrInfo {
    fn token_limit(&self) -> bool {
        self.is_limit && self.message.contains("token limit")
    }
    fn recursion_limit(&self) -> bool {
        self.is_limit && self.message.contains("recursion limit")
    }
}

pub struct Baseline {
    /// end offset of each unlimited lexer item, in iteration order
    pub item_ends: Vec<usize>,
    pub n_items: usize,
    pub lexer_errors: Vec<(String, usize, String)>,
    /// tree text equals the input when no token limit is set (default recursion limit)
    pub lossless: bool,
    pub baseline_errors: usize,
    pub open_brackets: usize,
}

/// `baseline` under catch_unwind: a panic of the unlimited parse (e.g. the parser's own
/// "unbalanced limit increment / decrement" assertion) is reported, not propagated.
pub fn baseline_checked(ctx: &mut Ctx, s: &str) -> Option<Baseline> {
    match rt::catch(|| baseline(s)) {
        Ok(b) => Some(b),
        Err(p) => {
            ctx.eval();
            ctx.violation(
                p.signature("parse_document"),
                format!("panic while parsing without limits: {} at {}:{}", p.message, p.file, p.line),
                json!({"text": s, "token_limit": null, "recursion_limit": null}),
            );
            None
        }
    }
}

pub fn baseline(s: &str) -> Baseline {
    let mut item_ends = Vec::new();
    let mut lexer_errors = Vec::new();
    let mut running_end = 0usize;
    for item in Lexer::new(s) {
        let (i, l) = match &item {
            Ok(t) => (t.index(), t.data().len()),
            Err(e) => {
                lexer_errors.push((e.message().to_string(), e.index(), e.data().to_string()));
                (e.index(), e.data().len())
            }
        };
        running_end = running_end.max((i + l).min(s.len()));
        item_ends.push(running_end);
        if item_ends.len() > s.len() + 2 {
            break;
        }
    }
    let tree = Parser::new(s).parse();
    let lossless = tree.document().syntax().to_string() == s;
    Baseline {
        n_items: item_ends.len(),
        item_ends,
        lexer_errors,
        lossless,
        baseline_errors: tree.errors().len(),
        open_brackets: s.bytes().filter(|b| matches!(b, b'{' | b'[')).count(),
    }
}

pub struct Run {
    pub errors: Vec<ErrInfo>,
    pub text: String,
    pub tok_high: usize,
    pub rec_high: usize,
    pub c_tok: usize,
    pub c_rec: usize,
    /// the tree text is not a prefix of the input, and the only reason is C02's known finding
    /// (the token after `[` of a list type without item type is dropped) — reached here because a
    /// limit stop makes the parser re-read the rest of the input as something else
    pub only_known_list_item_drop: bool,
}

fn run_limits(s: &str, n: Option<usize>, r: Option<usize>) -> Run {
    let mut p = Parser::new(s);
    if let Some(n) = n {
        p = p.token_limit(n);
    }
    if let Some(r) = r {
        p = p.recursion_limit(r);
    }
    let tree = p.parse();
    let errors = tree
        .errors()
        .map(|e| ErrInfo {
            message: e.message().to_string(),
            index: e.index(),
            data: e.data().to_string(),
            is_limit: e.is_limit(),
        })
        .collect();
    let doc = tree.document();
    let text = doc.syntax().to_string();
    let only_known_list_item_drop = !s.starts_with(text.as_str())
        && match crate::monitors::c02::check_tree(doc.syntax(), s, false) {
            Ok(w) => !w.dropped.is_empty() && w.dropped.iter().all(|d| d.after_childless_list_bracket),
            Err(_) => false,
        };
    let mut cp = apollo_compiler::parser::Parser::new();
    if let Some(n) = n {
        cp = cp.token_limit(n);
    }
    if let Some(r) = r {
        cp = cp.recursion_limit(r);
    }
    let _ = cp.parse_ast(s, "c04.graphql");
    Run {
        errors,
        text,
        tok_high: tree.token_limit().high,
        rec_high: tree.recursion_limit().high,
        c_tok: cp.tokens_reached(),
        c_rec: cp.recursion_reached(),
        only_known_list_item_drop,
    }
}

#[derive(Clone, Debug)]
pub struct Case {
    pub text: String,
    pub token_limit: Option<usize>,
    pub recursion_limit: Option<usize>,
    /// nesting depth known by construction (valid documents only)
    pub depth: Option<usize>,
}

impl Case {
    fn to_json(&self) -> Value {
        json!({"text": self.text, "token_limit": self.token_limit, "recursion_limit": self.recursion_limit, "depth": self.depth})
    }
}

pub fn check_case(ctx: &mut Ctx, c: &Case, base: &Baseline, source: &str) {
    ctx.eval();
    let s = c.text.as_str();
    if s.len() > 64 {
        ctx.inflight("C04", c.to_json().to_string().as_bytes());
    }
    let case = c.to_json();
    let (n, r) = (c.token_limit, c.recursion_limit);
    let run = match rt::catch(|| run_limits(s, n, r)) {
        Ok(run) => run,
        Err(p) => {
            ctx.violation(
                p.signature("parse_document"),
                format!("panic while parsing with limits: {} at {}:{}", p.message, p.file, p.line),
                case,
            );
            return;
        }
    };
    let tl_present = run.errors.iter().any(|e| e.token_limit());
    let rl_present = run.errors.iter().any(|e| e.recursion_limit());
    let any_limit = run.errors.iter().any(|e| e.is_limit);
    let big_n = base.n_items;
    let kinds_present = match (tl_present, rl_present) {
        (true, true) => "token and recursion limit errors",
        (true, false) => "token limit error",
        (false, true) => "recursion limit error",
        (false, false) => {
            if any_limit {
                "other limit error"
            } else {
                "no limit error"
            }
        }
    };
    if any_limit {
        ctx.nontrivial(&format!("{s}|{n:?}|{r:?}"));
    }
    if !ctx.has_class("limit_outcome", kinds_present) {
        ctx.class("limit_outcome", kinds_present);
    }

    // (a) and (b): token limit
    if let Some(n) = n {
        ctx.count("clause_a_b_checks", 1);
        let pos = if n == 0 {
            "n = 0"
        } else if n + 1 < big_n {
            "0 < n < N-1 (stops inside the document)"
        } else if n + 1 == big_n {
            "n = N-1 (only EOF refused)"
        } else if n == big_n {
            "n = N (exact fit)"
        } else {
            "n > N"
        };
        if !ctx.has_class("token_limit_position", pos) {
            ctx.class("token_limit_position", pos);
        }
        if run.tok_high > n.saturating_add(1) {
            ctx.violation(
                "a|token high-water mark above n+1",
                format!("token_limit().high = {} with token limit {}", run.tok_high, n),
                case.clone(),
            );
        }
        if base.lossless {
            let allowed_end = if n == 0 {
                0
            } else if n >= big_n {
                s.len()
            } else {
                base.item_ends[n - 1]
            };
            if run.text.len() > allowed_end {
                ctx.violation(
                    "a|tree holds text beyond the n-th lexer item",
                    format!(
                        "token limit {}: tree text has {} bytes, the first {} unlimited lexer items end at byte {}",
                        n,
                        run.text.len(),
                        n,
                        allowed_end
                    ),
                    case.clone(),
                );
            }
        }
        if tl_present && big_n <= n {
            ctx.violation(
                "b|token-limit error although the unlimited stream fits the limit",
                format!("unlimited lexer yields N = {big_n} items, token limit {n}, yet a token-limit error is reported"),
                case.clone(),
            );
        }
        if big_n > n && !any_limit {
            ctx.violation(
                "b|no limit error although the unlimited stream is longer than the limit",
                format!("unlimited lexer yields N = {big_n} items, token limit {n}, and no limit error is reported"),
                case.clone(),
            );
        }
    } else if tl_present {
        ctx.violation(
            "b|token-limit error without a token limit",
            "a token-limit error is reported although no token limit was set".to_string(),
            case.clone(),
        );
    }

    // (c) prefix / completeness
    if base.lossless {
        ctx.count("clause_c_checks", 1);
        if run.only_known_list_item_drop {
            ctx.count("prefix_clause_skipped_c02_known_list_item_drop", 1);
        } else if !s.starts_with(run.text.as_str()) {
            ctx.violation(
                format!("c|tree text is not a prefix of the input|{kinds_present}"),
                format!("tree text {:?} is not a prefix of the input", clip(&run.text, 80)),
                case.clone(),
            );
        } else if !any_limit && run.text != s {
            ctx.violation(
                "c|tree text incomplete without any limit error",
                format!("no limit error, but the tree text has {} of {} bytes", run.text.len(), s.len()),
                case.clone(),
            );
        }
    } else {
        ctx.count("text_clauses_skipped_tree_lossy_without_limits", 1);
    }

    // (d) nothing after the first limit error
    if let Some(first) = run.errors.iter().position(|e| e.is_limit) {
        ctx.count("clause_d_checks", 1);
        if let Some(later) = run.errors.get(first + 1) {
            let first_kind = if run.errors[first].token_limit() {
                "token limit first"
            } else if run.errors[first].recursion_limit() {
                "recursion limit first"
            } else {
                "other limit first"
            };
            let lexer_pushed = later.token_limit()
                || base
                    .lexer_errors
                    .iter()
                    .any(|(m, i, d)| *m == later.message && *i == later.index && *d == later.data);
            let sig = if first_kind == "recursion limit first" && lexer_pushed {
                SIG_LEXER_ERROR_AFTER_RECURSION_LIMIT.to_string()
            } else {
                format!(
                    "d|{first_kind}|later {}",
                    if lexer_pushed {
                        "error pushed by the lexer"
                    } else if later.is_limit {
                        "limit error"
                    } else {
                        "syntax error"
                    }
                )
            };
            ctx.violation(
                sig,
                format!(
                    "errors() = [.., {:?}@{}, {:?}@{}, ..]: {} error(s) follow the first limit error",
                    run.errors[first].message,
                    run.errors[first].index,
                    later.message,
                    later.index,
                    run.errors.len() - first - 1
                ),
                case.clone(),
            );
        }
    }

    // (e) recursion
    if let Some(r) = r {
        if let (Some(d), None) = (c.depth, n) {
            ctx.count("clause_e_exact_checks", 1);
            if rl_present && d <= r {
                ctx.violation(
                    "e|recursion-limit error although the nesting depth does not exceed the limit",
                    format!("depth {d} by construction, recursion limit {r}, yet a recursion-limit error is reported (high = {})", run.rec_high),
                    case.clone(),
                );
            }
            if !rl_present && d > r {
                ctx.violation(
                    "e|no recursion-limit error although the nesting depth exceeds the limit",
                    format!("depth {d} by construction, recursion limit {r}, and no recursion-limit error (high = {})", run.rec_high),
                    case.clone(),
                );
            }
            let want = d.min(r.saturating_add(1));
            if run.rec_high != want {
                ctx.violation(
                    "e|recursion high-water mark differs from min(D, r+1)",
                    format!("depth {d} by construction, recursion limit {r}: recursion_limit().high = {}, expected {want}", run.rec_high),
                    case.clone(),
                );
            }
            let rel = if d < r {
                "D < r"
            } else if d == r {
                "D = r"
            } else if d == r + 1 {
                "D = r+1"
            } else {
                "D > r+1"
            };
            if !ctx.has_class("depth_vs_limit", rel) {
                ctx.class("depth_vs_limit", rel);
            }
        } else if c.depth.is_none() {
            if r >= base.open_brackets {
                ctx.count("clause_e_safe_direction_checks", 1);
                if rl_present {
                    ctx.violation(
                        "e|recursion-limit error with fewer opening brackets than the limit",
                        format!("the input has {} `{{`/`[` characters, recursion limit {r}, yet a recursion-limit error is reported", base.open_brackets),
                        case.clone(),
                    );
                }
            }
        }
    }

    // (f) compiler figures
    ctx.count("clause_f_checks", 1);
    if run.c_rec != run.rec_high {
        ctx.violation(
            "f|recursion_reached differs from the tree's recursion high-water mark",
            format!("apollo_compiler recursion_reached = {}, apollo_parser recursion_limit().high = {}", run.c_rec, run.rec_high),
            case.clone(),
        );
    }
    if run.c_tok != run.tok_high {
        ctx.violation(
            "f|tokens_reached differs from the tree's token high-water mark",
            format!("apollo_compiler tokens_reached = {}, apollo_parser token_limit().high = {}", run.c_tok, run.tok_high),
            case,
        );
    }
    if !ctx.has_class("source", source) {
        ctx.class("source", source);
    }
}

/// (f) for a *reused* compiler parser: after each `parse_*` call on one `Parser` value the figures are
/// those of that call (the parser's high-water marks for that text), not of an earlier one.
pub fn check_session(ctx: &mut Ctx, texts: &[String], n: Option<usize>, r: Option<usize>, source: &str) {
    ctx.eval();
    let case = json!({"session": texts, "token_limit": n, "recursion_limit": r});
    ctx.inflight("C04", case.to_string().as_bytes());
    let res = rt::catch(|| {
        let mut cp = apollo_compiler::parser::Parser::new();
        if let Some(n) = n {
            cp = cp.token_limit(n);
        }
        if let Some(r) = r {
            cp = cp.recursion_limit(r);
        }
        let mut out = Vec::new();
        for (i, t) in texts.iter().enumerate() {
            let mut p = Parser::new(t);
            if let Some(n) = n {
                p = p.token_limit(n);
            }
            if let Some(r) = r {
                p = p.recursion_limit(r);
            }
            let (entry, rec_high, tok_high) = match i % 3 {
                0 => {
                    let tree = p.parse();
                    let _ = cp.parse_ast(t.as_str(), "c04-session.graphql");
                    ("parse_ast", tree.recursion_limit().high, tree.token_limit().high)
                }
                1 => {
                    let tree = p.parse();
                    let _ = cp.parse_schema(t.as_str(), "c04-session.graphql");
                    ("parse_schema", tree.recursion_limit().high, tree.token_limit().high)
                }
                _ => {
                    let tree = p.parse_type();
                    let _ = cp.parse_type(t.as_str(), "c04-session.graphql");
                    ("parse_type", tree.recursion_limit().high, tree.token_limit().high)
                }
            };
            out.push((i, entry, rec_high, tok_high, cp.recursion_reached(), cp.tokens_reached()));
        }
        out
    });
    match res {
        Err(p) => ctx.violation(p.signature("c04-session"), format!("panic: {} at {}:{}", p.message, p.file, p.line), case),
        Ok(out) => {
            ctx.count("clause_f_session_calls", out.len() as u64);
            let mut marks: Vec<(usize, usize)> = Vec::new();
            for (i, entry, rec_high, tok_high, c_rec, c_tok) in out {
                marks.push((rec_high, tok_high));
                if c_rec != rec_high {
                    ctx.violation(
                        "f|reused parser|recursion_reached differs from the tree's recursion high-water mark",
                        format!("call {i} ({entry}) on a reused apollo_compiler Parser: recursion_reached = {c_rec}, apollo_parser recursion_limit().high for this text = {rec_high}"),
                        case.clone(),
                    );
                }
                if c_tok != tok_high {
                    ctx.violation(
                        "f|reused parser|tokens_reached differs from the tree's token high-water mark",
                        format!("call {i} ({entry}) on a reused apollo_compiler Parser: tokens_reached = {c_tok}, apollo_parser token_limit().high for this text = {tok_high}"),
                        case.clone(),
                    );
                }
            }
            // a session is informative when a later call has smaller marks than an earlier one
            if marks.windows(2).any(|w| w[1].0 < w[0].0) && marks.windows(2).any(|w| w[1].1 < w[0].1) {
                ctx.count("clause_f_sessions_with_decreasing_marks", 1);
                if !ctx.has_class("reused_parser", "a later call has smaller marks than an earlier one") {
                    ctx.class("reused_parser", "a later call has smaller marks than an earlier one");
                }
            }
            ctx.nontrivial(&format!("session|{:?}|{:?}|{:?}", marks, n, r));
            if !ctx.has_class("source", source) {
                ctx.class("source", source);
            }
        }
    }
}

/// Token limits to try for an input with `big_n` unlimited items.
fn token_limits(ctx: &mut Ctx, big_n: usize, all_up_to: usize, samples: usize) -> Vec<usize> {
    if big_n <= all_up_to {
        return (0..=big_n + 1).collect();
    }
    let mut v = vec![0, 1, 2, big_n.saturating_sub(2), big_n - 1, big_n, big_n + 1];
    for _ in 0..samples {
        v.push(ctx.rng.below(big_n));
    }
    v.sort_unstable();
    v.dedup();
    v
}

/// A generated document of known depth: all recursion limits 0..=D+1, all/sampled token limits,
/// and a few (n, r) pairs.
fn check_nested_doc(ctx: &mut Ctx, doc: &NestedDoc, source: &str) {
    // cross-check the generator's depth bookkeeping with an independent token-level recount
    let mut recount = 0usize;
    for df in &doc.defs {
        match recount_depth(&df.text, df.executable) {
            Some(d) if d == df.depth => recount = recount.max(d),
            other => {
                ctx.inconclusive(
                    "generator depth bookkeeping disagrees with the token-level recount (harness bug, case skipped)",
                    json!({"definition": df.text, "depth_by_construction": df.depth, "recount": other}),
                );
                return;
            }
        }
    }
    if recount != doc.depth {
        ctx.inconclusive("document depth is not the maximum of its definitions (harness bug)", json!({"text": doc.text}));
        return;
    }
    let Some(base) = baseline_checked(ctx, &doc.text) else { return };
    if base.baseline_errors != 0 || !base.lexer_errors.is_empty() {
        // the generator promises syntactically valid documents; if apollo disagrees that is C05's
        // subject (or a generator bug) and clause (e) cannot be judged
        ctx.inconclusive(
            "generated document is reported as erroneous without limits (C05's subject or generator bug, case skipped)",
            json!({"text": doc.text}),
        );
        return;
    }
    ctx.count_max("nesting_depth_by_construction", doc.depth as u64);
    for l in &doc.labels {
        if !ctx.has_class("nest_path", l) {
            ctx.class("nest_path", l);
        }
    }
    let d = doc.depth;
    let rs: Vec<usize> = if d <= 16 {
        (0..=d + 1).collect()
    } else {
        let mut v = vec![0, 1, d / 2, d - 2, d - 1, d, d + 1, d + 2];
        v.push(ctx.rng.below(d));
        v.sort_unstable();
        v.dedup();
        v
    };
    for r in &rs {
        let c = Case {
            text: doc.text.clone(),
            token_limit: None,
            recursion_limit: Some(*r),
            depth: Some(d),
        };
        check_case(ctx, &c, &base, source);
    }
    let ns = token_limits(ctx, base.n_items, if ctx.quick() { 48 } else { 120 }, 10);
    for n in &ns {
        let c = Case {
            text: doc.text.clone(),
            token_limit: Some(*n),
            recursion_limit: None,
            depth: Some(d),
        };
        check_case(ctx, &c, &base, source);
    }
    // pairs hitting both limits
    for _ in 0..4 {
        let n = ctx.rng.below(base.n_items + 2);
        let r = ctx.rng.below(d + 2);
        let c = Case {
            text: doc.text.clone(),
            token_limit: Some(n),
            recursion_limit: Some(r),
            depth: Some(d),
        };
        check_case(ctx, &c, &base, source);
    }
}

/// An arbitrary input: sampled token limits, small recursion limits, the safe direction of (e).
fn check_arbitrary(ctx: &mut Ctx, s: &str, source: &str, samples: usize) {
    let Some(base) = baseline_checked(ctx, s) else { return };
    let ns = token_limits(ctx, base.n_items, 24, samples);
    for n in &ns {
        let c = Case {
            text: s.to_string(),
            token_limit: Some(*n),
            recursion_limit: None,
            depth: None,
        };
        check_case(ctx, &c, &base, source);
    }
    let ob = base.open_brackets;
    let mut rs = vec![0usize, 1, 2, 3, ob, ob + 1];
    rs.push(ctx.rng.below(ob + 2));
    rs.sort_unstable();
    rs.dedup();
    for r in &rs {
        let c = Case {
            text: s.to_string(),
            token_limit: None,
            recursion_limit: Some(*r),
            depth: None,
        };
        check_case(ctx, &c, &base, source);
        // with a token limit somewhere after the point where the recursion limit can trip
        let n = ctx.rng.below(base.n_items + 2);
        let c = Case {
            text: s.to_string(),
            token_limit: Some(n),
            recursion_limit: Some(*r),
            depth: None,
        };
        check_case(ctx, &c, &base, source);
    }
}

/// Depth by construction of the pure nesting families of gen::text::nested (valid documents).
fn family_depth(fam: &str, d: usize) -> Option<usize> {
    if d == 0 {
        return None;
    }
    Some(match fam {
        "selection" | "inline_fragments" | "list_type" => d,
        "list_value" | "object_value" | "mixed_value" => d + 1,
        "var_list_type" | "default_value" => d.max(1),
        _ => return None,
    })
}

pub const REGRESSION: &[(&str, Option<usize>, Option<usize>)] = &[
    ("{ a { b } } é é é", None, Some(1)),
    ("{ a { b } } é é é", Some(12), Some(1)),
    ("{ a { b } } é é é", Some(5), Some(1)),
    ("{ a { b } } é é é", Some(18), Some(1)),
    ("{ a(x: [[1]]) } \"", None, Some(2)),
    ("type T { f: [[Int]] } ..", None, Some(1)),
];

pub fn run(ctx: &mut Ctx) {
    let src = TextSource::new();
    if ctx.shard == 0 {
        for (t, n, r) in REGRESSION {
            let Some(base) = baseline_checked(ctx, t) else { continue };
            let c = Case {
                text: t.to_string(),
                token_limit: *n,
                recursion_limit: *r,
                depth: None,
            };
            check_case(ctx, &c, &base, "regression");
        }
    }

    // Phase 1a: pure nesting families with depth known by construction, also deep ones.
    let mut k = 0u64;
    for fam in ["selection", "list_type", "list_value", "object_value", "mixed_value", "var_list_type", "default_value"] {
        for d in [1usize, 2, 3, 7, 30, 120] {
            k += 1;
            if !ctx.mine(k) {
                continue;
            }
            let Some(depth) = family_depth(fam, d) else { continue };
            let textv = text::nested(fam, d);
            let doc = NestedDoc {
                defs: vec![crate::gen::nested::DefInfo {
                    text: textv.clone(),
                    depth,
                    executable: !textv.starts_with("type"),
                }],
                text: textv,
                depth,
                labels: [match fam {
                    "selection" => "family:selection",
                    "inline_fragments" => "family:inline_fragments",
                    "list_type" => "family:list_type",
                    "list_value" => "family:list_value",
                    "object_value" => "family:object_value",
                    "mixed_value" => "family:mixed_value",
                    "var_list_type" => "family:var_list_type",
                    _ => "family:default_value",
                }]
                .into_iter()
                .collect(),
            };
            check_nested_doc(ctx, &doc, "nest_family");
        }
    }

    // Phase 1b: generated valid documents, nesting on every path kind.
    let mut i = 0u64;
    while ctx.until(0.55) {
        i += 1;
        let mut rng = ctx.sub_rng("c04-nested", i);
        let d = match i % 16 {
            0 => 0,
            15 => rng.range(13, 40),
            m => m as usize % 13,
        };
        let doc = {
            let mut g = NestGen::new(&mut rng);
            g.busy = if d > 10 { 1 } else { [1, 4, 6][(i % 3) as usize] };
            g.document_exact(d)
        };
        check_nested_doc(ctx, &doc, "nested_generator");
        ctx.sample(|| json!({"source": "nested_generator", "depth": doc.depth, "text": clip(&doc.text, 200)}));
        if i % 4 == 0 {
            // reused compiler parser over documents of different depth and length
            let k = rng.range(2, 5);
            let mut texts = vec![doc.text.clone()];
            for _ in 0..k {
                let d2 = rng.range(0, 9);
                let mut g = NestGen::new(&mut rng);
                g.busy = 1;
                texts.push(g.document_exact(d2).text);
            }
            if rng.bool() {
                texts.reverse();
            }
            let n = if rng.below(3) == 0 { Some(rng.range(1, 60)) } else { None };
            let r = if rng.below(3) == 0 { Some(rng.range(0, 8)) } else { None };
            check_session(ctx, &texts, n, r, "session_nested");
        }
    }
    ctx.count("nested_documents_generated", i);

    // Phase 2: corpus files (bounded size) as arbitrary inputs.
    for (fi, f) in src.files.iter().enumerate() {
        if !ctx.mine(fi as u64) || f.text.len() > 12_000 {
            continue;
        }
        if !ctx.until(0.7) {
            ctx.note("corpus_phase_cut_short_at_file", json!(fi));
            break;
        }
        check_arbitrary(ctx, &f.text, "corpus", 6);
    }

    // Phase 3: random hostile inputs (lexical errors count as items; unbalanced brackets).
    let mut n = 0u64;
    while !ctx.time_up() {
        n += 1;
        let mut rng = ctx.sub_rng("c04-random", n);
        let (kind, t) = src.random(&mut rng);
        if t.len() > 4000 {
            continue;
        }
        check_arbitrary(ctx, &t, kind, 4);
        if n % 8 == 0 {
            let mut texts = vec![t.clone()];
            for _ in 0..rng.range(1, 4) {
                let (_, t2) = src.random(&mut rng);
                if t2.len() <= 4000 {
                    texts.push(t2);
                }
            }
            let nl = if rng.bool() { Some(rng.range(0, 40)) } else { None };
            let rl = if rng.bool() { Some(rng.range(0, 6)) } else { None };
            check_session(ctx, &texts, nl, rl, "session_random");
        }
    }
}

pub fn replay(ctx: &mut Ctx, case: &Value) {
    let get0 = |k: &str| case.get(k).and_then(|x| x.as_u64()).map(|x| x as usize);
    if let Some(sess) = case.get("session").and_then(|s| s.as_array()) {
        let texts: Vec<String> = sess.iter().filter_map(|t| t.as_str().map(|t| t.to_string())).collect();
        check_session(ctx, &texts, get0("token_limit"), get0("recursion_limit"), "replay");
        return;
    }
    let Some(t) = case.get("text").and_then(|t| t.as_str()) else {
        return;
    };
    let get = |k: &str| case.get(k).and_then(|x| x.as_u64()).map(|x| x as usize);
    let c = Case {
        text: t.to_string(),
        token_limit: get("token_limit"),
        recursion_limit: get("recursion_limit"),
        depth: get("depth"),
    };
    let Some(base) = baseline_checked(ctx, t) else { return };
    check_case(ctx, &c, &base, "replay");
}
