//! C08 — AST serialization round-trips.
//!
//! For a document `d = ast::Document::parse(text)` WITHOUT errors and every serialization
//! configuration `c` (default, `no_indent()`, whitespace `indent_prefix`, `initial_indent_level`,
//! products): `parse(ser_c(d))` has no errors, equals `d` (`PartialEq` ignores locations), and
//! `ser_c(parse(ser_c(d)))` is byte-identical to `ser_c(d)`.
//!
//! Oracle: metamorphic — the relation IS the property. Inputs that do not parse without errors are
//! outside the property and only counted.

use crate::gen::astgen::{self, AstGen, SerCfg};
use crate::gen::inputs::TextSource;
use crate::gen::text;
use crate::prng::{fnv_str, Rng};
use crate::rt::{self, clip, Ctx};
use apollo_compiler::ast;
use serde_json::{json, Value};
use std::collections::BTreeMap;

pub fn parse_ok(text: &str, path: &str) -> Option<ast::Document> {
    ast::Document::parse(text, path).ok()
}

#[derive(Debug, Clone)]
pub struct Failure {
    pub path: String,
    pub kind: String,
    pub detail: String,
}

/// One (document, configuration) round trip. `Ok(bytes serialized)` or the first refuting event.
pub fn roundtrip(d: &ast::Document, cfg: &SerCfg) -> Result<usize, Failure> {
    let s1 = match rt::catch(|| cfg.ser_doc(d)) {
        Ok(s) => s,
        Err(p) => {
            return Err(Failure {
                path: "(serialize)".into(),
                kind: p.signature("ast_serialize"),
                detail: format!("serialization panicked: {} at {}:{}", p.message, p.file, p.line),
            })
        }
    };
    let d2 = match rt::catch(|| ast::Document::parse(s1.as_str(), "c08-reparse.graphql")) {
        Err(p) => {
            return Err(Failure {
                path: "(reparse)".into(),
                kind: p.signature("reparse_serialized"),
                detail: format!("parsing the serialized text panicked: {} at {}:{}", p.message, p.file, p.line),
            })
        }
        Ok(Err(e)) => {
            let first = e.errors.iter().next().map(|d| d.error.to_string()).unwrap_or_default();
            return Err(Failure {
                path: String::new(), // localised by the caller
                kind: format!("reparse-error: {}", error_class(&first)),
                detail: format!("serialized text does not parse: {first}; serialized: {:?}", clip(&s1, 300)),
            });
        }
        Ok(Ok(d2)) => d2,
    };
    if d2 != *d {
        let (path, kind) = astgen::first_diff(d, &d2).unwrap_or(("(unlocated)".into(), "documents differ".into()));
        return Err(Failure {
            detail: format!("re-parsed document differs at {path}: {kind}; serialized: {:?}", clip(&s1, 300)),
            path,
            kind,
        });
    }
    let s2 = match rt::catch(|| cfg.ser_doc(&d2)) {
        Ok(s) => s,
        Err(p) => {
            return Err(Failure {
                path: "(serialize-again)".into(),
                kind: p.signature("ast_serialize"),
                detail: format!("second serialization panicked: {}", p.message),
            })
        }
    };
    if s2 != s1 {
        return Err(Failure {
            path: "(text)".into(),
            kind: "second serialization not byte-identical".into(),
            detail: format!("first: {:?} second: {:?}", clip(&s1, 200), clip(&s2, 200)),
        });
    }
    Ok(s1.len())
}

/// The static part of a syntax-error message (dynamic token data and digits dropped).
pub fn error_class(message: &str) -> String {
    let m = message.strip_prefix("syntax error: ").unwrap_or(message);
    let mut end = m.len();
    for pat in [", got ", "`", "\""] {
        if let Some(i) = m.find(pat) {
            end = end.min(i);
        }
    }
    rt::mask_message(m[..end].trim())
}

/// Path class for signatures: a string-content difference is the same site wherever the string
/// sits (description or string value); any other difference is named by the definition kind and
/// the last component of the path.
pub fn path_class(path: &str, kind: &str) -> String {
    if path.starts_with('(') {
        return path.to_string();
    }
    if kind.starts_with("string content differs") {
        return if path.ends_with(".description") { "description".into() } else { "string value".into() };
    }
    let body = path.trim_start_matches("[]");
    if body.is_empty() {
        return "(definition list)".into();
    }
    let def_end = body.find(['.', '<', '[']).unwrap_or(body.len());
    let def = &body[..def_end];
    // the last two named components, list/variant markers dropped
    let segs: Vec<&str> = body[def_end..]
        .split('.')
        .map(|x| x.split(['[', '<']).next().unwrap_or(""))
        .filter(|x| !x.is_empty())
        .collect();
    if segs.is_empty() {
        return def.to_string();
    }
    let tail = &segs[segs.len().saturating_sub(2)..];
    if tail.len() == segs.len() {
        format!("{def}.{}", tail.join("."))
    } else {
        format!("{def}..{}", tail.join("."))
    }
}

fn sub_doc(d: &ast::Document, idx: &[usize]) -> ast::Document {
    let mut s = ast::Document::new();
    for &i in idx {
        s.definitions.push(d.definitions[i].clone());
    }
    s
}

/// Smallest sub-document (one definition, else two adjacent ones) that still fails with the same
/// kind under `cfg`; returns (sequence class, sub-document).
fn localise(d: &ast::Document, cfg: &SerCfg, kind: &str) -> (String, ast::Document) {
    let n = d.definitions.len();
    for i in 0..n {
        let s = sub_doc(d, &[i]);
        if matches!(roundtrip(&s, cfg), Err(f) if f.kind == kind) {
            return (astgen::def_kind(&d.definitions[i]).to_string(), s);
        }
    }
    for i in 0..n.saturating_sub(1) {
        let s = sub_doc(d, &[i, i + 1]);
        if matches!(roundtrip(&s, cfg), Err(f) if f.kind == kind) {
            return (
                format!("{} then {}", astgen::def_kind(&d.definitions[i]), astgen::def_kind(&d.definitions[i + 1])),
                s,
            );
        }
    }
    ("(whole document)".to_string(), d.clone())
}

/// A text that parses (without errors) to exactly `d`, if apollo's own serializer can provide one.
fn text_for(d: &ast::Document) -> Option<String> {
    for cfg in [SerCfg::default_cfg(), SerCfg { indent: astgen::Indent::None, level: None }] {
        if let Ok(t) = rt::catch(|| cfg.ser_doc(d)) {
            if parse_ok(&t, "c08.graphql").is_some_and(|p| p == *d) {
                return Some(t);
            }
        }
    }
    let mut rng = Rng::new(8);
    let t = astgen::print_doc(d, &mut rng, 0);
    if parse_ok(&t, "c08.graphql").is_some_and(|p| p == *d) {
        return Some(t);
    }
    None
}

pub fn check_case(ctx: &mut Ctx, text: &str, source: &str) -> bool {
    ctx.eval();
    ctx.inflight("C08", text.as_bytes());
    let d = match rt::catch(|| ast::Document::parse(text, "c08.graphql")) {
        Err(_) => {
            // a parser panic is C01's finding
            ctx.count("parser_panics_skipped", 1);
            return false;
        }
        Ok(Err(_)) => {
            ctx.count("inputs_with_parse_errors_skipped", 1);
            ctx.class("source_rejected", source);
            return false;
        }
        Ok(Ok(d)) => d,
    };
    ctx.count("documents_parsed_without_errors", 1);
    ctx.class("source", source);
    ctx.nontrivial_hash(fnv_str(text));
    ctx.count_max("definitions_in_a_document", d.definitions.len() as u64);
    let mut feats = Vec::new();
    astgen::features(&d, &mut feats);
    for f in &feats {
        ctx.class("feature", f);
    }
    let cfgs = SerCfg::all();
    // (path, kind) -> failing configurations
    let mut failures: BTreeMap<(String, String), Vec<(SerCfg, Failure)>> = BTreeMap::new();
    for cfg in &cfgs {
        ctx.count("config_roundtrips", 1);
        ctx.class("config", &cfg.label());
        match roundtrip(&d, cfg) {
            Ok(n) => ctx.count("serialized_bytes", n as u64),
            Err(f) => failures.entry((f.path.clone(), f.kind.clone())).or_default().push((cfg.clone(), f)),
        }
    }
    for ((path, kind), fs) in failures {
        let failing: Vec<&SerCfg> = fs.iter().map(|(c, _)| c).collect();
        let cfg_class = astgen::cfg_class_of(&failing, cfgs.len());
        let (cfg, f) = &fs[0];
        let (seq, sub) = localise(&d, cfg, &kind);
        // A reparse error is located by the smallest failing sub-document. For a single definition
        // the parser's message class is part of the site; for an interaction of two definitions the
        // message depends on the content of the second one and is left out of the signature.
        let (path, kind) = if path.is_empty() {
            if seq.contains(" then ") {
                (seq.clone(), "reparse-error".to_string())
            } else {
                (seq.clone(), kind)
            }
        } else {
            (path_class(&path, &kind), kind)
        };
        let (wtext, wdetail) = match text_for(&sub) {
            Some(t) if t.len() < text.len() => match roundtrip(&sub, cfg) {
                Err(f2) => (t, f2.detail),
                Ok(_) => (text.to_string(), f.detail.clone()),
            },
            _ => (text.to_string(), f.detail.clone()),
        };
        ctx.violation(
            format!("{cfg_class}|{path}|{kind}"),
            format!("config {} (and {} more): {}", cfg.label(), fs.len() - 1, wdetail),
            json!({"text": wtext, "config": cfg.to_json(), "definitions": seq, "source": source}),
        );
    }
    true
}

fn smith_text(rng: &mut Rng) -> Option<String> {
    let n = *rng.pick(&[64usize, 256, 1024, 4096, 16384]);
    let bytes = rng.bytes(n);
    let mut u = arbitrary::Unstructured::new(&bytes);
    let r = rt::catch(|| {
        apollo_smith::DocumentBuilder::new(&mut u)
            .max_scalar_types(3)
            .max_enum_types(3)
            .max_interface_types(3)
            .max_object_types(4)
            .max_union_types(3)
            .max_input_object_types(3)
            .max_fragment_definitions(3)
            .max_directive_definitions(3)
            .max_operation_definitions(3)
            .build()
            .ok()
            .map(String::from)
    });
    r.ok().flatten()
}

fn model_doc(rng: &mut Rng, n: u64) -> (String, ast::Document) {
    let mut g = AstGen::new(rng);
    match n % 8 {
        0 => {
            let (label, d) = g.shorthand_scenario((n / 8) as usize % astgen::SHORTHAND_SCENARIOS);
            (format!("model:{label}"), d)
        }
        1 => ("model:every-definition-kind".to_string(), g.full_document()),
        _ => ("model:random".to_string(), g.document(4)),
    }
}

/// Witnesses of findings on the unchanged tree (and, once repaired, regression witnesses): texts
/// that apollo-parser accepts without errors although the grammar does not, and whose AST the
/// serializer cannot print re-parsably. Replayed by shard 0 at the start of every run.
pub const REGRESSION_TEXTS: &[&str] = &["schema", "schema @d", "schema { query: }", "extend schema { query: }", "\"d\" schema @d(a: 1)"];

pub fn run(ctx: &mut Ctx) {
    let src = TextSource::new();
    if ctx.shard == 0 {
        for t in REGRESSION_TEXTS {
            check_case(ctx, t, "regression");
        }
    }
    ctx.note("configurations", json!(SerCfg::all().iter().map(|c| c.label()).collect::<Vec<_>>()));

    // Phase 0 (all shards, different streams): the shorthand scenarios and a full document.
    for k in 0..(astgen::SHORTHAND_SCENARIOS as u64 * 2 + 2) {
        let mut rng = ctx.sub_rng("c08-scenario", k);
        let (_, d) = if k < astgen::SHORTHAND_SCENARIOS as u64 * 2 {
            AstGen::new(&mut rng).shorthand_scenario(k as usize % astgen::SHORTHAND_SCENARIOS)
        } else {
            ("", AstGen::new(&mut rng).full_document())
        };
        let t = astgen::print_doc(&d, &mut rng, 0);
        check_case(ctx, &t, "model");
    }

    // Phase 1: every corpus file (sharded). Files with syntax errors are outside the property.
    let mut valid_corpus: Vec<usize> = Vec::new();
    for (i, f) in src.files.iter().enumerate() {
        if f.text.len() > 200_000 {
            continue;
        }
        if ctx.mine(i as u64) {
            if check_case(ctx, &f.text, "corpus") {
                ctx.class("corpus_group_accepted", f.group);
            }
        }
        if matches!(f.group, "parser_ok" | "compiler_ok" | "compiler_ser" | "compiler_diag" | "examples_smith" | "examples_compiler_docs")
            && f.text.len() < 8000
        {
            valid_corpus.push(i);
        }
    }

    // Phase 2: model documents (own printer and apollo-printed), smith output, token mutants.
    let mut n = 0u64;
    let mut recent: Vec<String> = Vec::new();
    while !ctx.time_up() {
        n += 1;
        let mut rng = ctx.sub_rng("c08-gen", n);
        match n % 10 {
            0..=4 => {
                let (label, d) = model_doc(&mut rng, n / 10 * 5 + n % 10);
                let trivia = rng.below(3);
                let t = astgen::print_doc(&d, &mut rng, trivia);
                let ok = check_case(ctx, &t, "model");
                if ok {
                    ctx.class("model_kind", &label);
                    // harness sanity (never a verdict): the text should mean the model
                    if parse_ok(&t, "m.graphql").is_some_and(|p| p != d) {
                        ctx.count("model_text_parsed_to_a_different_ast", 1);
                    }
                    if recent.len() < 64 {
                        recent.push(t.clone());
                    } else {
                        let i = rng.below(64);
                        recent[i] = t.clone();
                    }
                    ctx.sample(|| json!({"source": label, "text": clip(&t, 200)}));
                } else {
                    ctx.count("model_texts_rejected_by_parser", 1);
                    ctx.class("model_rejected_kind", &label);
                    if ctx.class_len("model_rejected_sample") < 5 {
                        ctx.class("model_rejected_sample", &clip(&t, 300));
                    }
                }
                // the same AST as printed by apollo-rs itself (a second route to the same models)
                if n % 10 == 4 {
                    let cfgs = SerCfg::all();
                    let cfg = rng.pick(&cfgs);
                    if let Ok(t2) = rt::catch(|| cfg.ser_doc(&d)) {
                        check_case(ctx, &t2, "model_printed_by_apollo");
                    }
                }
            }
            5 | 6 => {
                if let Some(t) = smith_text(&mut rng) {
                    if t.len() < 60_000 {
                        let ok = check_case(ctx, &t, "smith");
                        if ok && t.len() < 6000 {
                            if recent.len() < 64 {
                                recent.push(t);
                            } else {
                                let i = rng.below(64);
                                recent[i] = t;
                            }
                        }
                    }
                } else {
                    ctx.count("smith_gave_no_document", 1);
                }
            }
            _ => {
                // token mutants of valid texts; only those that still parse reach the oracle
                let (kind, base): (&str, String) = if rng.bool() && !recent.is_empty() {
                    ("generated_mutant", rng.pick(&recent).clone())
                } else if !valid_corpus.is_empty() {
                    ("corpus_mutant", src.files[*rng.pick(&valid_corpus)].text.clone())
                } else {
                    ("generated_mutant", "{ a }".to_string())
                };
                let mut s = base;
                for _ in 0..rng.range(1, 2) {
                    s = text::mutate_tokens(&mut rng, &s);
                }
                check_case(ctx, &s, kind);
            }
        }
    }
}

pub fn replay(ctx: &mut Ctx, case: &Value) {
    if let Some(t) = case.get("text").and_then(|t| t.as_str()) {
        check_case(ctx, t, "replay");
    }
}
