//! C11 — Source locations and line/column positions are correct.
//!
//! (a) every `Node`/`Name` reached by an explicit visitor over `ast::Document`, `Schema` and
//!     `ExecutableDocument` built from parsed text has a location in a file of the document's
//!     source map (for the AST: in *the* file), inside the file and on char boundaries;
//! (b) for every `Name`, `&src[offset..end_offset] == name.as_str()`;
//! (c) for every char-boundary offset of the text, `SourceFile::get_line_column(offset)` equals
//!     `RefLineCol` (offsets inside a `\r\n` are not judged);
//! (e) for every such location, `SourceSpan::line_column_range` starts at `RefLineCol(offset)` and ends
//!     at `RefLineCol(end_offset)` or at the position of the span's last scalar value (the
//!     documentation says "inclusive", the code converts the exclusive end: both readings pass);
//! (d) `Diagnostic::line_column_range().start` and `to_json().locations` equal `RefLineCol` of the
//!     diagnostic's span start.
//!
//! Signatures: (c) `c|get_line_column|<line|column>|after-<class of the character whose passing
//! introduces the deviation>`; (d) carries the cause found by the sweep of the same file.

use crate::corpus;
use crate::gen::text as gtext;
use crate::prng::Rng;
use crate::refmodel::linecol::{self, Pos};
use crate::rt::{self, clip, Ctx};
use apollo_compiler::ast;
use apollo_compiler::diagnostic::ToCliReport;
use apollo_compiler::executable as exe;
use apollo_compiler::parser::{FileId, Parser, SourceMap, SourceSpan};
use apollo_compiler::schema as sch;
use apollo_compiler::validation::{DiagnosticList, Valid};
use apollo_compiler::{ExecutableDocument, Name, Node, Schema};
use serde_json::{json, Value};
use std::collections::HashMap;

// ---------------------------------------------------------------------------------------------
// Visitor
// ---------------------------------------------------------------------------------------------

pub struct Item {
    pub what: &'static str,
    pub name: Option<String>,
    pub loc: Option<SourceSpan>,
}

#[derive(Default)]
pub struct Acc {
    pub items: Vec<Item>,
}

impl Acc {
    fn name(&mut self, what: &'static str, n: &Name) {
        self.items.push(Item { what, name: Some(n.as_str().to_string()), loc: n.location() });
    }
    fn opt_name(&mut self, what: &'static str, n: &Option<Name>) {
        if let Some(n) = n {
            self.name(what, n);
        }
    }
    fn node<T: ?Sized>(&mut self, what: &'static str, n: &Node<T>) {
        self.items.push(Item { what, name: None, loc: n.location() });
    }
    fn description(&mut self, d: &Option<Node<str>>) {
        if let Some(d) = d {
            self.node("description", d);
        }
    }

    fn ty(&mut self, t: &ast::Type) {
        match t {
            ast::Type::Named(n) | ast::Type::NonNullNamed(n) => self.name("Type.name", n),
            ast::Type::List(inner) | ast::Type::NonNullList(inner) => self.ty(inner),
        }
    }
    fn value(&mut self, v: &Node<ast::Value>) {
        self.node("Value", v);
        match &**v {
            ast::Value::Null | ast::Value::String(_) | ast::Value::Float(_) | ast::Value::Int(_) | ast::Value::Boolean(_) => {}
            ast::Value::Enum(n) => self.name("Value::Enum", n),
            ast::Value::Variable(n) => self.name("Value::Variable", n),
            ast::Value::List(items) => {
                for i in items {
                    self.value(i);
                }
            }
            ast::Value::Object(fields) => {
                for (k, x) in fields {
                    self.name("ObjectField.name", k);
                    self.value(x);
                }
            }
        }
    }
    fn argument(&mut self, a: &Node<ast::Argument>) {
        self.node("Argument", a);
        self.name("Argument.name", &a.name);
        self.value(&a.value);
    }
    fn directive(&mut self, d: &Node<ast::Directive>) {
        self.node("Directive", d);
        self.name("Directive.name", &d.name);
        for a in &d.arguments {
            self.argument(a);
        }
    }
    fn directives(&mut self, l: &ast::DirectiveList) {
        for d in &l.0 {
            self.directive(d);
        }
    }
    fn variable_definition(&mut self, v: &Node<ast::VariableDefinition>) {
        self.node("VariableDefinition", v);
        self.name("VariableDefinition.name", &v.name);
        self.node("VariableDefinition.ty", &v.ty);
        self.ty(&v.ty);
        if let Some(d) = &v.default_value {
            self.value(d);
        }
        self.directives(&v.directives);
    }
    fn input_value_definition(&mut self, v: &Node<ast::InputValueDefinition>) {
        self.node("InputValueDefinition", v);
        self.description(&v.description);
        self.name("InputValueDefinition.name", &v.name);
        self.node("InputValueDefinition.ty", &v.ty);
        self.ty(&v.ty);
        if let Some(d) = &v.default_value {
            self.value(d);
        }
        self.directives(&v.directives);
    }
    fn field_definition(&mut self, f: &Node<ast::FieldDefinition>) {
        self.node("FieldDefinition", f);
        self.description(&f.description);
        self.name("FieldDefinition.name", &f.name);
        for a in &f.arguments {
            self.input_value_definition(a);
        }
        self.ty(&f.ty);
        self.directives(&f.directives);
    }
    fn enum_value_definition(&mut self, v: &Node<ast::EnumValueDefinition>) {
        self.node("EnumValueDefinition", v);
        self.description(&v.description);
        self.name("EnumValueDefinition.value", &v.value);
        self.directives(&v.directives);
    }
    fn directive_definition(&mut self, d: &Node<ast::DirectiveDefinition>) {
        self.node("DirectiveDefinition", d);
        self.description(&d.description);
        self.name("DirectiveDefinition.name", &d.name);
        for a in &d.arguments {
            self.input_value_definition(a);
        }
    }
    fn root_operations(&mut self, r: &[Node<(ast::OperationType, ast::NamedType)>]) {
        for op in r {
            self.node("RootOperationTypeDefinition", op);
            self.name("RootOperationTypeDefinition.type", &op.1);
        }
    }
    fn selections(&mut self, s: &[ast::Selection]) {
        for sel in s {
            match sel {
                ast::Selection::Field(f) => {
                    self.node("Field", f);
                    self.opt_name("Field.alias", &f.alias);
                    self.name("Field.name", &f.name);
                    for a in &f.arguments {
                        self.argument(a);
                    }
                    self.directives(&f.directives);
                    self.selections(&f.selection_set);
                }
                ast::Selection::FragmentSpread(f) => {
                    self.node("FragmentSpread", f);
                    self.name("FragmentSpread.fragment_name", &f.fragment_name);
                    self.directives(&f.directives);
                }
                ast::Selection::InlineFragment(f) => {
                    self.node("InlineFragment", f);
                    self.opt_name("InlineFragment.type_condition", &f.type_condition);
                    self.directives(&f.directives);
                    self.selections(&f.selection_set);
                }
            }
        }
    }

    pub fn ast_document(&mut self, doc: &ast::Document) {
        use ast::Definition as D;
        for def in &doc.definitions {
            match def {
                D::OperationDefinition(o) => {
                    self.node("OperationDefinition", o);
                    self.opt_name("OperationDefinition.name", &o.name);
                    for v in &o.variables {
                        self.variable_definition(v);
                    }
                    self.directives(&o.directives);
                    self.selections(&o.selection_set);
                }
                D::FragmentDefinition(f) => {
                    self.node("FragmentDefinition", f);
                    self.name("FragmentDefinition.name", &f.name);
                    self.name("FragmentDefinition.type_condition", &f.type_condition);
                    self.directives(&f.directives);
                    self.selections(&f.selection_set);
                }
                D::DirectiveDefinition(d) => self.directive_definition(d),
                D::SchemaDefinition(s) => {
                    self.node("SchemaDefinition", s);
                    self.description(&s.description);
                    self.directives(&s.directives);
                    self.root_operations(&s.root_operations);
                }
                D::SchemaExtension(s) => {
                    self.node("SchemaExtension", s);
                    self.directives(&s.directives);
                    self.root_operations(&s.root_operations);
                }
                D::ScalarTypeDefinition(t) => {
                    self.node("ScalarTypeDefinition", t);
                    self.description(&t.description);
                    self.name("ScalarTypeDefinition.name", &t.name);
                    self.directives(&t.directives);
                }
                D::ScalarTypeExtension(t) => {
                    self.node("ScalarTypeExtension", t);
                    self.name("ScalarTypeExtension.name", &t.name);
                    self.directives(&t.directives);
                }
                D::ObjectTypeDefinition(t) => {
                    self.node("ObjectTypeDefinition", t);
                    self.description(&t.description);
                    self.name("ObjectTypeDefinition.name", &t.name);
                    for i in &t.implements_interfaces {
                        self.name("implements_interfaces", i);
                    }
                    self.directives(&t.directives);
                    for f in &t.fields {
                        self.field_definition(f);
                    }
                }
                D::ObjectTypeExtension(t) => {
                    self.node("ObjectTypeExtension", t);
                    self.name("ObjectTypeExtension.name", &t.name);
                    for i in &t.implements_interfaces {
                        self.name("implements_interfaces", i);
                    }
                    self.directives(&t.directives);
                    for f in &t.fields {
                        self.field_definition(f);
                    }
                }
                D::InterfaceTypeDefinition(t) => {
                    self.node("InterfaceTypeDefinition", t);
                    self.description(&t.description);
                    self.name("InterfaceTypeDefinition.name", &t.name);
                    for i in &t.implements_interfaces {
                        self.name("implements_interfaces", i);
                    }
                    self.directives(&t.directives);
                    for f in &t.fields {
                        self.field_definition(f);
                    }
                }
                D::InterfaceTypeExtension(t) => {
                    self.node("InterfaceTypeExtension", t);
                    self.name("InterfaceTypeExtension.name", &t.name);
                    for i in &t.implements_interfaces {
                        self.name("implements_interfaces", i);
                    }
                    self.directives(&t.directives);
                    for f in &t.fields {
                        self.field_definition(f);
                    }
                }
                D::UnionTypeDefinition(t) => {
                    self.node("UnionTypeDefinition", t);
                    self.description(&t.description);
                    self.name("UnionTypeDefinition.name", &t.name);
                    self.directives(&t.directives);
                    for m in &t.members {
                        self.name("union member", m);
                    }
                }
                D::UnionTypeExtension(t) => {
                    self.node("UnionTypeExtension", t);
                    self.name("UnionTypeExtension.name", &t.name);
                    self.directives(&t.directives);
                    for m in &t.members {
                        self.name("union member", m);
                    }
                }
                D::EnumTypeDefinition(t) => {
                    self.node("EnumTypeDefinition", t);
                    self.description(&t.description);
                    self.name("EnumTypeDefinition.name", &t.name);
                    self.directives(&t.directives);
                    for v in &t.values {
                        self.enum_value_definition(v);
                    }
                }
                D::EnumTypeExtension(t) => {
                    self.node("EnumTypeExtension", t);
                    self.name("EnumTypeExtension.name", &t.name);
                    self.directives(&t.directives);
                    for v in &t.values {
                        self.enum_value_definition(v);
                    }
                }
                D::InputObjectTypeDefinition(t) => {
                    self.node("InputObjectTypeDefinition", t);
                    self.description(&t.description);
                    self.name("InputObjectTypeDefinition.name", &t.name);
                    self.directives(&t.directives);
                    for f in &t.fields {
                        self.input_value_definition(f);
                    }
                }
                D::InputObjectTypeExtension(t) => {
                    self.node("InputObjectTypeExtension", t);
                    self.name("InputObjectTypeExtension.name", &t.name);
                    self.directives(&t.directives);
                    for f in &t.fields {
                        self.input_value_definition(f);
                    }
                }
            }
        }
    }

    fn component_directives(&mut self, l: &sch::DirectiveList) {
        for d in &l.0 {
            self.directive(&d.node);
        }
    }

    /// Walk the main component maps of a schema. `explicit_schema_definition`: the source had a
    /// `schema { … }` definition (otherwise `schema_definition` is synthesised, not parsed).
    pub fn schema(&mut self, s: &Schema, explicit_schema_definition: bool) {
        if explicit_schema_definition {
            self.node("Schema.schema_definition", &s.schema_definition);
            self.description(&s.schema_definition.description);
            for r in [&s.schema_definition.query, &s.schema_definition.mutation, &s.schema_definition.subscription].into_iter().flatten() {
                self.name("Schema.schema_definition root type", &r.name);
            }
        }
        self.component_directives(&s.schema_definition.directives);
        for (k, d) in &s.directive_definitions {
            self.name("Schema.directive_definitions key", k);
            self.directive_definition(d);
        }
        for (k, t) in &s.types {
            self.name("Schema.types key", k);
            match t {
                sch::ExtendedType::Scalar(t) => {
                    self.node("ScalarType", t);
                    self.description(&t.description);
                    self.name("ScalarType.name", &t.name);
                    self.component_directives(&t.directives);
                }
                sch::ExtendedType::Object(t) => {
                    self.node("ObjectType", t);
                    self.description(&t.description);
                    self.name("ObjectType.name", &t.name);
                    for i in &t.implements_interfaces {
                        self.name("ObjectType.implements_interfaces", &i.name);
                    }
                    self.component_directives(&t.directives);
                    for (fk, f) in &t.fields {
                        self.name("ObjectType.fields key", fk);
                        self.field_definition(&f.node);
                    }
                }
                sch::ExtendedType::Interface(t) => {
                    self.node("InterfaceType", t);
                    self.description(&t.description);
                    self.name("InterfaceType.name", &t.name);
                    for i in &t.implements_interfaces {
                        self.name("InterfaceType.implements_interfaces", &i.name);
                    }
                    self.component_directives(&t.directives);
                    for (fk, f) in &t.fields {
                        self.name("InterfaceType.fields key", fk);
                        self.field_definition(&f.node);
                    }
                }
                sch::ExtendedType::Union(t) => {
                    self.node("UnionType", t);
                    self.description(&t.description);
                    self.name("UnionType.name", &t.name);
                    self.component_directives(&t.directives);
                    for m in &t.members {
                        self.name("UnionType.members", &m.name);
                    }
                }
                sch::ExtendedType::Enum(t) => {
                    self.node("EnumType", t);
                    self.description(&t.description);
                    self.name("EnumType.name", &t.name);
                    self.component_directives(&t.directives);
                    for (vk, v) in &t.values {
                        self.name("EnumType.values key", vk);
                        self.enum_value_definition(&v.node);
                    }
                }
                sch::ExtendedType::InputObject(t) => {
                    self.node("InputObjectType", t);
                    self.description(&t.description);
                    self.name("InputObjectType.name", &t.name);
                    self.component_directives(&t.directives);
                    for (fk, f) in &t.fields {
                        self.name("InputObjectType.fields key", fk);
                        self.input_value_definition(&f.node);
                    }
                }
            }
        }
    }

    fn exe_selection_set(&mut self, s: &exe::SelectionSet) {
        // `s.ty` is taken from the schema (or from the enclosing type condition), not parsed here
        for sel in &s.selections {
            match sel {
                exe::Selection::Field(f) => {
                    self.node("executable::Field", f);
                    self.opt_name("executable::Field.alias", &f.alias);
                    self.name("executable::Field.name", &f.name);
                    for a in &f.arguments {
                        self.argument(a);
                    }
                    self.directives(&f.directives);
                    self.exe_selection_set(&f.selection_set);
                }
                exe::Selection::FragmentSpread(f) => {
                    self.node("executable::FragmentSpread", f);
                    self.name("executable::FragmentSpread.fragment_name", &f.fragment_name);
                    self.directives(&f.directives);
                }
                exe::Selection::InlineFragment(f) => {
                    self.node("executable::InlineFragment", f);
                    self.opt_name("executable::InlineFragment.type_condition", &f.type_condition);
                    self.directives(&f.directives);
                    self.exe_selection_set(&f.selection_set);
                }
            }
        }
    }

    pub fn executable(&mut self, d: &ExecutableDocument) {
        let mut ops: Vec<&Node<exe::Operation>> = d.operations.anonymous.iter().collect();
        for (k, o) in &d.operations.named {
            self.name("OperationMap.named key", k);
            ops.push(o);
        }
        for o in ops {
            self.node("executable::Operation", o);
            self.opt_name("executable::Operation.name", &o.name);
            for v in &o.variables {
                self.variable_definition(v);
            }
            self.directives(&o.directives);
            self.exe_selection_set(&o.selection_set);
        }
        for (k, f) in &d.fragments {
            self.name("FragmentMap key", k);
            self.node("executable::Fragment", f);
            self.name("executable::Fragment.name", &f.name);
            self.name("executable::Fragment type condition", &f.selection_set.ty);
            self.directives(&f.directives);
            self.exe_selection_set(&f.selection_set);
        }
    }
}

// ---------------------------------------------------------------------------------------------
// Judging
// ---------------------------------------------------------------------------------------------

/// The non-built-in file of a source map whose text is `text`.
fn file_of(sources: &SourceMap, text: &str) -> Option<FileId> {
    sources.iter().find(|(_, f)| f.source_text() == text).map(|(id, _)| *id)
}

/// Signature of every (a)/(b) failure in a document whose syntax tree lost a token (C02's subject).
pub const SHIFTED_AFTER_LOST_TOKEN: &str = "ab|locations-shifted|syntax-tree-lost-a-token(C02)";

fn judge_items(ctx: &mut Ctx, container: &'static str, acc: &Acc, sources: &SourceMap, the_file: Option<FileId>, text: &str, lossy: bool) {
    ctx.count("nodes_and_names_walked", acc.items.len() as u64);
    if lossy {
        // The tree does not hold the whole input (C02): every later range is shifted. Reported
        // under one signature, whatever node kind shows it first.
        let mut sub = Ctx::new(&ctx.prop, ctx.tier, ctx.seed, ctx.shard, ctx.nshards, 1.0, None);
        judge_items(&mut sub, container, acc, sources, the_file, text, false);
        if sub.violation_count() > 0 {
            ctx.violation(
                SHIFTED_AFTER_LOST_TOKEN,
                "names/nodes have locations that do not cover their text in a document whose syntax tree dropped a token",
                json!({"text": text, "container": container}),
            );
        }
        return;
    }
    let mut failures: Vec<(&'static str, &'static str, &'static str, String, Value)> = Vec::new();
    let mut table: Option<Vec<Pos>> = None;
    for it in &acc.items {
        ctx.class("visited", it.what);
        let case = || json!({"text": text, "container": container, "item": it.what, "name": it.name, "location": it.loc.map(|l| json!([l.offset(), l.end_offset()]))});
        let Some(loc) = it.loc else {
            failures.push(("a", it.what, "no-location", format!("{} in {container} has no location", it.what), case()));
            continue;
        };
        let Some(file) = sources.get(&loc.file_id()) else {
            failures.push(("a", it.what, "file-id-not-in-source-map", format!("{} has a file id that is not in the document's source map", it.what), case()));
            continue;
        };
        if let Some(f) = the_file {
            if loc.file_id() != f {
                failures.push(("a", it.what, "foreign-file-id", format!("{} of a document parsed from one text has another file's id", it.what), case()));
                continue;
            }
        }
        let src = file.source_text();
        let (s, e) = (loc.offset(), loc.end_offset());
        if s > e || e > src.len() {
            failures.push(("a", it.what, "range-outside-file", format!("{} has range {s}..{e} in a file of {} bytes", it.what, src.len()), case()));
            continue;
        }
        if !src.is_char_boundary(s) || !src.is_char_boundary(e) {
            failures.push(("a", it.what, "range-off-char-boundary", format!("{} has range {s}..{e} off a char boundary", it.what), case()));
            continue;
        }
        if let Some(n) = &it.name {
            ctx.count("names_compared_with_source", 1);
            if &src[s..e] != n.as_str() {
                failures.push(("b", it.what, "location-text-differs-from-name", format!("{} `{}` has location {s}..{e} whose text is {:?}", it.what, n, clip(&src[s..e], 60)), case()));
            }
        }
        // (e) both ends of the location's line/column range are conversions of byte offsets. The
        // documentation calls the range "inclusive" while the code converts the exclusive end
        // offset: either reading of the end is accepted (the end offset, or the last scalar value
        // of the span); for an empty span the end equals the start.
        if loc.file_id() == the_file.unwrap_or(loc.file_id()) && src == text {
            let table = table.get_or_insert_with(|| linecol::table(text));
            if let (Some(ps), Some(pe)) = (linecol::at(table, s), linecol::at(table, e)) {
                let last = src[s..e].char_indices().last().map(|(i, _)| s + i).and_then(|o| linecol::at(table, o));
                let crlf = ps.inside_crlf || pe.inside_crlf || last.map(|p| p.inside_crlf).unwrap_or(false);
                if !crlf {
                    ctx.count("location_ranges_converted", 1);
                    if ps.line != pe.line {
                        ctx.count("location_ranges_spanning_lines", 1);
                        if !ctx.has_class("location_range", "spans several lines") {
                            ctx.class("location_range", "spans several lines");
                        }
                        if src[s..e].contains('\r') && !src[s..e].contains('\n') && !ctx.has_class("location_range", "spans a lone CR and no LF") {
                            ctx.class("location_range", "spans a lone CR and no LF");
                        }
                    }
                    match loc.line_column_range(sources) {
                        None => failures.push(("e", it.what, "line_column_range-none", format!("{} at {s}..{e} has no line/column range", it.what), case())),
                        Some(r) => {
                            if (r.start.line, r.start.column) != (ps.line, ps.column) {
                                failures.push(("e", it.what, "line_column_range-start", format!("{} at {s}..{e}: range starts at {:?}, expected {}:{}", it.what, r.start, ps.line, ps.column), case()));
                            }
                            let end_ok = (r.end.line, r.end.column) == (pe.line, pe.column)
                                || match last {
                                    Some(l) => (r.end.line, r.end.column) == (l.line, l.column),
                                    None => false,
                                };
                            if !end_ok {
                                let how = if ps.line == pe.line { "line_column_range-end-on-one-line" } else { "line_column_range-end-across-lines" };
                                failures.push(("e", it.what, how, format!("{} at {s}..{e}: range ends at {:?}, expected {}:{} (exclusive end) or the position of its last character", it.what, r.end, pe.line, pe.column), case()));
                            }
                        }
                    }
                }
            }
        }
        }
    // Names of every kind go through one conversion (`Convert for cst::Name`): the kind of the
    // enclosing item is reported in the message, not in the signature. Nodes keep their kind.
    for (clause, what, failure, message, case) in failures {
        let is_name = case.get("name").is_some_and(|n| !n.is_null());
        let what = if is_name { "Name" } else if clause == "e" { "Node" } else { what };
        ctx.violation(format!("{clause}|{container}|{what}|{failure}"), message, case);
    }
}

/// Result of sweeping every offset of one file.
pub struct Sweep {
    pub table: Vec<Pos>,
    /// (line delta cause, column delta cause) per table entry; "" = agrees
    pub cause: Vec<(&'static str, &'static str)>,
    pub apollo: Vec<Option<(usize, usize)>>,
}

fn prev_class(text: &str, p: &Pos, is_last: bool, column_event: bool) -> &'static str {
    match p.prev {
        Some('\n') | Some('\r') if is_last => "line-terminator-at-end-of-input",
        Some('\n') => {
            if p.offset >= 2 && text.as_bytes()[p.offset - 2] == b'\r' {
                "CRLF"
            } else {
                "LF"
            }
        }
        // a column that moves by the wrong amount over a scalar: what matters is its byte length
        Some(c) if column_event && c.len_utf8() > 1 => "multibyte",
        c => linecol::char_class(c),
    }
}

/// The shortest text that shows the same deviation at its end: the current line up to `offset`.
fn minimise_prefix(text: &str, table: &[Pos], idx: usize) -> String {
    let line = table[idx].line;
    let mut start = idx;
    while start > 0 && table[start - 1].line == line {
        start -= 1;
    }
    // keep one scalar of the previous line end if the deviation is about a terminator
    if table[idx].column == 1 && start > 0 {
        start = start.saturating_sub(2);
        while start > 0 && table[start].inside_crlf {
            start -= 1;
        }
    }
    text[table[start].offset..table[idx].offset].to_string()
}

fn line_column_via_apollo(text: &str) -> Option<(SourceMap, FileId)> {
    let doc = match Parser::new().parse_ast(text.to_string(), "w.graphql") {
        Ok(d) => d,
        Err(e) => e.partial,
    };
    let id = file_of(&doc.sources, text)?;
    Some((doc.sources.clone(), id))
}

pub fn sweep_file(ctx: &mut Ctx, sources: &SourceMap, id: FileId, report: bool) -> Option<Sweep> {
    let file = sources.get(&id)?.clone();
    let text = file.source_text();
    let table = linecol::table(text);
    let mut cause: Vec<(&'static str, &'static str)> = Vec::with_capacity(table.len());
    let mut apollo = Vec::with_capacity(table.len());
    let mut prev_delta: (i64, i64) = (0, 0);
    let mut prev_cause: (&'static str, &'static str) = ("", "");
    let last = table.len() - 1;
    for (i, p) in table.iter().enumerate() {
        let got = file.get_line_column(p.offset).map(|lc| (lc.line, lc.column));
        apollo.push(got);
        if p.inside_crlf {
            cause.push(prev_cause);
            continue;
        }
        ctx.count("offsets_compared", 1);
        let Some((gl, gc)) = got else {
            if report {
                ctx.violation(
                    "c|get_line_column|none-for-offset-in-bounds",
                    format!("get_line_column({}) is None in a file of {} bytes", p.offset, text.len()),
                    json!({"text": text, "offset": p.offset}),
                );
            }
            cause.push(("none", "none"));
            continue;
        };
        let delta = (gl as i64 - p.line as i64, gc as i64 - p.column as i64);
        let mut c = prev_cause;
        let mut event: Option<&'static str> = None;
        if delta.0 != prev_delta.0 {
            let cls = prev_class(text, p, i == last, false);
            c.0 = if delta.0 == 0 { "" } else { cls };
            c.1 = if delta.1 == 0 { "" } else { "(line)" };
            if delta.0 != 0 || delta.1 != 0 {
                event = Some("line");
                c.0 = cls;
            }
        } else if delta.1 != prev_delta.1 {
            if delta.1 == 0 {
                c.1 = "";
            } else {
                c.1 = prev_class(text, p, i == last, true);
                event = Some("column");
            }
        }
        if delta == (0, 0) {
            c = ("", "");
        }
        if let Some(kind) = event {
            let cls = if kind == "line" { c.0 } else { c.1 };
            ctx.class("deviation", &format!("{kind}|after-{cls}"));
            if report {
                // Smallest text showing the same deviation: the current line up to the offset,
                // followed by one more character unless the deviation is about the end of input.
                let prefix = minimise_prefix(text, &table, i);
                let mut witness = if i == last { prefix.clone() } else { format!("{prefix}x") };
                let at = prefix.len();
                let mut w_expected = (0, 0);
                let mut w_got = None;
                let mut ok = false;
                if let Some((s, fid)) = line_column_via_apollo(&witness) {
                    let t = linecol::table(&witness);
                    if let Some(e) = linecol::at(&t, at) {
                        w_expected = (e.line, e.column);
                        w_got = s.get(&fid).and_then(|f| f.get_line_column(at)).map(|lc| (lc.line, lc.column));
                        ok = match w_got {
                            Some(g) => if kind == "line" { g.0 != w_expected.0 } else { g.0 == w_expected.0 && g.1 != w_expected.1 },
                            None => false,
                        };
                    }
                }
                let mut at = at;
                if !ok {
                    witness = text.to_string();
                    at = p.offset;
                    w_expected = (p.line, p.column);
                    w_got = Some((gl, gc));
                }
                ctx.violation(
                    format!("c|get_line_column|{kind}|after-{cls}"),
                    format!(
                        "get_line_column({}) of {:?} = {:?}, expected line {} column {}",
                        at,
                        clip(&witness, 80),
                        w_got,
                        w_expected.0,
                        w_expected.1
                    ),
                    json!({"text": witness, "offset": at, "apollo": w_got, "expected": [w_expected.0, w_expected.1], "clause": "c"}),
                );
            }
        } else if delta != (0, 0) && c == ("", "") {
            if report {
                ctx.violation("c|get_line_column|unexplained", format!("offset {}: got {gl}:{gc}, expected {}:{}", p.offset, p.line, p.column), json!({"text": text, "offset": p.offset}));
            }
        }
        prev_delta = delta;
        prev_cause = c;
        cause.push(c);
    }
    Some(Sweep { table, cause, apollo })
}

fn judge_diagnostics(ctx: &mut Ctx, list: &DiagnosticList, stage: &'static str, sweeps: &mut HashMap<FileId, Option<Sweep>>, text: &str) {
    for d in list.iter() {
        ctx.count("diagnostics_seen", 1);
        let Some(span) = d.error.location() else {
            ctx.count("diagnostics_without_location", 1);
            continue;
        };
        let id = span.file_id();
        if !sweeps.contains_key(&id) {
            // built-in or other file: swept silently (deviations there are not about this text)
            let s = sweep_file(ctx, d.sources, id, false);
            sweeps.insert(id, s);
        }
        let Some(Some(sw)) = sweeps.get(&id) else {
            ctx.count("diagnostics_in_unknown_file", 1);
            continue;
        };
        let Some(idx) = sw.table.binary_search_by_key(&span.offset(), |p| p.offset).ok() else {
            ctx.count("diagnostic_start_inside_scalar_not_judged", 1);
            continue;
        };
        let p = sw.table[idx];
        if p.inside_crlf {
            ctx.count("diagnostic_start_inside_crlf_not_judged", 1);
            continue;
        }
        ctx.count("diagnostic_positions_compared", 1);
        ctx.class("diagnostic_stage", stage);
        let cause = sw.cause[idx];
        let cause_txt = if sw.apollo[idx] == Some((p.line, p.column)) {
            "although-get_line_column-agrees".to_string()
        } else if !cause.0.is_empty() {
            format!("line|after-{}", cause.0)
        } else {
            format!("column|after-{}", cause.1)
        };
        let case = || json!({"text": text, "stage": stage, "message": clip(&d.error.to_string(), 120), "span": [span.offset(), span.end_offset()], "expected": [p.line, p.column], "clause": "d"});
        match d.line_column_range() {
            None => ctx.violation(format!("d|line_column_range|none|{cause_txt}"), "diagnostic has a location but no line/column range", case()),
            Some(r) => {
                if (r.start.line, r.start.column) != (p.line, p.column) {
                    ctx.violation(
                        format!("d|line_column_range|{cause_txt}"),
                        format!("diagnostic at byte {} reports {:?}, expected {}:{}", span.offset(), r.start, p.line, p.column),
                        case(),
                    );
                }
                // the end of the range: either reading (exclusive end offset / last scalar value)
                let pe = linecol::at(&sw.table, span.end_offset());
                let src_ok = d.sources.get(&id).map(|f| f.source_text().is_char_boundary(span.offset()) && f.source_text().is_char_boundary(span.end_offset()) && span.offset() <= span.end_offset()).unwrap_or(false);
                if let (Some(pe), true) = (pe, src_ok) {
                    let file = d.sources.get(&id).unwrap();
                    let last = file.source_text()[span.offset()..span.end_offset()].char_indices().last().map(|(i, _)| span.offset() + i).and_then(|o| linecol::at(&sw.table, o));
                    let judged = !pe.inside_crlf && !last.map(|l| l.inside_crlf).unwrap_or(false) && sw.apollo[idx] == Some((p.line, p.column));
                    if judged {
                        ctx.count("diagnostic_range_ends_compared", 1);
                        let ok = (r.end.line, r.end.column) == (pe.line, pe.column) || last.map(|l| (r.end.line, r.end.column) == (l.line, l.column)).unwrap_or(false);
                        // only when get_line_column itself agrees at the end offset (otherwise clause (c) reports the cause)
                        let end_idx = sw.table.binary_search_by_key(&span.end_offset(), |q| q.offset).ok();
                        let sweep_agrees = end_idx.map(|i| sw.apollo[i] == Some((pe.line, pe.column))).unwrap_or(false);
                        if !ok && sweep_agrees {
                            ctx.violation(
                                format!("d|line_column_range|end|{}", if p.line == pe.line { "on-one-line" } else { "across-lines" }),
                                format!("diagnostic spanning bytes {}..{} reports its end at {:?}, expected {}:{} (exclusive end) or the position of its last character", span.offset(), span.end_offset(), r.end, pe.line, pe.column),
                                case(),
                            );
                        }
                    }
                }
            }
        }
        let j = d.to_json();
        let locs: Vec<(usize, usize)> = j.locations.iter().map(|l| (l.line, l.column)).collect();
        if locs != vec![(p.line, p.column)] {
            ctx.violation(
                format!("d|to_json.locations|{cause_txt}"),
                format!("diagnostic at byte {} has JSON locations {:?}, expected [{}:{}]", span.offset(), locs, p.line, p.column),
                case(),
            );
        }
    }
}

pub fn check_text(ctx: &mut Ctx, text: &str, source: &str) {
    ctx.eval();
    ctx.class("source", source);
    let r = rt::catch(|| check_text_inner(ctx, text));
    if let Err(p) = r {
        // Panics are C01/C21's findings, except assertions of the location machinery itself
        // (`Name::with_location` asserts that the span is as long as the name: clause (b)).
        let f = rt::short_file(&p.file);
        if f.ends_with("src/name.rs") || f.ends_with("src/node.rs") || f.ends_with("src/parser.rs") {
            ctx.violation(
                format!("b|{}", p.signature("parse+convert")),
                format!("assertion of the location machinery failed: {} ({}:{})", clip(&p.message, 200), f, p.line),
                json!({"text": text}),
            );
        } else {
            ctx.count("panicked_cases_skipped", 1);
        }
    }
}

fn has_hostile(text: &str) -> bool {
    text.chars().any(|c| c.len_utf8() > 1 || matches!(c, '\u{000B}' | '\u{000C}' | '\r'))
}

fn check_text_inner(ctx: &mut Ctx, text: &str) {
    let mut lists: Vec<(&'static str, DiagnosticList)> = Vec::new();
    let doc = match Parser::new().parse_ast(text.to_string(), "doc.graphql") {
        Ok(d) => d,
        Err(e) => {
            lists.push(("parse", e.errors));
            e.partial
        }
    };
    let Some(fid) = file_of(&doc.sources, text) else {
        ctx.inconclusive("source map of a parsed document does not hold its text", json!({"text": clip(text, 200)}));
        return;
    };
    if has_hostile(text) {
        ctx.nontrivial(text);
    }
    for c in text.chars() {
        let cls = linecol::char_class(Some(c));
        if cls != "ascii" && cls != "LF" {
            ctx.class("text_feature", cls);
        }
    }
    if text.contains("\r\n") {
        ctx.class("text_feature", "CRLF");
    }
    if text.ends_with(['\n', '\r']) {
        ctx.class("text_feature", "line-terminator-at-end-of-input");
    }
    // Precondition of (a)/(b): the syntax tree holds the whole input (that is property C02).
    let lossy = {
        use apollo_parser::cst::CstNode;
        apollo_parser::Parser::new(text).parse().document().syntax().to_string() != text
    };
    if lossy {
        ctx.count("documents_with_lossy_syntax_tree", 1);
    }
    // (a) (b) on the AST
    let mut acc = Acc::default();
    acc.ast_document(&doc);
    judge_items(ctx, "ast", &acc, &doc.sources, Some(fid), text, lossy);
    // (c)
    let mut sweeps: HashMap<FileId, Option<Sweep>> = HashMap::new();
    let sw = sweep_file(ctx, &doc.sources, fid, true);
    sweeps.insert(fid, sw);
    // Schema and executable document built from the same AST
    let explicit_schema = doc.definitions.iter().any(|d| matches!(d, ast::Definition::SchemaDefinition(_)));
    let has_type_system = doc.definitions.iter().any(|d| !matches!(d, ast::Definition::OperationDefinition(_) | ast::Definition::FragmentDefinition(_)));
    let has_executable = doc.definitions.iter().any(|d| matches!(d, ast::Definition::OperationDefinition(_) | ast::Definition::FragmentDefinition(_)));
    let mut builder = Schema::builder();
    builder = builder.add_ast(&doc);
    let schema = match builder.build() {
        Ok(s) => s,
        Err(e) => {
            lists.push(("schema-build", e.errors));
            e.partial
        }
    };
    if has_type_system {
        let mut acc = Acc::default();
        acc.schema(&schema, explicit_schema);
        judge_items(ctx, "schema", &acc, &schema.sources, None, text, lossy);
        ctx.count("schemas_walked", 1);
    }
    let schema = match schema.validate() {
        Ok(v) => v,
        Err(e) => {
            lists.push(("schema-validation", e.errors));
            Valid::assume_valid(e.partial)
        }
    };
    if has_executable {
        let exec = match doc.to_executable(&schema) {
            Ok(x) => x,
            Err(e) => {
                lists.push(("executable-build", e.errors));
                e.partial
            }
        };
        let mut acc = Acc::default();
        acc.executable(&exec);
        judge_items(ctx, "executable", &acc, &exec.sources, Some(fid), text, lossy);
        ctx.count("executable_documents_walked", 1);
        if let Err(e) = exec.validate(&schema) {
            lists.push(("executable-validation", e.errors));
        }
    }
    // (d)
    for (stage, l) in &lists {
        judge_diagnostics(ctx, l, stage, &mut sweeps, text);
    }
    ctx.class("validity", if lists.is_empty() { "valid" } else { "invalid" });
}

// ---------------------------------------------------------------------------------------------
// Workload
// ---------------------------------------------------------------------------------------------

pub const BASE_DOCS: &[&str] = &[
    // type system with every definition kind, descriptions, defaults, directives
    r#""schema description"
schema @d(a: 1) { query: Query mutation: M }
extend schema @d(a: 2) { subscription: S }
"directive description"
directive @d(a: Int = 1, "arg description" b: [String!] = ["x"]) repeatable on SCHEMA | OBJECT | FIELD_DEFINITION | ARGUMENT_DEFINITION | INTERFACE | UNION | ENUM | ENUM_VALUE | INPUT_OBJECT | INPUT_FIELD_DEFINITION | SCALAR | FIELD | QUERY | VARIABLE_DEFINITION | FRAGMENT_SPREAD | INLINE_FRAGMENT | FRAGMENT_DEFINITION
"scalar description"
scalar Date @d @specifiedBy(url: "https://example.com")
extend scalar Date @d(a: 3)
"""
block description
  second line
"""
type Query implements I & J @d {
  "field description"
  f("arg" a: In = {x: 1, ys: [1, 2], e: A, o: {x: 2}}, b: [[Int!]]! = [[1]]): U @d(b: ["p", "q"])
  i: I
  e(e: E = B): E @deprecated(reason: "no")
  d: Date
}
extend type Query @d(a: 4) { g: Int }
type M { m(x: Float = 1.5, y: Boolean = true, z: ID = null): Int }
type S { s: Int }
interface I @d { i: I }
interface J implements I { i: I j: String }
extend interface J @d { k: Int }
union U @d = Query | M
extend union U = S
"enum description"
enum E @d { "value description" A @d B @deprecated C }
extend enum E { D }
input In @d { "input field" x: Int! = 0 @d, ys: [Int] e: E = A o: In }
extend input In { z: String = "z" }
"#,
    // executable document against the schema above
    r#"type Query { f(a: Int, s: String, l: [Int], o: In, e: E): Query g: Int u: U }
type Other { o: Int }
union U = Query | Other
input In { x: Int ys: [Int] }
enum E { A B }
directive @x(a: Int) repeatable on QUERY | FIELD | FRAGMENT_SPREAD | INLINE_FRAGMENT | FRAGMENT_DEFINITION | VARIABLE_DEFINITION | MUTATION
query Q($a: Int = 1 @x(a: 1), $s: String = "dflt", $l: [Int] = [1, 2], $o: In = {x: 1, ys: [2]}, $e: E = A, $b: Boolean! = true) @x(a: 2) {
  alias: f(a: $a, s: $s, l: $l, o: $o, e: $e) @x(a: 3) @include(if: $b) {
    g
    ...F @x(a: 4)
    ... on Query @x(a: 5) { g }
    ... @skip(if: false) { g }
    u { ... on Other { o } __typename }
  }
  lit: f(a: 7, s: "str", l: [1, 2, 3], o: {x: 1, ys: [1]}, e: B) { g }
  blk: f(s: """block
  string""") { g }
}
fragment F on Query @x(a: 6) { g f(a: null) { g } }
{ g }
"#,
    // invalid in several ways: diagnostics from every stage
    r#"type Query { f(a: Int): Undefined g: Int g: String }
type Query { dup: Int }
interface I { i: Int }
type T implements I { x: Int }
union U = Int
enum E { A A }
input In { self: In! }
extend type Missing { m: Int }
directive @d on NOWHERE
query Q($v: T, $unused: Int) { f(a: "str", nope: 1) { x } missing ...NoSuchFragment }
query Q { g }
fragment Unused on Query { g }
fragment Cyc on Query { ...Cyc }
subscription { g }
"#,
    // syntax errors
    r#"type Query { f: [Int }
query { a(x: ) }
type { }
{ a ..., b }
enum E { }
"#,
];

const HOSTILE_TRIVIA: &[&str] = &[
    " ",
    "\n",
    "\r\n",
    "\r",
    "\t",
    ",",
    "  ",
    "\n\n",
    " # é\n",
    " # 中🚀 comment\r\n",
    " #\u{000C}form feed\n",
    " # a\u{2028}b\n",
    " # \u{0085}nel\r",
    " # \u{2029} ps\n",
    " # \u{000B}vt\n",
    "\u{FEFF}",
    " #\n",
    "\r\n\r\n",
    " # plain\n",
];

const HOSTILE_STRINGS: &[&str] = &[
    "\"é中🚀\"",
    "\"a\u{2028}b\"",
    "\"\u{0085}\"",
    "\"\u{2029}x\"",
    "\"\u{000C}\"",
    "\"\u{000B}\"",
    "\"plain\"",
    "\"\\u00e9 \\n\"",
    "\"\"",
];

const HOSTILE_BLOCKS: &[&str] = &[
    "\"\"\"é\n中\r\n🚀\r x\"\"\"",
    "\"\"\"\u{000C}\n\u{2028}\n\u{0085}\"\"\"",
    "\"\"\"one line é\"\"\"",
    "\"\"\"\n  indented\n    more 中\n  \"\"\"",
    "\"\"\"\u{2029}\u{000B}\r\r\n\"\"\"",
];

/// Re-emit `base` with hostile trivia between tokens and hostile contents in strings/comments.
pub fn hostilify(rng: &mut Rng, base: &str, density: usize) -> String {
    let toks = gtext::crude_tokens(base);
    let mut out = String::with_capacity(base.len() * 2);
    for t in toks {
        let first = t.chars().next().unwrap_or(' ');
        if t.trim_matches(|c| matches!(c, ' ' | '\t' | '\n' | '\r')).is_empty() {
            if rng.below(10) < density {
                let n = rng.range(1, 2);
                for _ in 0..n {
                    out.push_str(rng.pick_str(HOSTILE_TRIVIA));
                }
                // a BOM or comma alone does not separate tokens
                if !out.ends_with([' ', '\n', '\r', '\t']) {
                    out.push(' ');
                }
            } else {
                out.push_str(t);
            }
        } else if first == '#' {
            out.push_str(rng.pick_str(&["# é中🚀", "#\u{000C}", "# \u{2028}\u{0085}", "#", "# ascii"]));
        } else if t.starts_with("\"\"\"") && t.len() >= 6 && t.ends_with("\"\"\"") {
            if rng.below(10) < density {
                out.push_str(rng.pick_str(HOSTILE_BLOCKS));
            } else {
                out.push_str(t);
            }
        } else if first == '"' && t.len() >= 2 && t.ends_with('"') {
            if rng.below(10) < density && !t.contains("http") {
                out.push_str(rng.pick_str(HOSTILE_STRINGS));
            } else {
                out.push_str(t);
            }
        } else {
            out.push_str(t);
        }
    }
    out
}

/// Semantic damage that keeps the syntax intact: diagnostics with locations from validation.
fn damage(rng: &mut Rng, s: &str) -> String {
    let toks = gtext::crude_tokens(s);
    let mut v: Vec<String> = toks.iter().map(|t| t.to_string()).collect();
    let idents: Vec<usize> = v
        .iter()
        .enumerate()
        .filter(|(_, t)| t.chars().next().is_some_and(|c| c.is_ascii_alphabetic()) && !matches!(t.as_str(), "type" | "query" | "on" | "input" | "enum" | "fragment" | "schema" | "extend" | "interface" | "union" | "scalar" | "directive" | "implements" | "repeatable" | "mutation" | "subscription" | "true" | "false" | "null"))
        .map(|(i, _)| i)
        .collect();
    if idents.is_empty() {
        return gtext::mutate_tokens(rng, s);
    }
    let i = *rng.pick(&idents);
    v[i] = rng.pick_str(&["Undefined", "nope", "Int", "é"]).to_string();
    v.concat()
}

pub fn run(ctx: &mut Ctx) {
    let files = corpus::all();
    let max_len = if ctx.quick() { 24_000 } else { 120_000 };
    let mut idx = 0u64;
    // Phase 0: fixed witnesses (known defects, DESIGN §3 row 7) and base documents as they are.
    if ctx.shard == 0 {
        for w in ["\"é中🚀\" x", "# a\u{000C}b\n x", "# a\u{2028}b\n x", "# a\u{0085}b\n x", "{ a }\n", "{\r\n a\r b \n}"] {
            check_text(ctx, w, "fixed_witness");
        }
    }
    for b in BASE_DOCS {
        idx += 1;
        if ctx.mine(idx) {
            check_text(ctx, b, "base_document");
        }
    }
    // Phase 1: every corpus file as it is.
    for f in &files {
        idx += 1;
        if !ctx.mine(idx) || f.text.len() > max_len {
            continue;
        }
        check_text(ctx, &f.text, "corpus");
        if !ctx.until(0.35) {
            ctx.note("corpus_phase_cut_short", json!(true));
            break;
        }
    }
    // Phase 2: generated documents until the budget is used: hostile re-emissions of base and
    // corpus documents, valid and damaged.
    let mut n = 0u64;
    while !ctx.time_up() {
        n += 1;
        let mut rng = ctx.sub_rng("c11-gen", n);
        let (src, base): (&str, &str) = if rng.chance(2, 5) || files.is_empty() {
            ("hostile_base_document", BASE_DOCS[rng.below(BASE_DOCS.len())])
        } else {
            let mut pick = &files[rng.below(files.len())];
            for _ in 0..6 {
                if pick.text.len() <= 6000 {
                    break;
                }
                pick = &files[rng.below(files.len())];
            }
            if pick.text.len() > 6000 {
                ("hostile_base_document", BASE_DOCS[rng.below(BASE_DOCS.len())])
            } else {
                ("hostile_corpus_document", pick.text.as_str())
            }
        };
        let density = rng.range(1, 8);
        let mut text = hostilify(&mut rng, base, density);
        let mut source = src;
        match rng.below(10) {
            0..=2 => {
                text = damage(&mut rng, &text);
                source = "hostile_damaged_names";
            }
            3..=4 => {
                text = gtext::mutate_tokens(&mut rng, &text);
                source = "hostile_token_mutant";
            }
            _ => {}
        }
        check_text(ctx, &text, source);
        ctx.sample(|| json!({"source": source, "text": clip(&text, 200)}));
    }
}

pub fn replay(ctx: &mut Ctx, case: &Value) {
    if let Some(t) = case.get("text").and_then(|t| t.as_str()) {
        check_text(ctx, t, "replay");
    }
}
