//! C29 — Type compatibility checks match the specification (EXHAUSTIVE).
//!
//! Three predicates of apollo-compiler are compared with `RefTypeRel` (refmodel/typerel.rs, written
//! from the October 2021 spec text) over a completely enumerated space:
//!
//! 1. `assignable`: `ast::Type::is_assignable_to(&other)`  ==  AreTypesCompatible(self, other);
//! 2. `usage`: for `query($v: A [= d]) { f(arg: $v) }` against `type Query { f(arg: B [= ld]): Int }`
//!    the presence of a `DisallowedVariableUsage` diagnostic == NOT IsVariableUsageAllowed(A, d, B, ld);
//!    the same case is repeated with the variable nested in an input object field (`{req: $v}`,
//!    `req: B [= ld]`) and in a list item (`[$v]` for `[B]`), where the rejection is reported as
//!    `UnsupportedValueType "... found a variable"`;
//! 3. `impl`: for `interface I { f: A } type O implements I { f: B }` the presence of an
//!    `InvalidImplementationFieldType` diagnostic about `O.f` == NOT IsValidImplementationFieldType(B, A).
//!
//! Space: every wrapping to list depth 2 (quick, 14 shapes) / 3 (thorough, 30 shapes) of every named type, all ordered pairs,
//! d in {none, literal, null}, ld in {none, literal}. The documents are otherwise valid, so the
//! diagnostic under test is the only one that can legitimately appear; a case in which apollo
//! reports anything else is not judged (recorded as inconclusive).

use crate::refmodel::typerel::{self as tr, DefaultKind, Kind, Ty, TypeWorld};
use crate::rt::{self, Ctx};
use apollo_compiler::{ast, ExecutableDocument, Schema};
use serde_json::{json, Value};

/// List nesting bound: 2 in the quick tier (14 wrappings per name), 3 in the thorough tier (30).
pub fn list_depth(ctx: &Ctx) -> usize {
    if ctx.quick() {
        2
    } else {
        3
    }
}
/// Named types for `is_assignable_to` (a pure function of the two type references).
pub const ASSIGN_NAMES: &[&str] = &["Int", "String", "I", "O", "U", "X", "In", "E"];
/// Input types for the variable-usage part.
pub const USAGE_NAMES: &[&str] = &["Int", "String", "In", "E"];
/// Output types for the implementation part: I interface, J interface implementing I, O object
/// implementing I, U union containing O, X unrelated object.
pub const IMPL_NAMES: &[&str] = &["Int", "String", "I", "J", "O", "U", "X"];

fn types_over(names: &[&str], depth: usize) -> Vec<Ty> {
    names.iter().flat_map(|n| tr::all_wrappings(n, depth)).collect()
}

pub use crate::refmodel::typerel::parse_ty;

/// A literal that is a valid value of the (input) type, never `null`, lists written as lists.
fn literal_for(t: &Ty) -> String {
    match t {
        Ty::NonNull(i) => literal_for(i),
        Ty::List(i) => format!("[{}]", literal_for(i)),
        Ty::Named(n) => match n.as_str() {
            "Int" => "1".into(),
            "String" => "\"s\"".into(),
            "In" => "{a: 1}".into(),
            "E" => "V".into(),
            other => panic!("no literal for {other}"),
        },
    }
}

fn default_kind(s: &str) -> DefaultKind {
    match s {
        "literal" => DefaultKind::Literal,
        "null" => DefaultKind::Null,
        _ => DefaultKind::None,
    }
}

fn impl_world() -> TypeWorld {
    let mut w = TypeWorld::default();
    w.add("Int", Kind::Scalar);
    w.add("String", Kind::Scalar);
    w.add("Query", Kind::Object);
    w.add("I", Kind::Interface);
    w.add("J", Kind::Interface);
    w.add("O", Kind::Object);
    w.add("X", Kind::Object);
    w.add("U", Kind::Union);
    w.add_implements("J", "I");
    w.add_implements("O", "I");
    w.add_member("U", "O");
    w
}

/// The same usage case with the variable in a nested position: `field` = the value of an input
/// object field of type B (with or without the field default), `item` = an item of a `[B]` argument
/// (no location default exists there). IsVariableUsageAllowed applies to these usages unchanged.
pub fn usage_texts_at(pos: &str, a: &Ty, d: &str, b: &Ty, ld: bool) -> (String, String) {
    let dv = match d {
        "literal" => format!(" = {}", literal_for(a)),
        "null" => " = null".to_string(),
        _ => String::new(),
    };
    let ldv = if ld { format!(" = {}", literal_for(b)) } else { String::new() };
    match pos {
        "field" => (
            format!("type Query {{ f(arg: W): Int }}\ninput W {{ req: {}{} }}\ninput In {{ a: Int }}\nenum E {{ V }}\n", b.text(), ldv),
            format!("query($v: {}{}) {{ f(arg: {{req: $v}}) }}\n", a.text(), dv),
        ),
        "item" => (
            format!("type Query {{ f(arg: [{}]): Int }}\ninput In {{ a: Int }}\nenum E {{ V }}\n", b.text()),
            format!("query($v: {}{}) {{ f(arg: [$v]) }}\n", a.text(), dv),
        ),
        _ => usage_texts(a, d, b, ld),
    }
}

pub fn usage_texts(a: &Ty, d: &str, b: &Ty, ld: bool) -> (String, String) {
    let schema = format!(
        "type Query {{ f(arg: {}{}): Int }}\ninput In {{ a: Int }}\nenum E {{ V }}\n",
        b.text(),
        if ld { format!(" = {}", literal_for(b)) } else { String::new() }
    );
    let dv = match d {
        "literal" => format!(" = {}", literal_for(a)),
        "null" => " = null".to_string(),
        _ => String::new(),
    };
    let doc = format!("query($v: {}{}) {{ f(arg: $v) }}\n", a.text(), dv);
    (schema, doc)
}

pub fn impl_text(a: &Ty, b: &Ty) -> String {
    format!(
        "type Query {{ q: Int }}\ninterface I {{ f: {a} }}\ninterface J implements I {{ f: {a} }}\ntype O implements I {{ f: {b} }}\ntype X {{ x: Int }}\nunion U = O\n",
        a = a.text(),
        b = b.text()
    )
}

/// (error name or "<none>", message) of every diagnostic.
fn names_of(list: &apollo_compiler::validation::DiagnosticList) -> Vec<(String, String)> {
    list.iter()
        .map(|d| {
            (
                d.error.unstable_error_name().unwrap_or("<unnamed>").to_string(),
                d.error.to_string(),
            )
        })
        .collect()
}

fn check_assignable(ctx: &mut Ctx, a: &Ty, b: &Ty) {
    ctx.eval();
    let case = json!({"part": "assignable", "a": a.text(), "b": b.text()});
    let expected = tr::are_types_compatible(a, b);
    let r = rt::catch(|| {
        let ta = ast::Type::parse(a.text(), "a.graphql").map_err(|e| e.to_string())?;
        let tb = ast::Type::parse(b.text(), "b.graphql").map_err(|e| e.to_string())?;
        Ok::<bool, String>(ta.is_assignable_to(&tb))
    });
    match r {
        Err(p) => ctx.violation(p.signature("Type::is_assignable_to"), format!("panic: {}", p.message), case),
        Ok(Err(e)) => ctx.inconclusive(&format!("type reference did not parse: {e}"), case),
        Ok(Ok(got)) => {
            ctx.class("verdict", &format!("assignable:{}", expected.id()));
            if a != b || a.list_depth() > 0 {
                ctx.nontrivial(&case.to_string());
            }
            if got != expected.ok() {
                let dir = if got { "apollo-accepts/oracle-rejects" } else { "apollo-rejects/oracle-accepts" };
                ctx.violation(
                    format!("assignable|{dir}|{}", expected.id()),
                    format!(
                        "`{}`.is_assignable_to(`{}`) = {got}, AreTypesCompatible = {} ({})",
                        a.text(),
                        b.text(),
                        expected.ok(),
                        expected.id()
                    ),
                    case,
                );
            }
        }
    }
}

fn check_usage(ctx: &mut Ctx, pos: &str, a: &Ty, d: &str, b: &Ty, ld: bool) {
    ctx.eval();
    let (schema_text, doc_text) = usage_texts_at(pos, a, d, b, ld);
    let case = json!({"part": "usage", "pos": pos, "a": a.text(), "d": d, "b": b.text(), "ld": ld, "schema": schema_text, "document": doc_text});
    let expected = tr::is_variable_usage_allowed(a, default_kind(d), b, ld);
    let r = rt::catch(|| {
        let schema = match Schema::parse_and_validate(schema_text.clone(), "schema.graphql") {
            Ok(s) => s,
            Err(e) => return Err(names_of(&e.errors)),
        };
        Ok(match ExecutableDocument::parse_and_validate(&schema, doc_text.clone(), "doc.graphql") {
            Ok(_) => Vec::new(),
            Err(e) => names_of(&e.errors),
        })
    });
    match r {
        Err(p) => ctx.violation(p.signature("validate(variable usage)"), format!("panic: {}", p.message), case),
        Ok(Err(schema_errors)) => {
            ctx.inconclusive(&format!("the schema of a usage case was rejected: {schema_errors:?}"), case);
        }
        Ok(Ok(diags)) => {
            // in a nested position apollo-compiler reports the disallowed usage as an
            // UnsupportedValueType "... found a variable" diagnostic on the enclosing value
            let nested = pos != "arg";
            let others: Vec<&(String, String)> = diags
                .iter()
                .filter(|(n, m)| n != "DisallowedVariableUsage" && !(nested && n == "UnsupportedValueType" && m.ends_with("found a variable")))
                .collect();
            if !others.is_empty() {
                ctx.class("usage_other_diagnostic", &others[0].0);
                ctx.inconclusive(&format!("diagnostic other than the one under test: {others:?}"), case);
                return;
            }
            let got_rejected = !diags.is_empty();
            ctx.class("verdict", &format!("usage:{}", expected.id()));
            ctx.class("usage_defaults", &format!("d={d},ld={ld}"));
            ctx.class("usage_position", pos);
            ctx.nontrivial(&case.to_string());
            if got_rejected == expected.ok() {
                let dir = if got_rejected { "apollo-rejects/oracle-accepts" } else { "apollo-accepts/oracle-rejects" };
                ctx.violation(
                    if pos == "arg" { format!("usage|{dir}|{}", expected.id()) } else { format!("usage|{pos}|{dir}|{}", expected.id()) },
                    format!(
                        "`{}` against `{}`: DisallowedVariableUsage reported = {got_rejected}, IsVariableUsageAllowed = {} ({})",
                        doc_text.trim(),
                        schema_text.lines().next().unwrap_or(""),
                        expected.ok(),
                        expected.id()
                    ),
                    case,
                );
            }
        }
    }
}

fn check_impl(ctx: &mut Ctx, world: &TypeWorld, a: &Ty, b: &Ty) {
    ctx.eval();
    let text = impl_text(a, b);
    let case = json!({"part": "impl", "a": a.text(), "b": b.text(), "schema": text});
    // fieldType = the implementing field's type (B), implementedFieldType = the interface's (A)
    let expected = tr::is_valid_implementation_field_type(world, b, a);
    let r = rt::catch(|| match Schema::parse_and_validate(text.clone(), "schema.graphql") {
        Ok(_) => Vec::new(),
        Err(e) => names_of(&e.errors),
    });
    match r {
        Err(p) => ctx.violation(p.signature("validate(implementation field type)"), format!("panic: {}", p.message), case),
        Ok(diags) => {
            let others: Vec<&(String, String)> = diags.iter().filter(|(n, _)| n != "InvalidImplementationFieldType").collect();
            if !others.is_empty() {
                ctx.class("impl_other_diagnostic", &others[0].0);
                ctx.inconclusive(&format!("diagnostic other than the one under test: {others:?}"), case);
                return;
            }
            let about_o = diags.iter().any(|(_, m)| m.contains("`O.f`"));
            let about_j = diags.iter().any(|(_, m)| m.contains("`J.f`"));
            ctx.class("verdict", &format!("impl:{}", expected.id()));
            ctx.nontrivial(&case.to_string());
            if about_o == expected.ok() {
                let dir = if about_o { "apollo-rejects/oracle-accepts" } else { "apollo-accepts/oracle-rejects" };
                ctx.violation(
                    format!("impl|{dir}|{}", expected.id()),
                    format!(
                        "interface I {{ f: {} }} / type O implements I {{ f: {} }}: InvalidImplementationFieldType reported = {about_o}, IsValidImplementationFieldType = {} ({})",
                        a.text(),
                        b.text(),
                        expected.ok(),
                        expected.id()
                    ),
                    case.clone(),
                );
            }
            // J.f has exactly the interface's type: step 3 (same type) always holds.
            if about_j {
                ctx.violation(
                    "impl|apollo-rejects/oracle-accepts|same-type",
                    format!("interface J implements I repeats `f: {}` verbatim and is reported as not a proper subtype", a.text()),
                    case,
                );
            }
        }
    }
}

const D_KINDS: &[&str] = &["none", "literal", "null"];

pub fn run(ctx: &mut Ctx) {
    let world = impl_world();
    let mut idx = 0u64;
    // Part 1
    let depth = list_depth(ctx);
    ctx.note("list_depth", json!(depth));
    let ts = types_over(ASSIGN_NAMES, depth);
    for a in &ts {
        for b in &ts {
            idx += 1;
            if ctx.mine(idx) {
                check_assignable(ctx, a, b);
            }
        }
    }
    ctx.count_max("assignable_space", (ts.len() * ts.len()) as u64);
    // Part 3 (cheaper than part 2, run first so that a cut-short run is visible in part 2 only)
    let ts = types_over(IMPL_NAMES, depth);
    for a in &ts {
        for b in &ts {
            idx += 1;
            if ctx.mine(idx) {
                check_impl(ctx, &world, a, b);
            }
        }
    }
    ctx.count_max("impl_space", (ts.len() * ts.len()) as u64);
    // Part 2
    let ts = types_over(USAGE_NAMES, depth);
    let mut usage_space = 0u64;
    let mut skipped = 0u64;
    for a in &ts {
        for b in &ts {
            for d in D_KINDS {
                for ld in [false, true] {
                    // `null` is not a valid default for a Non-Null variable: the default itself
                    // would be the error, not the usage.
                    if *d == "null" && a.is_non_null() {
                        skipped += 1;
                        continue;
                    }
                    usage_space += 1;
                    idx += 1;
                    if ctx.mine(idx) {
                        check_usage(ctx, "arg", a, d, b, ld);
                        // the same case with the variable nested in an input object field or a list
                        check_usage(ctx, "field", a, d, b, ld);
                        if !ld {
                            check_usage(ctx, "item", a, d, b, ld);
                        }
                        if ctx.evals % 4096 == 0 {
                            ctx.sample(|| json!({"part": "usage", "a": a.text(), "d": d, "b": b.text(), "ld": ld}));
                        }
                    }
                }
            }
        }
    }
    ctx.count_max("usage_space", usage_space);
    ctx.count_max("usage_skipped_null_default_on_non_null_variable", skipped);
    ctx.class("completed", "whole-space");
    ctx.sample(|| json!({"part": "impl", "schema": impl_text(&Ty::named("I").list(), &Ty::named("O").non_null().list())}));
}

pub fn replay(ctx: &mut Ctx, case: &Value) {
    let g = |k: &str| case.get(k).and_then(|x| x.as_str()).unwrap_or("");
    let (Some(a), Some(b)) = (parse_ty(g("a")), parse_ty(g("b"))) else {
        return;
    };
    match g("part") {
        "assignable" => check_assignable(ctx, &a, &b),
        "usage" => {
            let ld = case.get("ld").and_then(|x| x.as_bool()).unwrap_or(false);
            check_usage(ctx, if g("pos").is_empty() { "arg" } else { g("pos") }, &a, g("d"), &b, ld)
        }
        "impl" => check_impl(ctx, &impl_world(), &a, &b),
        _ => {}
    }
}
