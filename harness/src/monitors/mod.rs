//! One monitor module per property. `REGISTRY` maps a property id to (run, replay).

use crate::rt::Ctx;
use serde_json::Value;

pub mod c01;
pub mod c02;
pub mod c12;
pub mod c13;
pub mod c16;
pub mod c19;
pub mod c21;
pub mod c22;
pub mod c24;
pub mod c32;
pub mod c03;
pub mod c04;
pub mod c06;
pub mod c08;
pub mod c09;
pub mod c10;
pub mod c23;
pub mod c05;
pub mod c07;
pub mod c14;
pub mod c15;
pub mod c17;
pub mod c18;
pub mod c20;
pub mod c11;
pub mod c25;
pub mod c28;
pub mod c29;
pub mod execkit;
pub mod c26;
pub mod c27;
pub mod c33;
pub mod c30;
pub mod c31;
pub mod util;

pub type RunFn = fn(&mut Ctx);
pub type ReplayFn = fn(&mut Ctx, &Value);

pub const REGISTRY: &[(&str, RunFn, ReplayFn)] = &[
    ("C01", c01::run, c01::replay),
    ("C02", c02::run, c02::replay),
    ("C12", c12::run, c12::replay),
    ("C13", c13::run, c13::replay),
    ("C16", c16::run, c16::replay),
    ("C19", c19::run, c19::replay),
    ("C21", c21::run, c21::replay),
    ("C22", c22::run, c22::replay),
    ("C24", c24::run, c24::replay),
    ("C32", c32::run, c32::replay),
    ("C03", c03::run, c03::replay),
    ("C04", c04::run, c04::replay),
    ("C06", c06::run, c06::replay),
    ("C08", c08::run, c08::replay),
    ("C09", c09::run, c09::replay),
    ("C10", c10::run, c10::replay),
    ("C23", c23::run, c23::replay),
    ("C05", c05::run, c05::replay),
    ("C07", c07::run, c07::replay),
    ("C14", c14::run, c14::replay),
    ("C15", c15::run, c15::replay),
    ("C17", c17::run, c17::replay),
    ("C18", c18::run, c18::replay),
    ("C20", c20::run, c20::replay),
    ("C11", c11::run, c11::replay),
    ("C25", c25::run, c25::replay),
    ("C28", c28::run, c28::replay),
    ("C29", c29::run, c29::replay),
    ("C26", c26::run, c26::replay),
    ("C27", c27::run, c27::replay),
    ("C33", c33::run, c33::replay),
    ("C30", c30::run, c30::replay),
    ("C31", c31::run, c31::replay),
];

pub fn find(id: &str) -> Option<(RunFn, ReplayFn)> {
    REGISTRY
        .iter()
        .find(|(n, _, _)| *n == id)
        .map(|(_, r, p)| (*r, *p))
}
