//! One monitor module per property. `REGISTRY` maps a property id to (run, replay).

use crate::rt::Ctx;
use serde_json::Value;

pub mod c01;
pub mod c02;
pub mod c12;
pub mod c13;
pub mod c16;
pub mod c19;
pub mod c21;
pub mod c22;
pub mod c24;
pub mod c32;
pub mod util;

pub type RunFn = fn(&mut Ctx);
pub type ReplayFn = fn(&mut Ctx, &Value);

pub const REGISTRY: &[(&str, RunFn, ReplayFn)] = &[
    ("C01", c01::run, c01::replay),
    ("C02", c02::run, c02::replay),
    ("C12", c12::run, c12::replay),
    ("C13", c13::run, c13::replay),
    ("C16", c16::run, c16::replay),
    ("C19", c19::run, c19::replay),
    ("C21", c21::run, c21::replay),
    ("C22", c22::run, c22::replay),
    ("C24", c24::run, c24::replay),
    ("C32", c32::run, c32::replay),
];

pub fn find(id: &str) -> Option<(RunFn, ReplayFn)> {
    REGISTRY
        .iter()
        .find(|(n, _, _)| *n == id)
        .map(|(_, r, p)| (*r, *p))
}
