//! C15 — Valid schemas are internally consistent.
//!
//! Refuting event: a structural invariant fails on a `Valid<Schema>` that apollo accepted.
//! The checker walks apollo's public `Schema` API (`schema_definition`, `types`,
//! `directive_definitions`) with its own small functions; it does not use the harness model or
//! `RefSchemaRules`: it inspects what was accepted rather than predicting acceptance.
//!
//! Invariants (exactly those of the property statement):
//!  query-root            a query root is present
//!  roots                 every root operation type is an object type, pairwise distinct
//!  references            every referenced type exists with the right kind (output types for fields,
//!                        input types for arguments / input fields / directive-definition arguments,
//!                        objects for union members, interfaces for `implements`)
//!  implementation        every object / interface satisfies the field, argument and
//!                        transitive-interface contracts of what it implements
//!  input-cycle           no input object has a cycle through non-null, non-list fields
//!  reserved-names        no user-defined name starts with `__`
//!  builtin-scalars       the type map holds exactly the built-in scalars (Int, Float, String,
//!                        Boolean, ID) that are referenced by some field, argument, input field or
//!                        directive-definition argument — counting the built-in definitions too
//!                        (introspection types and built-in directives are part of every schema:
//!                        `schema/validation.rs` records references while it validates *every* entry
//!                        of `types` and `directive_definitions`, so String and Boolean are always
//!                        referenced)

use crate::corpus;
use crate::gen::model::*;
use crate::gen::schema_gen::replace_inner;
use crate::gen::schema_mut as sm;
use crate::monitors::c14;
use crate::prng::{fnv_str, Rng};
use crate::rt::{self, clip, Ctx};
use apollo_compiler::ast::{FieldDefinition, InputValueDefinition, Type};
use apollo_compiler::schema::ExtendedType;
use apollo_compiler::validation::Valid;
use apollo_compiler::Schema;
use serde_json::{json, Value};
use std::collections::{BTreeSet, HashMap, HashSet};

const BUILTIN_SCALAR_NAMES: &[&str] = &["Int", "Float", "String", "Boolean", "ID"];

#[derive(Debug, Clone)]
pub struct Broken {
    pub clause: &'static str,
    pub class: String,
    pub detail: String,
}

#[derive(Default, Debug, Clone)]
pub struct Stats {
    /// clauses that were decided on at least one real instance in this schema
    pub exercised: BTreeSet<&'static str>,
    pub type_refs: u64,
    pub implemented_fields: u64,
    pub input_edges: u64,
    pub user_names: u64,
    pub builtin_scalars_present: u64,
}

#[derive(Clone, Copy, PartialEq, Eq, Debug)]
enum K {
    Scalar,
    Object,
    Interface,
    Union,
    Enum,
    Input,
}

fn kind_of(t: &ExtendedType) -> K {
    match t {
        ExtendedType::Scalar(_) => K::Scalar,
        ExtendedType::Object(_) => K::Object,
        ExtendedType::Interface(_) => K::Interface,
        ExtendedType::Union(_) => K::Union,
        ExtendedType::Enum(_) => K::Enum,
        ExtendedType::InputObject(_) => K::Input,
    }
}

fn k_name(k: K) -> &'static str {
    match k {
        K::Scalar => "scalar",
        K::Object => "object",
        K::Interface => "interface",
        K::Union => "union",
        K::Enum => "enum",
        K::Input => "input-object",
    }
}

fn inner(t: &Type) -> &str {
    match t {
        Type::Named(n) | Type::NonNullNamed(n) => n.as_str(),
        Type::List(x) | Type::NonNullList(x) => inner(x),
    }
}

fn non_null(t: &Type) -> bool {
    matches!(t, Type::NonNullNamed(_) | Type::NonNullList(_))
}

/// One level of unwrapping: (is non-null, Some(item) for a list / None for a named type, name)
fn shape(t: &Type) -> (bool, Option<&Type>, &str) {
    match t {
        Type::Named(n) => (false, None, n.as_str()),
        Type::NonNullNamed(n) => (true, None, n.as_str()),
        Type::List(x) => (false, Some(x), ""),
        Type::NonNullList(x) => (true, Some(x), ""),
    }
}

fn same_type(a: &Type, b: &Type) -> bool {
    let (an, ai, aname) = shape(a);
    let (bn, bi, bname) = shape(b);
    if an != bn {
        return false;
    }
    match (ai, bi) {
        (None, None) => aname == bname,
        (Some(x), Some(y)) => same_type(x, y),
        _ => false,
    }
}

struct Walk<'a> {
    schema: &'a Schema,
    kinds: HashMap<&'a str, K>,
}

impl<'a> Walk<'a> {
    fn new(schema: &'a Schema) -> Self {
        let kinds = schema.types.iter().map(|(n, t)| (n.as_str(), kind_of(t))).collect();
        Walk { schema, kinds }
    }

    fn implements_of(&self, name: &str) -> Vec<&'a str> {
        match self.schema.types.get(name) {
            Some(ExtendedType::Object(o)) => o.implements_interfaces.iter().map(|c| c.name.as_str()).collect(),
            Some(ExtendedType::Interface(i)) => i.implements_interfaces.iter().map(|c| c.name.as_str()).collect(),
            _ => vec![],
        }
    }

    fn fields_of(&self, name: &str) -> Vec<&'a FieldDefinition> {
        match self.schema.types.get(name) {
            Some(ExtendedType::Object(o)) => o.fields.values().map(|c| &***c).collect(),
            Some(ExtendedType::Interface(i)) => i.fields.values().map(|c| &***c).collect(),
            _ => vec![],
        }
    }

    /// IsValidImplementationFieldType(fieldType, implementedFieldType), own transcription on `Type`.
    fn covariant(&self, field: &Type, implemented: &Type) -> bool {
        let (fnn, fitem, fname) = shape(field);
        let (inn, iitem, iname) = shape(implemented);
        // a nullable field cannot implement a non-null one
        if inn && !fnn {
            return false;
        }
        match (fitem, iitem) {
            (Some(x), Some(y)) => self.covariant(x, y),
            (None, None) => {
                if fname == iname {
                    return true;
                }
                match (self.kinds.get(fname), self.kinds.get(iname)) {
                    (Some(K::Object), Some(K::Union)) => match self.schema.types.get(iname) {
                        Some(ExtendedType::Union(u)) => u.members.iter().any(|m| m.name.as_str() == fname),
                        _ => false,
                    },
                    (Some(K::Object | K::Interface), Some(K::Interface)) => self.implements_of(fname).contains(&iname),
                    _ => false,
                }
            }
            _ => false,
        }
    }
}

fn required(a: &InputValueDefinition) -> bool {
    non_null(&a.ty) && a.default_value.is_none()
}

/// Check every invariant on an accepted schema.
pub fn check_schema(schema: &Valid<Schema>) -> (Vec<Broken>, Stats) {
    let schema: &Schema = schema;
    let w = Walk::new(schema);
    let mut out: Vec<Broken> = Vec::new();
    let mut st = Stats::default();
    fn brk(clause: &'static str, class: String, detail: String) -> Broken {
        Broken { clause, class, detail }
    }

    // --- query-root, roots -----------------------------------------------------------------
    let sd = &schema.schema_definition;
    st.exercised.insert("query-root");
    if sd.query.is_none() {
        out.push(brk("query-root", "missing".into(), "schema_definition.query is None".into()));
    }
    let roots: Vec<(&str, &str)> = [("query", &sd.query), ("mutation", &sd.mutation), ("subscription", &sd.subscription)]
        .into_iter()
        .filter_map(|(op, r)| r.as_ref().map(|c| (op, c.name.as_str())))
        .collect();
    for (op, name) in &roots {
        st.exercised.insert("roots");
        match w.kinds.get(name) {
            None => out.push(brk("roots", format!("{op}-root-undefined"), format!("{op} root `{name}` is not in the type map"))),
            Some(K::Object) => {}
            Some(k) => out.push(brk("roots", format!("{op}-root-is-{}", k_name(*k)), format!("{op} root `{name}` is not an object type"))),
        }
    }
    for (i, (_, a)) in roots.iter().enumerate() {
        for (_, b) in roots.iter().skip(i + 1) {
            if a == b {
                out.push(brk("roots", "not-distinct".into(), format!("type `{a}` is the root of two operations")));
            }
        }
    }

    // --- references, reserved names, referenced built-in scalars ---------------------------
    let mut referenced: HashSet<&str> = HashSet::new();
    let input_value = |site: &'static str, user_defined: bool, a: &InputValueDefinition, st: &mut Stats, out: &mut Vec<Broken>| {
        st.type_refs += 1;
        let n = inner(&a.ty);
        match w.kinds.get(n) {
            // a missing built-in scalar is the `builtin-scalars` clause's finding
            None if BUILTIN_SCALAR_NAMES.contains(&n) => {}
            None => out.push(Broken {
                clause: "references",
                class: format!("{site}-type-undefined"),
                detail: format!("{site} `{}` has type `{n}` which is not in the type map", a.name),
            }),
            Some(K::Scalar | K::Enum | K::Input) => {}
            Some(k) => out.push(Broken {
                clause: "references",
                class: format!("{site}-type-is-{}", k_name(*k)),
                detail: format!("{site} `{}` has non-input type `{n}`", a.name),
            }),
        }
        if user_defined {
            st.user_names += 1;
            if a.name.starts_with("__") {
                out.push(Broken {
                    clause: "reserved-names",
                    class: site.to_string(),
                    detail: format!("{site} `{}`", a.name),
                });
            }
        }
    };
    for (name, ty) in &schema.types {
        let user = !ty.is_built_in();
        if user {
            st.user_names += 1;
            st.exercised.insert("reserved-names");
            if name.starts_with("__") {
                out.push(Broken {
                    clause: "reserved-names",
                    class: format!("{}-type", k_name(kind_of(ty))),
                    detail: format!("type `{name}`"),
                });
            }
        }
        match ty {
            ExtendedType::Scalar(_) => {}
            ExtendedType::Object(_) | ExtendedType::Interface(_) => {
                let me = k_name(kind_of(ty));
                for f in w.fields_of(name.as_str()) {
                    st.type_refs += 1;
                    st.exercised.insert("references");
                    let n = inner(&f.ty);
                    match w.kinds.get(n) {
                        None if BUILTIN_SCALAR_NAMES.contains(&n) => {}
                        None => out.push(Broken {
                            clause: "references",
                            class: format!("{me}-field-type-undefined"),
                            detail: format!("field `{name}.{}` has type `{n}` which is not in the type map", f.name),
                        }),
                        Some(K::Input) => out.push(Broken {
                            clause: "references",
                            class: format!("{me}-field-type-is-input-object"),
                            detail: format!("field `{name}.{}` has non-output type `{n}`", f.name),
                        }),
                        Some(_) => {}
                    }
                    if user {
                        st.user_names += 1;
                        if f.name.starts_with("__") {
                            out.push(Broken {
                                clause: "reserved-names",
                                class: format!("{me}-field"),
                                detail: format!("field `{name}.{}`", f.name),
                            });
                        }
                    }
                    for a in &f.arguments {
                        input_value("field-argument", user, a, &mut st, &mut out);
                    }
                }
                for i in w.implements_of(name.as_str()) {
                    st.type_refs += 1;
                    st.exercised.insert("references");
                    match w.kinds.get(i) {
                        None => out.push(Broken {
                            clause: "references",
                            class: format!("{me}-implements-undefined"),
                            detail: format!("`{name}` implements `{i}` which is not in the type map"),
                        }),
                        Some(K::Interface) => {}
                        Some(k) => out.push(Broken {
                            clause: "references",
                            class: format!("{me}-implements-{}", k_name(*k)),
                            detail: format!("`{name}` implements `{i}` which is not an interface"),
                        }),
                    }
                }
            }
            ExtendedType::Union(u) => {
                for m in &u.members {
                    st.type_refs += 1;
                    st.exercised.insert("references");
                    match w.kinds.get(m.name.as_str()) {
                        None => out.push(Broken {
                            clause: "references",
                            class: "union-member-undefined".into(),
                            detail: format!("union `{name}` has member `{}` which is not in the type map", m.name),
                        }),
                        Some(K::Object) => {}
                        Some(k) => out.push(Broken {
                            clause: "references",
                            class: format!("union-member-is-{}", k_name(*k)),
                            detail: format!("union `{name}` has non-object member `{}`", m.name),
                        }),
                    }
                }
            }
            ExtendedType::Enum(e) => {
                if user {
                    for v in e.values.keys() {
                        st.user_names += 1;
                        if v.starts_with("__") {
                            out.push(Broken {
                                clause: "reserved-names",
                                class: "enum-value".into(),
                                detail: format!("enum value `{name}.{v}`"),
                            });
                        }
                    }
                }
            }
            ExtendedType::InputObject(io) => {
                for f in io.fields.values() {
                    st.exercised.insert("references");
                    input_value("input-field", user, f, &mut st, &mut out);
                }
            }
        }
    }
    for (name, def) in &schema.directive_definitions {
        let user = !def.is_built_in();
        if user {
            st.user_names += 1;
            if name.starts_with("__") {
                out.push(Broken {
                    clause: "reserved-names",
                    class: "directive-definition".into(),
                    detail: format!("directive `@{name}`"),
                });
            }
        }
        for a in &def.arguments {
            st.exercised.insert("references");
            input_value("directive-argument", user, a, &mut st, &mut out);
        }
    }

    // --- implementation contracts --------------------------------------------------------------
    for (name, ty) in &schema.types {
        if !matches!(ty, ExtendedType::Object(_) | ExtendedType::Interface(_)) {
            continue;
        }
        let me = k_name(kind_of(ty));
        let mine = w.implements_of(name.as_str());
        let my_fields = w.fields_of(name.as_str());
        for i in &mine {
            if w.kinds.get(i) != Some(&K::Interface) {
                continue; // reported by `references`
            }
            for j in w.implements_of(i) {
                st.exercised.insert("implementation");
                if !mine.contains(&j) {
                    out.push(Broken {
                        clause: "implementation",
                        class: format!("{me}:transitive-interface-not-declared"),
                        detail: format!("`{name}` implements `{i}` which implements `{j}`, but `{name}` does not declare `{j}`"),
                    });
                }
            }
            for ifield in w.fields_of(i) {
                st.implemented_fields += 1;
                st.exercised.insert("implementation");
                let Some(f) = my_fields.iter().find(|f| f.name == ifield.name) else {
                    out.push(Broken {
                        clause: "implementation",
                        class: format!("{me}:interface-field-missing"),
                        detail: format!("`{name}` lacks field `{}` of interface `{i}`", ifield.name),
                    });
                    continue;
                };
                if !w.covariant(&f.ty, &ifield.ty) {
                    out.push(Broken {
                        clause: "implementation",
                        class: format!("{me}:field-type-not-covariant"),
                        detail: format!("`{name}.{}`: {} does not implement `{i}.{}`: {}", f.name, f.ty, ifield.name, ifield.ty),
                    });
                }
                for ia in &ifield.arguments {
                    match f.arguments.iter().find(|a| a.name == ia.name) {
                        None => out.push(Broken {
                            clause: "implementation",
                            class: format!("{me}:interface-argument-missing"),
                            detail: format!("`{name}.{}` lacks argument `{}` of `{i}.{}`", f.name, ia.name, ifield.name),
                        }),
                        Some(a) => {
                            if !same_type(&a.ty, &ia.ty) {
                                out.push(Broken {
                                    clause: "implementation",
                                    class: format!("{me}:argument-type-differs"),
                                    detail: format!("`{name}.{}({}: {})` but `{i}` declares {}", f.name, a.name, a.ty, ia.ty),
                                });
                            }
                        }
                    }
                }
                for a in &f.arguments {
                    if !ifield.arguments.iter().any(|ia| ia.name == a.name) && required(a) {
                        out.push(Broken {
                            clause: "implementation",
                            class: format!("{me}:extra-argument-required"),
                            detail: format!("`{name}.{}` has required argument `{}` that `{i}.{}` does not declare", f.name, a.name, ifield.name),
                        });
                    }
                }
            }
        }
    }

    // --- input cycles: own DFS over edges `field: Name!` between input objects -----------------------
    let mut edges: HashMap<&str, Vec<&str>> = HashMap::new();
    for (name, ty) in &schema.types {
        if let ExtendedType::InputObject(io) = ty {
            st.exercised.insert("input-cycle");
            let e = edges.entry(name.as_str()).or_default();
            for f in io.fields.values() {
                if let Type::NonNullNamed(n) = &*f.ty {
                    if w.kinds.get(n.as_str()) == Some(&K::Input) {
                        st.input_edges += 1;
                        e.push(n.as_str());
                    }
                }
            }
        }
    }
    {
        // colours: 0 unseen, 1 on the stack, 2 done
        let mut colour: HashMap<&str, u8> = HashMap::new();
        let mut cyc = false;
        let names: Vec<&str> = edges.keys().copied().collect();
        for start in names {
            if colour.get(start).copied().unwrap_or(0) != 0 {
                continue;
            }
            let mut stack: Vec<(&str, usize)> = vec![(start, 0)];
            colour.insert(start, 1);
            while let Some((n, i)) = stack.pop() {
                let next = edges.get(n).and_then(|v| v.get(i)).copied();
                match next {
                    None => {
                        colour.insert(n, 2);
                    }
                    Some(m) => {
                        stack.push((n, i + 1));
                        match colour.get(m).copied().unwrap_or(0) {
                            0 => {
                                colour.insert(m, 1);
                                stack.push((m, 0));
                            }
                            1 => cyc = true,
                            _ => {}
                        }
                    }
                }
            }
        }
        if cyc {
            out.push(Broken {
                clause: "input-cycle",
                class: "non-null-cycle".into(),
                detail: "input objects reference each other through an unbroken chain of non-null, non-list fields".into(),
            });
        }
    }

    // --- built-in scalars: present in `types` <=> referenced ------------------------------------------
    // second pass for the referenced names (fields, arguments, input fields, directive arguments),
    // built-in definitions included
    for (name, ty) in &schema.types {
        for f in w.fields_of(name.as_str()) {
            referenced.insert(inner(&f.ty));
            for a in &f.arguments {
                referenced.insert(inner(&a.ty));
            }
        }
        if let ExtendedType::InputObject(io) = ty {
            for f in io.fields.values() {
                referenced.insert(inner(&f.ty));
            }
        }
    }
    for def in schema.directive_definitions.values() {
        for a in &def.arguments {
            referenced.insert(inner(&a.ty));
        }
    }
    st.exercised.insert("builtin-scalars");
    for b in BUILTIN_SCALAR_NAMES {
        let present = schema.types.contains_key(*b);
        let is_ref = referenced.contains(b);
        if present {
            st.builtin_scalars_present += 1;
            if w.kinds.get(b) != Some(&K::Scalar) {
                out.push(Broken {
                    clause: "builtin-scalars",
                    class: "built-in-name-is-not-a-scalar".into(),
                    detail: format!("`{b}` is in the type map but is not a scalar"),
                });
            }
        }
        if present && !is_ref {
            out.push(Broken {
                clause: "builtin-scalars",
                class: "unreferenced-but-present".into(),
                detail: format!("built-in scalar `{b}` is in the type map but nothing references it"),
            });
        }
        if !present && is_ref {
            out.push(Broken {
                clause: "builtin-scalars",
                class: "referenced-but-missing".into(),
                detail: format!("built-in scalar `{b}` is referenced but missing from the type map"),
            });
        }
    }
    if st.implemented_fields > 0 {
        st.exercised.insert("implementation");
    }
    (out, st)
}

// -------------------------------------------------------------------------------------------------
// Cases
// -------------------------------------------------------------------------------------------------

fn validate(text: &str) -> Option<Result<Valid<Schema>, usize>> {
    rt::catch(|| match Schema::parse_and_validate(text.to_string(), "schema.graphql") {
        Ok(s) => Ok(s),
        Err(e) => Err(e.errors.len()),
    })
    .ok()
}

/// Judge one text: when apollo accepts it, every invariant must hold. Returns apollo's error count
/// (0 = accepted) for the hill climber.
pub fn check_text(ctx: &mut Ctx, source: &str, text: &str) -> Option<usize> {
    ctx.eval();
    ctx.inflight("C15", json!({"source": source, "text": text}).to_string().as_bytes());
    let r = match validate(text) {
        Some(r) => r,
        None => {
            ctx.count("apollo_panicked_skipped", 1);
            return None;
        }
    };
    let schema = match r {
        Ok(s) => s,
        Err(n) => {
            ctx.count("rejected_by_apollo", 1);
            return Some(n.max(1));
        }
    };
    audit(ctx, source, &schema, json!({"source": source, "text": text}), fnv_str(text));
    if ctx.evals % 256 == 1 {
        ctx.sample(|| json!({"source": source, "text": clip(text, 300)}));
    }
    Some(0)
}

/// All invariants on one accepted schema.
fn audit(ctx: &mut Ctx, source: &str, schema: &Valid<Schema>, case: Value, key: u64) {
    ctx.count("accepted_schemas_checked", 1);
    ctx.class("source", source.split('/').next().unwrap_or(""));
    let (broken, st) = check_schema(schema);
    for c in &st.exercised {
        ctx.class("clause", &format!("{c}:exercised"));
    }
    ctx.count("type_references_checked", st.type_refs);
    ctx.count("implemented_interface_fields_checked", st.implemented_fields);
    ctx.count("input_object_non_null_edges", st.input_edges);
    ctx.count("user_defined_names_checked", st.user_names);
    ctx.class("builtin_scalars_in_type_map", &format!("{}", st.builtin_scalars_present));
    if st.exercised.len() >= 5 {
        ctx.nontrivial_hash(key);
    }
    if st.implemented_fields > 0 {
        ctx.class("clause", "implementation:with-interface-fields");
    }
    if st.input_edges > 0 {
        ctx.class("clause", "input-cycle:with-non-null-edges");
    }
    for b in broken {
        let earliness = 1000u64.saturating_sub((ctx.used() * 1000.0) as u64);
        ctx.count_max(&format!("earliness_permille|invariant|{}|{}", b.clause, b.class), earliness);
        ctx.violation(
            format!("invariant|{}|{}", b.clause, b.class),
            format!("accepted schema breaks `{}`: {}", b.clause, b.detail),
            case.clone(),
        );
    }
}

// -------------------------------------------------------------------------------------------------
// In-memory sessions: validate, take the schema back, edit it through the public API, validate again
// -------------------------------------------------------------------------------------------------

fn apply_edit(schema: &mut Schema, e: &Value) -> bool {
    use apollo_compiler::schema::Component;
    use apollo_compiler::{Name, Node};
    let g = |k: &str| e.get(k).and_then(|v| v.as_str()).unwrap_or("");
    let (Ok(ty), Ok(name)) = (Name::new(g("type")), Name::new(g("name"))) else { return false };
    let scalar = Name::new(g("scalar")).unwrap_or_else(|_| apollo_compiler::name!("Int"));
    let field = |name: &Name| FieldDefinition { description: None, name: name.clone(), arguments: vec![], ty: Type::Named(scalar.clone()), directives: Default::default() };
    let input = |name: &Name| InputValueDefinition { description: None, name: name.clone(), ty: Node::new(Type::Named(scalar.clone())), default_value: None, directives: Default::default() };
    match (g("op"), schema.types.get_mut(&ty)) {
        ("add_field", Some(ExtendedType::Object(o))) => o.make_mut().fields.insert(name.clone(), Component::new(field(&name))).is_none(),
        ("remove_field", Some(ExtendedType::Object(o))) => o.make_mut().fields.shift_remove(&name).is_some(),
        ("add_argument", Some(ExtendedType::Object(o))) => {
            let Ok(f) = Name::new(g("field")) else { return false };
            match o.make_mut().fields.get_mut(&f) {
                Some(fd) if !fd.arguments.iter().any(|a| a.name == name) => {
                    fd.make_mut().arguments.push(Node::new(input(&name)));
                    true
                }
                _ => false,
            }
        }
        ("add_input_field", Some(ExtendedType::InputObject(o))) => o.make_mut().fields.insert(name.clone(), Component::new(input(&name))).is_none(),
        _ => false,
    }
}

/// `rounds`: lists of edits; after each list the schema is validated again and, when accepted, audited.
pub fn check_session(ctx: &mut Ctx, source: &str, text: &str, rounds: &[Vec<Value>]) {
    ctx.eval();
    let case = json!({"source": source, "text": text, "session": rounds});
    ctx.inflight("C15", case.to_string().as_bytes());
    let Some(Ok(mut valid)) = validate(text) else {
        ctx.count("session_start_not_accepted", 1);
        return;
    };
    ctx.count("sessions", 1);
    for (ri, edits) in rounds.iter().enumerate() {
        let r = rt::catch(move || {
            let mut s = valid.into_inner();
            let applied = edits.iter().filter(|e| apply_edit(&mut s, e)).count();
            (applied, s.validate().map_err(|e| e.errors.len()))
        });
        match r {
            Err(_) => {
                ctx.count("apollo_panicked_skipped", 1);
                return;
            }
            Ok((_, Err(_))) => {
                ctx.count("session_rounds_rejected_by_apollo", 1);
                return;
            }
            Ok((applied, Ok(v))) => {
                ctx.count("session_rounds_accepted", 1);
                ctx.count("session_edits_applied", applied as u64);
                let before = ctx.has_class("builtin_scalars_in_type_map", "5");
                audit(ctx, source, &v, case.clone(), fnv_str(&format!("{text}|{ri}|{}", json!(rounds))));
                if ri > 0 || applied > 0 {
                    ctx.class("session", "re-validated after API edits");
                }
                let _ = before;
                valid = v;
            }
        }
    }
}

/// Random rounds of edits for the schema `text` validates to.
fn gen_session(rng: &mut Rng, text: &str) -> Option<Vec<Vec<Value>>> {
    let valid = validate(text)?.ok()?;
    let objects: Vec<String> = valid.types.iter().filter(|(_, t)| matches!(t, ExtendedType::Object(_)) && !t.is_built_in()).map(|(n, _)| n.to_string()).collect();
    let inputs: Vec<String> = valid.types.iter().filter(|(_, t)| matches!(t, ExtendedType::InputObject(_))).map(|(n, _)| n.to_string()).collect();
    if objects.is_empty() {
        return None;
    }
    let mut present: Vec<&str> = BUILTIN_SCALAR_NAMES.iter().copied().filter(|n| valid.types.contains_key(*n)).collect();
    let mut added: Vec<(String, String)> = Vec::new();
    let mut rounds = Vec::new();
    let mut k = 0;
    for _ in 0..rng.range(1, 4) {
        let mut edits = Vec::new();
        if rng.chance(1, 3) {
            // reference every built-in scalar that is not in the type map right now
            for sc in BUILTIN_SCALAR_NAMES {
                if !present.contains(sc) {
                    k += 1;
                    let ty = rng.pick(&objects).clone();
                    edits.push(json!({"op": "add_field", "type": ty, "name": format!("vf{k}"), "scalar": sc}));
                    added.push((ty, format!("vf{k}")));
                    present.push(sc);
                }
            }
        }
        for _ in 0..rng.below(4) {
            k += 1;
            let sc = *rng.pick(BUILTIN_SCALAR_NAMES);
            match rng.below(5) {
                0 | 1 => {
                    let ty = rng.pick(&objects).clone();
                    edits.push(json!({"op": "add_field", "type": ty, "name": format!("vf{k}"), "scalar": sc}));
                    added.push((ty, format!("vf{k}")));
                    if !present.contains(&sc) {
                        present.push(sc);
                    }
                }
                2 if !added.is_empty() => {
                    let (ty, f) = rng.pick(&added).clone();
                    edits.push(json!({"op": "add_argument", "type": ty, "field": f, "name": format!("va{k}"), "scalar": sc}));
                    if !present.contains(&sc) {
                        present.push(sc);
                    }
                }
                3 if !inputs.is_empty() => {
                    edits.push(json!({"op": "add_input_field", "type": rng.pick(&inputs), "name": format!("vi{k}"), "scalar": sc}));
                    if !present.contains(&sc) {
                        present.push(sc);
                    }
                }
                _ if !added.is_empty() => {
                    let i = rng.below(added.len());
                    let (ty, f) = added.remove(i);
                    edits.push(json!({"op": "remove_field", "type": ty, "name": f}));
                    // whether a scalar becomes unused is for validation to work out
                    present = Vec::new();
                }
                _ => {}
            }
        }
        rounds.push(edits);
    }
    Some(rounds)
}

// -------------------------------------------------------------------------------------------------
// Hill climbing from an invalid document towards acceptance
// -------------------------------------------------------------------------------------------------

fn all_type_names(doc: &Doc) -> Vec<String> {
    let mut v: Vec<String> = BUILTIN_SCALAR_NAMES.iter().map(|s| s.to_string()).collect();
    for d in &doc.defs {
        if let Def::Type(t) = d {
            if !t.ext && !v.contains(&t.name) {
                v.push(t.name.clone());
            }
        }
    }
    v
}

fn rewrap(t: &TyRef, rng: &mut Rng) -> TyRef {
    match rng.below(4) {
        0 => t.nullable(),
        1 => t.clone().non_null(),
        2 => t.clone().list(),
        _ => match t.nullable() {
            TyRef::List(x) => *x,
            x => x,
        },
    }
}

/// One random small edit (repair or further damage). `None` when the pick does not apply.
fn random_edit(doc: &Doc, rng: &mut Rng) -> Option<Doc> {
    let mut d = doc.clone();
    if d.defs.is_empty() {
        return None;
    }
    match rng.below(12) {
        0 => {
            let i = rng.below(d.defs.len());
            d.defs.remove(i);
        }
        1 | 2 => {
            let i = rng.below(d.defs.len());
            let n = c14::member_edits(&d.defs[i]);
            if n == 0 || !c14::apply_member_edit(&mut d.defs[i], rng.below(n)) {
                return None;
            }
        }
        3 | 4 => {
            // retarget / rewrap a random type reference
            let names = all_type_names(&d);
            let target = names[rng.below(names.len())].clone();
            let rewrap_only = rng.bool();
            let i = rng.below(d.defs.len());
            let edit = |t: &mut TyRef, rng: &mut Rng| {
                *t = if rewrap_only { rewrap(t, rng) } else { replace_inner(t, &target) };
            };
            match &mut d.defs[i] {
                Def::Type(t) => {
                    let nf = t.fields.len();
                    let ni = t.input_fields.len();
                    if nf > 0 {
                        let k = rng.below(nf);
                        let f = &mut t.fields[k];
                        if !f.args.is_empty() && rng.bool() {
                            let a = rng.below(f.args.len());
                            edit(&mut f.args[a].ty, rng);
                        } else {
                            edit(&mut f.ty, rng);
                        }
                    } else if ni > 0 {
                        let k = rng.below(ni);
                        edit(&mut t.input_fields[k].ty, rng);
                    } else if !t.members.is_empty() {
                        let k = rng.below(t.members.len());
                        t.members[k] = target.clone();
                    } else {
                        return None;
                    }
                }
                Def::Directive(dd) => {
                    if dd.args.is_empty() {
                        return None;
                    }
                    let k = rng.below(dd.args.len());
                    edit(&mut dd.args[k].ty, rng);
                }
                Def::Schema(s) => {
                    if s.roots.is_empty() {
                        return None;
                    }
                    let k = rng.below(s.roots.len());
                    s.roots[k].1 = target.clone();
                }
                _ => return None,
            }
        }
        5 => {
            // declare one more interface on an object / interface
            let ifaces: Vec<String> = d
                .defs
                .iter()
                .filter_map(|x| match x {
                    Def::Type(t) if t.kind == Kind::Interface && !t.ext => Some(t.name.clone()),
                    _ => None,
                })
                .collect();
            if ifaces.is_empty() {
                return None;
            }
            let hosts: Vec<usize> = (0..d.defs.len())
                .filter(|i| matches!(&d.defs[*i], Def::Type(t) if matches!(t.kind, Kind::Object | Kind::Interface)))
                .collect();
            if hosts.is_empty() {
                return None;
            }
            let h = hosts[rng.below(hosts.len())];
            if let Def::Type(t) = &mut d.defs[h] {
                t.implements.push(ifaces[rng.below(ifaces.len())].clone());
            }
        }
        6 => {
            // copy a field of some interface into an object / interface (what a repair would do)
            let mut pool: Vec<FieldDef> = Vec::new();
            for x in &d.defs {
                if let Def::Type(t) = x {
                    if t.kind == Kind::Interface {
                        pool.extend(t.fields.iter().cloned());
                    }
                }
            }
            if pool.is_empty() {
                return None;
            }
            let f = pool[rng.below(pool.len())].clone();
            let hosts: Vec<usize> = (0..d.defs.len())
                .filter(|i| matches!(&d.defs[*i], Def::Type(t) if matches!(t.kind, Kind::Object | Kind::Interface)))
                .collect();
            if hosts.is_empty() {
                return None;
            }
            let h = hosts[rng.below(hosts.len())];
            if let Def::Type(t) = &mut d.defs[h] {
                t.fields.retain(|g| g.name != f.name);
                t.fields.push(f);
            }
        }
        7 => {
            // give an extension the kind of its definition / turn a duplicate definition into an extension
            let i = rng.below(d.defs.len());
            let name_kind: Vec<(String, Kind)> = d
                .defs
                .iter()
                .filter_map(|x| match x {
                    Def::Type(t) if !t.ext => Some((t.name.clone(), t.kind)),
                    _ => None,
                })
                .collect();
            if let Def::Type(t) = &mut d.defs[i] {
                if t.ext {
                    if let Some((_, k)) = name_kind.iter().find(|(n, _)| *n == t.name) {
                        t.kind = *k;
                    } else {
                        t.ext = false;
                    }
                } else {
                    t.ext = true;
                }
            } else {
                return None;
            }
        }
        8 => {
            // rename a definition (drops or creates collisions and dangling references)
            let i = rng.below(d.defs.len());
            let names = all_type_names(&d);
            let fresh = if rng.bool() { format!("Hc{}", rng.below(5)) } else { names[rng.below(names.len())].clone() };
            match &mut d.defs[i] {
                Def::Type(t) => t.name = fresh,
                Def::Directive(dd) => dd.name = format!("hc{}", rng.below(5)),
                _ => return None,
            }
        }
        // mutators and neutral edits are written for valid documents; here they meet arbitrary
        // ones, so a harness-side panic in them is contained
        9 => return rt::catch(|| sm::neutral(&d, rng).map(|(x, _)| x)).ok().flatten(),
        10 => {
            let m = &sm::MUTATORS[rng.below(sm::MUTATORS.len())];
            return rt::catch(|| (m.f)(&d, rng)).ok().flatten();
        }
        _ => {
            // add a field of a built-in scalar type somewhere: changes which built-in scalars are used
            let b = rng.pick_str(BUILTIN_SCALAR_NAMES);
            let i = rng.below(d.defs.len());
            if let Def::Type(t) = &mut d.defs[i] {
                match t.kind {
                    Kind::Object | Kind::Interface => t.fields.push(sm::fld(&format!("hc{}", rng.below(9)), b)),
                    Kind::Input => t.input_fields.push(sm::inp(&format!("hc{}", rng.below(9)), b)),
                    _ => return None,
                }
            } else {
                return None;
            }
        }
    }
    Some(d)
}

/// Start from an invalid document; accept an edit when apollo's diagnostic count does not grow;
/// every accepted schema on the way is checked.
fn hill_climb(ctx: &mut Ctx, start: &Doc, label: &str, rng: &mut Rng, max_steps: usize) {
    let mut cur = start.clone();
    let Some(mut cur_err) = check_text(ctx, &format!("hill-climb-start/{label}"), &print_plain(&cur)) else {
        return;
    };
    ctx.count("hill_climbs", 1);
    let mut accepted = 0u64;
    for _ in 0..max_steps {
        if ctx.time_up() {
            break;
        }
        let Some(cand) = random_edit(&cur, rng) else {
            continue;
        };
        if cand.defs.len() > 60 {
            continue;
        }
        let text = if rng.chance(1, 4) { print_trivia(&cand, rng) } else { print_plain(&cand) };
        ctx.count("hill_climb_steps", 1);
        let Some(err) = check_text(ctx, &format!("hill-climb/{label}"), &text) else {
            continue;
        };
        if err == 0 {
            accepted += 1;
            ctx.count("hill_climb_accepted_schemas", 1);
            if cur_err > 0 {
                ctx.count("hill_climbs_that_crossed_into_acceptance", 1);
            }
        }
        if err <= cur_err || rng.chance(1, 10) {
            cur = cand;
            cur_err = err;
        }
        // once accepted, keep walking along the boundary for a few more steps
        if accepted >= 4 {
            break;
        }
    }
}

pub const REGRESSION_TEXTS: &[(&str, &str)] = &[
    ("only-query", "type Query { a: Int }"),
    ("id-only-in-argument", "type Query { a(x: ID): String }"),
    ("float-only-in-directive-argument", "type Query { a: String }\ndirective @d(f: Float) on FIELD"),
    ("int-only-in-input-field", "type Query { a(i: In): String }\ninput In { n: Int }"),
    ("no-int-float-id", "type Query { a: String, b: Boolean }"),
    ("redefined-skip-with-int", "type Query { a: String }\ndirective @skip(if: Boolean!, n: Int) on FIELD"),
    ("interface-chain", "type Query { a: A }\ninterface A { x(i: Int): A }\ninterface B implements A { x(i: Int, j: ID): B }\ntype T implements B & A { x(i: Int, j: ID, k: Float = 1.5): T! }"),
    ("nullable-input-cycle", "type Query { a(i: In): Int }\ninput In { self: In, l: [In!]!, o: Other! }\ninput Other { back: In }"),
];

pub fn run(ctx: &mut Ctx) {
    ctx.note(
        "oracle",
        json!("structural invariant checker over apollo's public Schema API (schema_definition, types, directive_definitions); independent of RefSchemaRules"),
    );
    if ctx.shard == 0 {
        for (name, text) in REGRESSION_TEXTS {
            check_text(ctx, &format!("regression/{name}"), text);
            let mut rng = Rng::new(fnv_str(name));
            for _ in 0..8 {
                if let Some(rounds) = gen_session(&mut rng, text) {
                    check_session(ctx, "api-session", text, &rounds);
                }
            }
        }
        for (name, text) in c14::REGRESSION_TEXTS {
            check_text(ctx, &format!("regression/{name}"), text);
        }
    }
    // corpora (type-system part of every file that parses)
    let files = corpus::all();
    for (i, f) in files.iter().enumerate() {
        if !ctx.mine(i as u64) {
            continue;
        }
        if let Some(c) = c14::parsed_case(format!("{}/{}", f.group, f.name), &f.text) {
            let t = c.text.clone().unwrap_or_default();
            check_text(ctx, &format!("corpus/{}", f.group), &t);
        }
    }
    let rules = crate::refmodel::schema_rules::rule_ids();
    let mut n = 0u64;
    while !ctx.time_up() {
        n += 1;
        let mut rng = ctx.sub_rng("c15", n);
        // C14's workload: everything apollo accepts there is checked here
        let round = [rules[(n as usize * 3) % rules.len()], rules[(n as usize * 3 + 1) % rules.len()], rules[(n as usize * 3 + 2) % rules.len()]];
        let cases = c14::model_cases(&mut rng, n, &round);
        let mut invalid: Vec<(String, Doc)> = Vec::new();
        for c in &cases {
            let plain = print_plain(&c.doc);
            let mut tr = Rng::new(c.trivia_seed);
            let trivia = print_trivia(&c.doc, &mut tr);
            let label = c.source.split('/').next().unwrap_or("").to_string();
            let e = check_text(ctx, &format!("c14-workload-{label}"), &plain);
            check_text(ctx, &format!("c14-workload-{label}"), &trivia);
            if matches!(e, Some(x) if x > 0) {
                invalid.push((c.source.clone(), c.doc.clone()));
            } else if e == Some(0) && rng.chance(1, 2) {
                if let Some(rounds) = gen_session(&mut rng, &plain) {
                    check_session(ctx, "api-session", &plain, &rounds);
                }
            }
        }
        // hill climbing from the invalid ones
        for (label, doc) in invalid.iter().take(3) {
            let steps = if ctx.quick() { 25 } else { 40 };
            let short = label.split('/').nth(1).unwrap_or("x").to_string();
            hill_climb(ctx, doc, &short, &mut rng, steps);
        }
        if n % 6 == 0 {
            if let Some(text) = c14::smith_text(&mut rng) {
                if let Some(c) = c14::parsed_case("smith".into(), &text) {
                    check_text(ctx, "smith/generated", &c.text.unwrap_or_default());
                }
            }
        }
    }
    ctx.count("workload_iterations", n);
}

pub fn replay(ctx: &mut Ctx, case: &Value) {
    let c = case.get("case").unwrap_or(case);
    if let Some(text) = c.get("text").and_then(|t| t.as_str()) {
        let source = c.get("source").and_then(|t| t.as_str()).unwrap_or("replay");
        if let Some(rounds) = c.get("session").and_then(|r| r.as_array()) {
            let rounds: Vec<Vec<Value>> = rounds.iter().map(|r| r.as_array().cloned().unwrap_or_default()).collect();
            check_session(ctx, source, text, &rounds);
            return;
        }
        check_text(ctx, source, text);
    }
}
