//! C02 — The document syntax tree is lossless.
//!
//! Oracle: direct invariant walk over the CST: token i starts where token i-1 ended, first at 0,
//! last at len; concatenated token text == input; every node range == span of its children; all
//! boundaries on char boundaries.

use crate::gen::inputs::TextSource;
use crate::gen::text;
use crate::rt::{self, clip, Ctx};
use apollo_parser::cst::CstNode;
use apollo_parser::{Parser, SyntaxElement, SyntaxKind, SyntaxNode};
use serde_json::{json, Value};

pub struct Loss {
    pub clause: &'static str,
    pub detail: String,
    pub site: String,
}

/// One stretch of input that is missing from the tree's token sequence.
#[derive(Debug, Clone)]
pub struct Dropped {
    pub at: usize,
    pub text: String,
    /// The missing text is exactly one token that directly follows (trivia aside) the `[` of a
    /// LIST_TYPE node without an item type: the call site of known finding C02/1.
    pub after_childless_list_bracket: bool,
    pub site: String,
}

pub struct Walk {
    pub tokens: usize,
    pub error_tokens: usize,
    pub dropped: Vec<Dropped>,
}

fn is_trivia(k: SyntaxKind) -> bool {
    matches!(k, SyntaxKind::WHITESPACE | SyntaxKind::COMMENT | SyntaxKind::COMMA)
}

fn list_type_without_item(n: &SyntaxNode) -> bool {
    n.kind() == SyntaxKind::LIST_TYPE
        && !n.children().any(|c| {
            matches!(
                c.kind(),
                SyntaxKind::NAMED_TYPE | SyntaxKind::LIST_TYPE | SyntaxKind::NON_NULL_TYPE
            )
        })
}

/// Walk a tree and align its tokens with the input. A token whose text is not at the expected
/// input position is re-synchronised by skipping exactly one input lexeme (recorded as `Dropped`);
/// anything that cannot be re-synchronised that way is a hard `Loss`.
/// `require_full`: the tokens must cover the whole input.
pub fn check_tree(root: &SyntaxNode, input: &str, require_full: bool) -> Result<Walk, Loss> {
    let mut pos = 0usize; // position in the input
    let mut tpos = 0usize; // position in the tree's own coordinates
    let mut tokens = 0usize;
    let mut error_tokens = 0usize;
    let mut dropped = Vec::new();
    let mut seen: Vec<apollo_parser::SyntaxToken> = Vec::new();
    let items = lexer_items(input);
    let mut li = 0usize;
    for el in root.descendants_with_tokens() {
        match el {
            SyntaxElement::Node(n) => {
                let r = n.text_range();
                let (s, e): (usize, usize) = (r.start().into(), r.end().into());
                // span of children (in the tree's own coordinates)
                let mut first = None;
                let mut last = None;
                for c in n.children_with_tokens() {
                    let cr = c.text_range();
                    if first.is_none() {
                        first = Some(usize::from(cr.start()));
                    }
                    last = Some(usize::from(cr.end()));
                }
                if let (Some(f), Some(l)) = (first, last) {
                    if f != s || l != e {
                        return Err(Loss {
                            clause: "node-span",
                            detail: format!("node {:?} range {s}..{e} but children span {f}..{l}", n.kind()),
                            site: format!("{:?}", n.kind()),
                        });
                    }
                } else if s != e {
                    return Err(Loss {
                        clause: "node-span",
                        detail: format!("childless node {:?} with non-empty range {s}..{e}", n.kind()),
                        site: format!("{:?}", n.kind()),
                    });
                }
            }
            SyntaxElement::Token(t) => {
                tokens += 1;
                if t.kind() == SyntaxKind::ERROR {
                    error_tokens += 1;
                }
                let r = t.text_range();
                let (s, e): (usize, usize) = (r.start().into(), r.end().into());
                let parent = t.parent().map(|p| format!("{:?}", p.kind())).unwrap_or_default();
                if s != tpos || e - s != t.text().len() {
                    return Err(Loss {
                        clause: "token-order",
                        detail: format!("token {:?} has range {s}..{e}, expected to start at {tpos} with length {}", t.kind(), t.text().len()),
                        site: format!("{parent}|{:?}", t.kind()),
                    });
                }
                tpos = e;
                if t.text().is_empty() {
                    // zero-length tokens (an EOF token attached under some kind) carry no text
                    continue;
                }
                // Align with the lexer's own item sequence (tokens and error fragments, in order):
                // the tree's tokens must be exactly those items. One missing item is recorded as
                // `Dropped` and the walk re-synchronises; anything else is a hard loss.
                if li < items.len() && items[li].1 == t.text() && items[li].0 == pos {
                    li += 1;
                } else if li + 1 < items.len() && items[li + 1].1 == t.text() && items[li].0 == pos {
                    let lex = items[li].1;
                    dropped.push(classify_drop(&seen, pos, lex));
                    pos += lex.len();
                    li += 2;
                } else {
                    let lex = items.get(li).map(|x| x.1).unwrap_or("");
                    return Err(Loss {
                        clause: "token-text",
                        detail: format!(
                            "token {:?} text {:?} is not the lexer item at input offset {pos}: input has {:?}",
                            t.kind(),
                            clip(t.text(), 40),
                            clip(&input[pos..], 40)
                        ),
                        site: format!("{parent}|{:?}|{}", t.kind(), lexeme_class(lex)),
                    });
                }
                let end = pos + t.text().len();
                if !input.is_char_boundary(pos) || !input.is_char_boundary(end) {
                    return Err(Loss {
                        clause: "token-boundary",
                        detail: format!("token {:?} maps to input {pos}..{end}, off a char boundary", t.kind()),
                        site: format!("{parent}|{:?}", t.kind()),
                    });
                }
                pos = end;
                seen.push(t);
            }
        }
    }
    if require_full && pos != input.len() {
        let rest = &input[pos..];
        let lex = items.get(li).map(|x| x.1).unwrap_or("");
        if li + 1 == items.len() && lex.len() == rest.len() {
            dropped.push(classify_drop(&seen, pos, lex));
        } else {
            return Err(Loss {
                clause: "coverage",
                detail: format!("tokens cover 0..{pos} of {} bytes; missing tail {:?}", input.len(), clip(rest, 40)),
                site: format!("tail|{}", lexeme_class(lex)),
            });
        }
    }
    let root_range = root.text_range();
    if usize::from(root_range.start()) != 0 || usize::from(root_range.end()) != tpos {
        return Err(Loss {
            clause: "root-span",
            detail: format!("root range {:?} but tokens cover 0..{tpos}", root_range),
            site: format!("{:?}", root.kind()),
        });
    }
    Ok(Walk {
        tokens,
        error_tokens,
        dropped,
    })
}

/// The lexer's items (tokens and error fragments with non-empty text) in input order, without
/// any limit. Only the *boundaries* are taken from the lexer (its correctness is C03's subject);
/// the text is sliced from the input.
fn lexer_items(input: &str) -> Vec<(usize, &str)> {
    let mut v = Vec::new();
    for item in apollo_parser::Lexer::new(input) {
        let (i, l) = match &item {
            Ok(t) => (t.index(), t.data().len()),
            Err(e) => (e.index(), e.data().len()),
        };
        if l > 0 && i + l <= input.len() && input.is_char_boundary(i) && input.is_char_boundary(i + l) {
            v.push((i, &input[i..i + l]));
        }
    }
    v.sort_by_key(|x| x.0);
    v
}

fn classify_drop(seen: &[apollo_parser::SyntaxToken], at: usize, lex: &str) -> Dropped {
    // Greedy alignment finds the *latest* position consistent with one dropped lexeme; when the
    // same lexeme repeats (`[]]`) the drop may have happened before an equal token. Walk back over
    // trivia and tokens equal to the dropped text.
    let mut after = false;
    let mut site = String::from("start");
    for t in seen.iter().rev() {
        // Lexer-error fragments met while peeking for the item type are queued and flushed as
        // ERROR tokens between the `[` and the position of the dropped token.
        if is_trivia(t.kind()) || t.text() == lex || t.kind() == SyntaxKind::ERROR {
            continue;
        }
        let parent = t.parent();
        site = format!(
            "{:?}|{:?}",
            parent.as_ref().map(|p| p.kind()),
            t.kind()
        );
        if t.kind() == SyntaxKind::L_BRACK {
            if let Some(p) = parent {
                after = list_type_without_item(&p);
            }
        }
        break;
    }
    let starts_type = lex.starts_with('[')
        || lex
            .chars()
            .next()
            .map(|c| c.is_ascii_alphabetic() || c == '_')
            .unwrap_or(false);
    Dropped {
        at,
        text: lex.to_string(),
        after_childless_list_bracket: after && !starts_type,
        site: format!("{site}|{}", lexeme_class(lex)),
    }
}

fn lexeme_class(t: &str) -> &'static str {
    match t.chars().next() {
        None => "nothing",
        Some(c) if c.is_ascii_alphabetic() || c == '_' => "name",
        Some(c) if c.is_ascii_digit() => "number",
        Some('"') => "string",
        Some(c) if c.is_whitespace() => "whitespace",
        Some('#') => "comment",
        Some(c) if c.is_ascii() => "punctuator",
        Some(_) => "non-ascii",
    }
}

pub const KNOWN_LIST_ITEM_DROP: &str = "dropped-token|after `[` of a list type without item type";

pub fn check_case(ctx: &mut Ctx, input: &str, recursion_limit: Option<usize>, source: &str) {
    ctx.eval();
    ctx.inflight("C02", input.as_bytes());
    let r = rt::catch(|| {
        let mut p = Parser::new(input);
        if let Some(r) = recursion_limit {
            p = p.recursion_limit(r);
        }
        let tree = p.parse();
        let limited = tree.errors().any(|e| e.is_limit());
        let n_err = tree.errors().count();
        let doc = tree.document();
        let full_text = doc.syntax().to_string();
        // A recursion-limit stop does not end lexing: the tree must still hold the whole input.
        let walk = check_tree(doc.syntax(), input, true);
        (limited, n_err, full_text, walk)
    });
    let case = json!({"text": input, "recursion_limit": recursion_limit});
    match r {
        Err(_) => {
            // a panic is C01's finding; here it is only counted
            ctx.count("panicked_cases_skipped", 1);
        }
        Ok((limited, n_err, full_text, walk)) => match walk {
            Ok(w) => {
                ctx.count("tokens_walked", w.tokens as u64);
                ctx.count("error_tokens_seen", w.error_tokens as u64);
                if limited {
                    ctx.count("recursion_limited_cases", 1);
                }
                if n_err > 0 && w.error_tokens > 0 {
                    ctx.nontrivial(input);
                }
                ctx.count(if n_err > 0 { "cases_with_errors" } else { "cases_without_errors" }, 1);
                if w.dropped.is_empty() {
                    if full_text != input {
                        ctx.violation(
                            "text-differs-but-tokens-align",
                            "syntax().to_string() differs from the input although all tokens align",
                            case,
                        );
                    }
                } else {
                    for d in &w.dropped {
                        if d.after_childless_list_bracket {
                            ctx.count("known_list_item_drops", 1);
                            ctx.violation(
                                KNOWN_LIST_ITEM_DROP,
                                format!("input lexeme {:?} at byte {} is in no token of the tree", d.text, d.at),
                                case.clone(),
                            );
                        } else {
                            ctx.violation(
                                format!("dropped-token|{}", d.site),
                                format!("input lexeme {:?} at byte {} is in no token of the tree", clip(&d.text, 40), d.at),
                                case.clone(),
                            );
                        }
                    }
                }
            }
            Err(loss) => {
                ctx.violation(format!("{}|{}", loss.clause, loss.site), loss.detail, case);
            }
        },
    }
    ctx.class("source", source);
}

/// Inject one lexical/syntactic error at every token position of a valid text.
fn inject_everywhere(ctx: &mut Ctx, base: &str, cap: usize) {
    const INJECT: &[&str] = &["!", "é", "\"", "[!", "$", "}", "{", "1.", "\\", "...", "@", ")", "(", "|", "&", "=", ":", "\u{0}", "0x", "\"\"\"", "]", "["];
    let toks = text::crude_tokens(base);
    let mut offs = Vec::with_capacity(toks.len() + 1);
    let mut o = 0;
    for t in &toks {
        offs.push(o);
        o += t.len();
    }
    offs.push(o);
    let mut done = 0;
    let step = (offs.len() * INJECT.len() / cap.max(1)).max(1);
    let mut k = ctx.rng.below(step);
    let total = offs.len() * INJECT.len();
    while k < total {
        let pos = offs[k / INJECT.len()];
        let inj = INJECT[k % INJECT.len()];
        let s = format!("{}{}{}", &base[..pos], inj, &base[pos..]);
        check_case(ctx, &s, None, "inject_at_position");
        // also replace the token at this position
        if let Some(t) = toks.get(k / INJECT.len()) {
            let s = format!("{}{}{}", &base[..pos], inj, &base[pos + t.len()..]);
            check_case(ctx, &s, None, "replace_at_position");
        }
        done += 1;
        k += step;
        if done >= cap {
            break;
        }
    }
}

pub const REGRESSION_TEXTS: &[&str] = &["type T { f: [! }", "type T { f: [[! }", "query($v: [!){a}", "type T { f: [$ }", "{ a(x: [!) }"];

pub fn run(ctx: &mut Ctx) {
    let src = TextSource::new();
    if ctx.shard == 0 {
        for t in REGRESSION_TEXTS {
            check_case(ctx, t, None, "regression");
        }
    }
    // Phase 1: error injection at every grammar position of valid corpus documents.
    let valid: Vec<_> = src
        .files
        .iter()
        .filter(|f| matches!(f.group, "parser_ok" | "compiler_ok" | "lexer_ok" | "examples_smith"))
        .cloned()
        .collect();
    let per_file = if ctx.quick() { 60 } else { 4000 };
    for (i, f) in valid.iter().enumerate() {
        if !ctx.mine(i as u64) {
            continue;
        }
        if f.text.len() > 20_000 {
            continue;
        }
        inject_everywhere(ctx, &f.text, per_file);
        if !ctx.until(0.5) {
            ctx.note("injection_cut_short_at_file", json!(i));
            break;
        }
    }
    // Phase 2: all corpus files as they are, with small recursion limits too.
    for (i, f) in src.files.iter().enumerate() {
        if !ctx.mine(i as u64) {
            continue;
        }
        check_case(ctx, &f.text, None, "corpus");
        for rl in [0usize, 1, 2, 5] {
            check_case(ctx, &f.text, Some(rl), "corpus_small_recursion_limit");
        }
    }
    // Phase 3: random hostile inputs.
    let mut n = 0u64;
    while !ctx.time_up() {
        n += 1;
        let mut rng = ctx.sub_rng("c02-random", n);
        let (kind, text) = src.random(&mut rng);
        let rl = if rng.chance(1, 6) { Some(rng.below(6)) } else { None };
        check_case(ctx, &text, rl, kind);
        ctx.sample(|| json!({"source": kind, "text": clip(&text, 160), "recursion_limit": rl}));
    }
}

pub fn replay(ctx: &mut Ctx, case: &Value) {
    if let Some(t) = case.get("text").and_then(|t| t.as_str()) {
        let rl = case.get("recursion_limit").and_then(|x| x.as_u64()).map(|x| x as usize);
        check_case(ctx, t, rl, "replay");
    }
}
