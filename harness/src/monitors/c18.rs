//! C18 — Executable documents are typed consistently with the schema.
//!
//! For every document built by `ExecutableDocument::parse(&schema, text, path)` — the `Ok` value or
//! `err.partial`, valid or not — an own traversal that tracks the parent type (root operation type
//! → inner named type of each field definition → type condition / parent of each inline fragment)
//! checks:
//!  * each `Field.definition` equals `schema.type_field(parent_type, name)` (meta-fields included)
//!    and, independently of apollo's lookup, agrees with the harness model of the schema
//!    (`RefExecRules::field_def` over `FlatSchema`: type and argument names/types);
//!  * each field's `selection_set.ty` is the inner named type of its definition;
//!  * an inline fragment's selection set is typed by its type condition or, absent one, by its
//!    parent; a fragment definition's set by its type condition (taken from the model of the text);
//!  * an operation's set by the schema's root operation type.
//! For documents that `parse_and_validate` accepts, additionally: every spread names an existing
//! fragment, spreads are acyclic (own DFS), every used variable is defined by every operation that
//! reaches the use, composite fields have sub-selections and leaf fields none, and
//! `operation.root_fields(&doc)` / `operation.all_fields(&doc)` visit exactly the fields of the
//! harness's own traversal that expands each named fragment once (compared as multisets of
//! `Node<Field>` addresses).
//!
//! Workload: C17's (schema, document) pairs — generated, every mutator family (meta-fields in
//! allowed and disallowed places, condition-less inline fragments wrapped around every selection
//! list), corpus pairs, fixed witnesses, apollo-smith documents.

use crate::gen::exec_gen::{gen_executable, ExecOpts};
use crate::gen::exec_mut;
use crate::gen::from_ast::doc_from_ast;
use crate::gen::model::*;
use crate::gen::schema_gen::{gen_schema, SchemaOpts};
use crate::monitors::c17::{self, SchemaCase};
use crate::prng::fnv_str;
use crate::rt::{self, clip, Ctx};
use apollo_compiler::executable as ex;
use apollo_compiler::{ast, ExecutableDocument, Node, Schema};
use serde_json::{json, Value};
use std::collections::HashSet;

struct Finding {
    signature: String,
    message: String,
}

struct Walker<'a> {
    schema: &'a Schema,
    sc: &'a SchemaCase,
    findings: Vec<Finding>,
    fields_checked: u64,
    meta_fields: u64,
    inline_without_condition: u64,
    inline_with_condition: u64,
}

fn meta_class(name: &str) -> &'static str {
    match name {
        "__typename" => "__typename",
        "__schema" => "__schema",
        "__type" => "__type",
        _ => "explicit field",
    }
}

impl<'a> Walker<'a> {
    fn find(&mut self, signature: String, message: String) {
        if !self.findings.iter().any(|f| f.signature == signature) {
            self.findings.push(Finding { signature, message });
        }
    }

    fn set(&mut self, set: &ex::SelectionSet, expected: &str, what: &str) {
        if set.ty.as_str() != expected {
            self.find(
                format!("selection-set-type|{what}"),
                format!("selection set of {what} is typed `{}`, expected `{expected}`", set.ty),
            );
        }
        // continue with the type the traversal computed, not with apollo's annotation
        for sel in &set.selections {
            match sel {
                ex::Selection::Field(f) => {
                    self.fields_checked += 1;
                    let cls = meta_class(f.name.as_str());
                    if cls != "explicit field" {
                        self.meta_fields += 1;
                    }
                    match self.schema.type_field(expected, f.name.as_str()) {
                        Ok(c) => {
                            if *c.node != *f.definition {
                                self.find(
                                    format!("field-definition|differs from type_field|{cls}"),
                                    format!(
                                        "field `{}` on `{expected}` carries definition `{}: {}` but schema.type_field gives `{}: {}`",
                                        f.name, f.definition.name, f.definition.ty, c.node.name, c.node.ty
                                    ),
                                );
                            }
                        }
                        Err(_) => self.find(
                            format!("field-definition|type_field has no such field|{cls}"),
                            format!("field `{}` is in the document under parent `{expected}` but schema.type_field fails", f.name),
                        ),
                    }
                    // the harness's own schema model
                    match self.sc.rules.field_def(expected, f.name.as_str()) {
                        Some(m) => {
                            let same_args = m.args.len() == f.definition.arguments.len()
                                && m.args.iter().zip(f.definition.arguments.iter()).all(|(a, b)| a.name == b.name.as_str() && a.ty.print() == b.ty.to_string());
                            if m.name != f.definition.name.as_str() || m.ty.print() != f.definition.ty.to_string() || !same_args {
                                self.find(
                                    format!("field-definition|differs from the schema model|{cls}"),
                                    format!(
                                        "field `{}` on `{expected}` carries `{}: {}`, the model of the schema says `{}: {}`",
                                        f.name,
                                        f.definition.name,
                                        f.definition.ty,
                                        m.name,
                                        m.ty.print()
                                    ),
                                );
                            }
                        }
                        None => self.find(
                            format!("field-definition|field unknown to the schema model|{cls}"),
                            format!("field `{}` is in the document under parent `{expected}` where the schema model defines no such field", f.name),
                        ),
                    }
                    let inner = f.definition.ty.inner_named_type().as_str().to_string();
                    self.set(&f.selection_set, &inner, "a field");
                }
                ex::Selection::InlineFragment(i) => match &i.type_condition {
                    Some(t) => {
                        self.inline_with_condition += 1;
                        let t = t.as_str().to_string();
                        self.set(&i.selection_set, &t, "an inline fragment with a type condition");
                    }
                    None => {
                        self.inline_without_condition += 1;
                        self.set(&i.selection_set, expected, "an inline fragment without type condition");
                    }
                },
                ex::Selection::FragmentSpread(_) => {}
            }
        }
    }
}

fn value_vars<'v>(v: &'v ast::Value, nested: bool, out: &mut Vec<(&'v str, bool)>) {
    match v {
        ast::Value::Variable(n) => out.push((n.as_str(), nested)),
        ast::Value::List(xs) => xs.iter().for_each(|x| value_vars(x, true, out)),
        ast::Value::Object(fs) => fs.iter().for_each(|(_, x)| value_vars(x, true, out)),
        _ => {}
    }
}

fn dir_vars<'v>(dirs: &'v [Node<ast::Directive>], out: &mut Vec<(&'v str, String)>) {
    for d in dirs {
        for a in &d.arguments {
            let mut vs = Vec::new();
            value_vars(&a.value, false, &mut vs);
            for (n, nested) in vs {
                out.push((n, format!("directive argument{}", if nested { ", nested in a literal" } else { "" })));
            }
        }
    }
}

/// Variables used in the scope of a selection set, through fragments (each once).
fn used_vars<'d>(schema: &Schema, doc: &'d ExecutableDocument, set: &'d ex::SelectionSet, seen: &mut HashSet<&'d str>, out: &mut Vec<(&'d str, String)>) {
    for sel in &set.selections {
        match sel {
            ex::Selection::Field(f) => {
                dir_vars(&f.directives, out);
                for a in &f.arguments {
                    let custom = f
                        .definition
                        .arguments
                        .iter()
                        .find(|d| d.name == a.name)
                        .and_then(|d| schema.types.get(d.ty.inner_named_type()))
                        .map(|t| matches!(t, apollo_compiler::schema::ExtendedType::Scalar(s) if !s.is_built_in()))
                        .unwrap_or(false);
                    let mut vs = Vec::new();
                    value_vars(&a.value, false, &mut vs);
                    for (n, nested) in vs {
                        out.push((
                            n,
                            format!(
                                "field argument{}{}",
                                if nested { ", nested in a literal" } else { "" },
                                if custom && nested { " given to a custom scalar" } else { "" }
                            ),
                        ));
                    }
                }
                used_vars(schema, doc, &f.selection_set, seen, out);
            }
            ex::Selection::InlineFragment(i) => {
                dir_vars(&i.directives, out);
                used_vars(schema, doc, &i.selection_set, seen, out);
            }
            ex::Selection::FragmentSpread(s) => {
                dir_vars(&s.directives, out);
                if seen.insert(s.fragment_name.as_str()) {
                    if let Some(fr) = doc.fragments.get(&s.fragment_name) {
                        dir_vars(&fr.directives, out);
                        used_vars(schema, doc, &fr.selection_set, seen, out);
                    }
                }
            }
        }
    }
}

fn addr(f: &Node<ex::Field>) -> usize {
    &**f as *const ex::Field as usize
}

/// Own traversal: fields reached from `set`, each named fragment expanded once; `deep` also
/// descends into the sub-selections of fields.
fn reach<'d>(doc: &'d ExecutableDocument, set: &'d ex::SelectionSet, deep: bool) -> Vec<usize> {
    let mut out = Vec::new();
    let mut seen: HashSet<&str> = HashSet::new();
    let mut queue: Vec<&ex::SelectionSet> = vec![set];
    while let Some(s) = queue.pop() {
        for sel in &s.selections {
            match sel {
                ex::Selection::Field(f) => {
                    out.push(addr(f));
                    if deep {
                        queue.push(&f.selection_set);
                    }
                }
                ex::Selection::InlineFragment(i) => queue.push(&i.selection_set),
                ex::Selection::FragmentSpread(sp) => {
                    if seen.insert(sp.fragment_name.as_str()) {
                        if let Some(fr) = doc.fragments.get(&sp.fragment_name) {
                            queue.push(&fr.selection_set);
                        }
                    }
                }
            }
        }
    }
    out.sort_unstable();
    out
}

fn spreads_of<'d>(set: &'d ex::SelectionSet, out: &mut Vec<&'d str>) {
    for sel in &set.selections {
        match sel {
            ex::Selection::Field(f) => spreads_of(&f.selection_set, out),
            ex::Selection::InlineFragment(i) => spreads_of(&i.selection_set, out),
            ex::Selection::FragmentSpread(s) => out.push(s.fragment_name.as_str()),
        }
    }
}

fn has_cycle(doc: &ExecutableDocument) -> bool {
    fn dfs<'d>(doc: &'d ExecutableDocument, n: &'d str, on_stack: &mut Vec<&'d str>, done: &mut HashSet<&'d str>) -> bool {
        if on_stack.contains(&n) {
            return true;
        }
        if done.contains(n) {
            return false;
        }
        on_stack.push(n);
        if let Some(f) = doc.fragments.get(n) {
            let mut sp = Vec::new();
            spreads_of(&f.selection_set, &mut sp);
            for s in sp {
                if dfs(doc, s, on_stack, done) {
                    return true;
                }
            }
        }
        on_stack.pop();
        done.insert(n);
        false
    }
    let mut done = HashSet::new();
    doc.fragments.keys().any(|k| dfs(doc, k.as_str(), &mut Vec::new(), &mut done))
}

fn leaf_rule(schema: &Schema, set: &ex::SelectionSet, out: &mut Vec<&'static str>) {
    for sel in &set.selections {
        match sel {
            ex::Selection::Field(f) => {
                if let Some(t) = schema.types.get(f.definition.ty.inner_named_type()) {
                    let composite = t.is_object() || t.is_interface() || t.is_union();
                    if composite && f.selection_set.selections.is_empty() {
                        out.push("composite field without sub-selection");
                    }
                    if !composite && !f.selection_set.selections.is_empty() {
                        out.push("leaf field with sub-selection");
                    }
                }
                leaf_rule(schema, &f.selection_set, out);
            }
            ex::Selection::InlineFragment(i) => leaf_rule(schema, &i.selection_set, out),
            ex::Selection::FragmentSpread(_) => {}
        }
    }
}

fn multiset_diff(mine: &[usize], theirs: &[usize]) -> Option<&'static str> {
    if mine == theirs {
        return None;
    }
    let extra = theirs.iter().any(|x| theirs.iter().filter(|y| *y == x).count() > mine.iter().filter(|y| *y == x).count());
    let missing = mine.iter().any(|x| mine.iter().filter(|y| *y == x).count() > theirs.iter().filter(|y| *y == x).count());
    Some(match (extra, missing) {
        (true, true) => "visits extra fields and misses others",
        (true, false) => "visits a field more often than the reference traversal (or an unreachable one)",
        _ => "misses a reachable field",
    })
}

/// Signatures of the findings on one case, without touching the counters (used to minimise).
fn signatures_of(sc: &SchemaCase, model: &Doc, text: &str) -> Vec<String> {
    let mut scratch = Ctx::new("C18", rt::Tier::Quick, 0, 0, 1, 1.0, None);
    scratch.replay_mode = true;
    examine(&mut scratch, sc, model, text).into_iter().map(|f| f.signature).collect()
}

pub fn check_case(ctx: &mut Ctx, sc: &SchemaCase, model: &Doc, text: &str, origin: &str) {
    ctx.eval();
    ctx.inflight("C18", json!({"schema": sc.text, "doc": text}).to_string().as_bytes());
    let findings = examine(ctx, sc, model, text);
    for f in findings {
        let seen = ctx.has_class("violation_signature_seen", &f.signature);
        ctx.class("violation_signature_seen", &f.signature);
        let (ms, best) = if !seen && !ctx.replay_mode {
            let sig = f.signature.clone();
            c17::minimise_with(&sc.doc, model, 900, &|sc2, cand| {
                let t = print_plain(cand);
                // keep the witness syntactically valid
                ast::Document::parse(t.as_str(), "w.graphql").is_ok() && signatures_of(sc2, cand, &t).contains(&sig)
            })
        } else {
            (sc.doc.clone(), model.clone())
        };
        ctx.violation(f.signature, f.message, json!({"origin": origin, "schema": print_plain(&ms), "doc": print_plain(&best)}));
    }
}

fn examine(ctx: &mut Ctx, sc: &SchemaCase, model: &Doc, text: &str) -> Vec<Finding> {
    let schema = &sc.apollo;
    let parsed = rt::catch(|| ExecutableDocument::parse(schema, text, "doc.graphql"));
    let (doc, build_ok) = match parsed {
        Err(_) => {
            ctx.count("apollo_panics_skipped", 1);
            return vec![];
        }
        Ok(Ok(d)) => (d, true),
        Ok(Err(e)) => (e.partial, false),
    };
    let valid = rt::catch(|| ExecutableDocument::parse_and_validate(schema, text, "doc.graphql").is_ok()).unwrap_or(false);
    ctx.count(if valid { "valid_documents" } else if build_ok { "built_but_invalid_documents" } else { "partial_documents" }, 1);
    let mut w = Walker { schema, sc, findings: vec![], fields_checked: 0, meta_fields: 0, inline_without_condition: 0, inline_with_condition: 0 };

    for op in doc.operations.iter() {
        let kind = match op.operation_type {
            ast::OperationType::Query => "query",
            ast::OperationType::Mutation => "mutation",
            ast::OperationType::Subscription => "subscription",
        };
        match (schema.root_operation(op.operation_type), sc.rules.schema.root(kind)) {
            (Some(r), Some(m)) if r.as_str() == m => {
                let r = r.as_str().to_string();
                w.set(&op.selection_set, &r, "an operation");
            }
            (r, m) => w.find(
                "operation-root-type".into(),
                format!("{kind} operation was built although root types are {:?} (apollo) / {:?} (model)", r.map(|x| x.as_str()), m),
            ),
        }
    }
    for (name, fr) in doc.fragments.iter() {
        match model.frags().find(|f| f.name == name.as_str()) {
            Some(m) => {
                let on = m.on.clone();
                w.set(&fr.selection_set, &on, "a fragment definition");
            }
            None => w.find("fragment-not-in-text".into(), format!("fragment `{name}` is in the document but not in the text")),
        }
    }
    ctx.count("fields_checked", w.fields_checked);
    ctx.count("meta_fields_checked", w.meta_fields);
    ctx.count("inline_fragments_without_condition", w.inline_without_condition);
    ctx.count("inline_fragments_with_condition", w.inline_with_condition);
    if w.inline_without_condition > 0 {
        ctx.class("construct", "inline fragment without type condition");
    }
    if w.meta_fields > 0 {
        ctx.class("construct", "meta-field");
    }
    ctx.class("document", if valid { "valid" } else if build_ok { "built, invalid" } else { "partial" });
    let mut findings = std::mem::take(&mut w.findings);

    if valid {
        // every spread names an existing fragment
        let mut all_spreads = Vec::new();
        for op in doc.operations.iter() {
            spreads_of(&op.selection_set, &mut all_spreads);
        }
        for fr in doc.fragments.values() {
            spreads_of(&fr.selection_set, &mut all_spreads);
        }
        if all_spreads.iter().any(|s| !doc.fragments.contains_key(*s)) {
            findings.push(Finding { signature: "valid-document|spread of an undefined fragment".into(), message: "a valid document spreads an undefined fragment".into() });
        }
        if has_cycle(&doc) {
            findings.push(Finding { signature: "valid-document|fragment spread cycle".into(), message: "a valid document has a fragment spread cycle".into() });
        }
        let mut leafs = Vec::new();
        for op in doc.operations.iter() {
            leaf_rule(schema, &op.selection_set, &mut leafs);
        }
        for fr in doc.fragments.values() {
            leaf_rule(schema, &fr.selection_set, &mut leafs);
        }
        for l in leafs {
            findings.push(Finding { signature: format!("valid-document|{l}"), message: format!("a valid document has a {l}") });
        }
        for op in doc.operations.iter() {
            let mut used: Vec<(&str, String)> = Vec::new();
            dir_vars(&op.directives, &mut used);
            used_vars(schema, &doc, &op.selection_set, &mut HashSet::new(), &mut used);
            for (v, pos) in used {
                if !op.variables.iter().any(|d| d.name.as_str() == v) {
                    findings.push(Finding {
                        signature: format!("valid-document|undefined variable|{pos}"),
                        message: format!("a valid document uses variable `${v}` ({pos}) that its operation does not define"),
                    });
                }
            }
            // iterators
            let mine_root = reach(&doc, &op.selection_set, false);
            let mut theirs_root: Vec<usize> = op.root_fields(&doc).map(addr).collect();
            theirs_root.sort_unstable();
            if let Some(d) = multiset_diff(&mine_root, &theirs_root) {
                findings.push(Finding { signature: format!("iterator|root_fields|{d}"), message: format!("root_fields {d}: reference {} fields, apollo {}", mine_root.len(), theirs_root.len()) });
            }
            let mine_all = reach(&doc, &op.selection_set, true);
            let mut theirs_all: Vec<usize> = op.all_fields(&doc).map(addr).collect();
            theirs_all.sort_unstable();
            if let Some(d) = multiset_diff(&mine_all, &theirs_all) {
                findings.push(Finding { signature: format!("iterator|all_fields|{d}"), message: format!("all_fields {d}: reference {} fields, apollo {}", mine_all.len(), theirs_all.len()) });
            }
            ctx.count("iterator_fields_compared", (mine_root.len() + mine_all.len()) as u64);
            if !doc.fragments.is_empty() {
                ctx.class("construct", "iterators over a document with fragments");
            }
        }
    }
    if w.fields_checked > 0 {
        ctx.nontrivial_hash(fnv_str(&sc.text) ^ fnv_str(text).rotate_left(21));
    }
    findings
}

fn parsed_case(ctx: &mut Ctx, schema_text: &str, exec_text: &str, origin: &str) -> Option<()> {
    let sm = doc_from_ast(&ast::Document::parse(schema_text, "s.graphql").ok()?)?.type_system();
    let em = doc_from_ast(&ast::Document::parse(exec_text, "e.graphql").ok()?)?;
    let sc = SchemaCase::new(&sm)?;
    check_case(ctx, &sc, &em, &print_plain(&em), origin);
    Some(())
}

/// Meta-fields and condition-less inline fragments in allowed and disallowed places.
const FIXED: &[(&str, &str)] = &[
    (
        "type Query { a: T u: U i: I } type Mutation { m: Int } type Subscription { s: Int } type T implements I { id: ID x: Int } interface I { id: ID } union U = T",
        "query Q { __typename __schema { types { name } } __type(name: \"T\") { kind } a { __typename ... { __typename ... { x } } } u { __typename ... on T { ... { id } } } i { ... { id __typename } } ...F }
         mutation M { __typename ... { m } }
         subscription S { ... { s } }
         fragment F on Query { ... { a { ... { x } } } ...G }
         fragment G on Query { u { __typename } }",
    ),
    (
        "type Query { a: T } type Mutation { m: T } type T { x: Int }",
        "mutation { __schema { types { name } } __type(name: \"T\") { kind } m { __schema { x } __typename } } query Q { a { __type(name: \"T\") { kind } ... { __schema { y } } } }",
    ),
];

pub fn run(ctx: &mut Ctx) {
    if ctx.shard == 0 {
        for (s, d) in FIXED.iter().chain(c17::WITNESSES.iter()) {
            if parsed_case(ctx, s, d, "fixed").is_none() {
                ctx.count("fixed_case_unusable", 1);
            }
            ctx.class("source", "fixed");
        }
    }
    let pairs = c17::corpus_pairs();
    ctx.note("corpus_pairs", json!(pairs.len()));
    for (i, (name, ts, exd)) in pairs.iter().enumerate() {
        if !ctx.mine(i as u64) {
            continue;
        }
        if let Some(sc) = SchemaCase::new(ts) {
            check_case(ctx, &sc, exd, &print_plain(exd), name);
            ctx.class("source", "corpus");
        }
    }
    let mut n = 0u64;
    let mut quota = exec_mut::Quota::new();
    while !ctx.time_up() {
        n += 1;
        let mut rng = ctx.sub_rng("c18-schema", n);
        if n % 12 == 0 {
            if let Some(t) = c17::smith_text(&mut rng) {
                if let Some((ts, exd)) = c17::split_mixed(&t) {
                    if let Some(sc) = SchemaCase::new(&ts) {
                        check_case(ctx, &sc, &exd, &print_plain(&exd), "smith");
                        ctx.class("source", "smith");
                    }
                }
            }
            continue;
        }
        let sdoc = gen_schema(&mut rng, &SchemaOpts::default());
        let Some(sc) = SchemaCase::new(&sdoc) else { continue };
        let flat = FlatSchema::from_doc(&sdoc);
        for k in 0..4u64 {
            let mut r2 = ctx.sub_rng("c18-exec", n * 16 + k);
            let exd = gen_executable(&mut r2, &flat, &ExecOpts::default());
            let text = if r2.chance(1, 3) { print_trivia(&exd, &mut r2) } else { print_plain(&exd) };
            check_case(ctx, &sc, &exd, &text, "generated");
            ctx.class("source", "generated");
            ctx.sample(|| json!({"schema": clip(&sc.text, 300), "doc": clip(&text, 300)}));
            for _ in 0..6 {
                let fam = quota.next(&mut r2);
                if let Some(m) = exec_mut::mutate(fam, &mut r2, &flat, &exd) {
                    quota.hit(fam);
                    // type-system definitions are not part of an executable document
                    let m = m.executable();
                    check_case(ctx, &sc, &m, &print_plain(&m), &format!("mutant:{fam}"));
                    ctx.class("source", "mutant");
                    ctx.class("mutator", fam);
                }
                if ctx.time_up() {
                    break;
                }
            }
        }
    }
}

pub fn replay(ctx: &mut Ctx, case: &Value) {
    let (Some(s), Some(d)) = (case.get("schema").and_then(|x| x.as_str()), case.get("doc").and_then(|x| x.as_str())) else {
        return;
    };
    if parsed_case(ctx, s, d, "replay").is_none() {
        ctx.inconclusive("replay case could not be parsed or its schema is rejected", case.clone());
    }
}
