//! C19 — Executable documents and field sets round-trip.
//!
//! For a valid (schema, executable) pair and every serialization configuration:
//! `parse_and_validate(schema, ser(doc))` succeeds and equals `doc`; the same for valid field sets;
//! and for one mixed text `parse_mixed_validate` → serialize both → concatenate →
//! `parse_mixed_validate` succeeds with equal schema and document.

use crate::apply_ser;
use crate::gen::exec_gen::{gen_executable, ExecOpts};
use crate::gen::inputs::TextSource;
use crate::gen::model::*;
use crate::gen::schema_gen::gen_schema;
use crate::monitors::c12::random_opts;
use crate::monitors::util::{self, ser_configs, SerConfig};
use crate::prng::Rng;
use crate::rt::{self, clip, Ctx};
use apollo_compiler::executable::FieldSet;
use apollo_compiler::validation::Valid;
use apollo_compiler::{ExecutableDocument, Name, Schema};
use serde_json::{json, Value};

fn first_msg(e: &apollo_compiler::validation::DiagnosticList) -> String {
    e.iter().next().map(|d| d.error.to_string()).unwrap_or_default()
}

fn mask_names(m: &str) -> String {
    let mut out = String::new();
    let mut inside = false;
    for c in m.chars() {
        if c == '`' {
            inside = !inside;
            out.push('`');
        } else if !inside {
            out.push(if c.is_ascii_digit() { '#' } else { c });
        }
    }
    out.chars().take(80).collect()
}

pub fn check_doc(ctx: &mut Ctx, schema_text: &str, exec_text: &str, source: &str) {
    ctx.eval();
    let case = json!({"kind": "doc", "schema": schema_text, "executable": exec_text});
    ctx.inflight("C19", case.to_string().as_bytes());
    let r = rt::catch(|| {
        let schema = Schema::parse_and_validate(schema_text, "s.graphql").ok()?;
        let doc = ExecutableDocument::parse_and_validate(&schema, exec_text, "e.graphql").ok()?;
        if doc.operations.is_empty() && doc.fragments.is_empty() {
            return None; // an empty document does not serialize to a GraphQL Document (Definition+)
        }
        let mut f: Vec<(String, String)> = Vec::new();
        for cfg in ser_configs() {
            let text = apply_ser!(doc.serialize(), cfg);
            match ExecutableDocument::parse_and_validate(&schema, &text, "rt.graphql") {
                Err(e) => f.push((
                    format!("doc|reparse-fails|{}|{}", cfg.class(), mask_names(&first_msg(&e.errors))),
                    format!("[{}] serialized document does not re-validate: {}\n{}", cfg.label(), first_msg(&e.errors), clip(&text, 500)),
                )),
                Ok(d2) => {
                    if *d2 != *doc {
                        f.push((
                            format!("doc|not-equal|{}", cfg.class()),
                            format!("[{}] re-parsed document differs:\n{}", cfg.label(), clip(&text, 500)),
                        ));
                    }
                    let t2 = apply_ser!(d2.serialize(), cfg);
                    if t2 != text {
                        f.push((format!("doc|text-not-stable|{}", cfg.class()), format!("[{}] second serialization differs", cfg.label())));
                    }
                }
            }
        }
        Some(f)
    });
    finish(ctx, r, case, source, exec_text, "doc");
}

pub fn check_field_set(ctx: &mut Ctx, schema_text: &str, ty: &str, fs_text: &str) {
    ctx.eval();
    let case = json!({"kind": "field_set", "schema": schema_text, "type": ty, "field_set": fs_text});
    ctx.inflight("C19", case.to_string().as_bytes());
    let r = rt::catch(|| {
        let schema = Schema::parse_and_validate(schema_text, "s.graphql").ok()?;
        let tn = Name::new(ty).ok()?;
        let fs = FieldSet::parse_and_validate(&schema, tn.clone(), fs_text, "fs.graphql").ok()?;
        let mut f: Vec<(String, String)> = Vec::new();
        for cfg in ser_configs() {
            let text = apply_ser!(fs.serialize(), cfg);
            match FieldSet::parse_and_validate(&schema, tn.clone(), &text, "fs-rt.graphql") {
                Err(e) => f.push((
                    format!("field_set|reparse-fails|{}|{}", cfg.class(), mask_names(&first_msg(&e.errors))),
                    format!("[{}] serialized field set does not re-validate: {} — {:?}", cfg.label(), first_msg(&e.errors), clip(&text, 300)),
                )),
                Ok(fs2) => {
                    if fs2.selection_set != fs.selection_set {
                        f.push((format!("field_set|not-equal|{}", cfg.class()), format!("[{}] re-parsed field set differs: {:?}", cfg.label(), clip(&text, 300))));
                    }
                }
            }
        }
        Some(f)
    });
    finish(ctx, r, case, "field_set", fs_text, "field_set");
}

pub fn check_mixed(ctx: &mut Ctx, mixed_text: &str) {
    ctx.eval();
    let case = json!({"kind": "mixed", "text": mixed_text});
    ctx.inflight("C19", case.to_string().as_bytes());
    let r = rt::catch(|| {
        let (schema, doc): (Valid<Schema>, Valid<ExecutableDocument>) =
            apollo_compiler::parser::Parser::new().parse_mixed_validate(mixed_text, "m.graphql").ok()?;
        if doc.operations.is_empty() && doc.fragments.is_empty() {
            return None;
        }
        let mut f: Vec<(String, String)> = Vec::new();
        for cfg in [
            SerConfig { no_indent: false, prefix: None, initial: 0 },
            SerConfig { no_indent: true, prefix: None, initial: 0 },
        ] {
            // Executable part first: a body-less extension at the end of the schema text
            // (`extend enum E @d`) followed by a shorthand query (`{ a }`) would read as the
            // extension's body — an ambiguity of the GraphQL grammar, not of the serializer.
            let text = format!("{}\n{}", apply_ser!(doc.serialize(), cfg), apply_ser!(schema.serialize(), cfg));
            match apollo_compiler::parser::Parser::new().parse_mixed_validate(&text, "m-rt.graphql") {
                Err(e) => f.push((
                    format!("mixed|reparse-fails|{}|{}", cfg.class(), mask_names(&first_msg(&e))),
                    format!("[{}] serialized mixed text does not validate: {}\n{}", cfg.label(), first_msg(&e), clip(&text, 500)),
                )),
                Ok((s2, d2)) => {
                    if *s2 != *schema {
                        f.push((format!("mixed|schema-not-equal|{}", cfg.class()), "schema differs after mixed round-trip".into()));
                    }
                    if *d2 != *doc {
                        f.push((format!("mixed|doc-not-equal|{}", cfg.class()), format!("document differs after mixed round-trip:\n{}", clip(&text, 400))));
                    }
                }
            }
        }
        Some(f)
    });
    finish(ctx, r, case, "mixed", mixed_text, "mixed");
}

fn finish(ctx: &mut Ctx, r: Result<Option<Vec<(String, String)>>, rt::PanicReport>, case: Value, source: &str, key: &str, kind: &str) {
    match r {
        Err(p) => ctx.violation(p.signature(&format!("c19-{kind}")), format!("panic: {} at {}:{}", p.message, p.file, p.line), case),
        Ok(None) => ctx.count(&format!("{kind}_precondition_not_met_skipped"), 1),
        Ok(Some(f)) => {
            ctx.count(&format!("{kind}_round_tripped"), 1);
            ctx.class("source", source);
            ctx.class("kind", kind);
            ctx.nontrivial(&format!("{kind}|{key}"));
            for (sig, msg) in f {
                ctx.violation(sig, msg, case.clone());
            }
        }
    }
}

/// A field-set text for `ty`: a few fields with sub-selections, optional outer braces.
fn gen_field_set(rng: &mut Rng, s: &FlatSchema, ty: &str, depth: usize) -> Option<String> {
    let t = s.ty(ty)?;
    if t.fields.is_empty() {
        return None;
    }
    let mut parts = Vec::new();
    let n = rng.range(1, 3);
    for _ in 0..n {
        let f = rng.pick(&t.fields);
        if f.args.iter().any(|a| a.ty.is_non_null() && a.default.is_none()) {
            continue;
        }
        let inner = f.ty.inner_name();
        if s.is_composite(inner) {
            if depth == 0 {
                continue;
            }
            match s.kind(inner) {
                Some(Kind::Union) => parts.push(format!("{} {{ __typename }}", f.name)),
                _ => {
                    if let Some(sub) = gen_field_set(rng, s, inner, depth - 1) {
                        parts.push(format!("{} {{ {} }}", f.name, sub));
                    }
                }
            }
        } else {
            parts.push(f.name.clone());
        }
    }
    if parts.is_empty() {
        return None;
    }
    parts.dedup();
    Some(parts.join(" "))
}

pub fn run(ctx: &mut Ctx) {
    let src = TextSource::new();
    // corpus: mixed documents
    let files: Vec<_> = src
        .files
        .iter()
        .filter(|f| matches!(f.group, "compiler_ok" | "examples_smith" | "examples_compiler_docs" | "compiler_ser"))
        .cloned()
        .collect();
    for (i, f) in files.iter().enumerate() {
        if ctx.mine(i as u64) {
            check_mixed(ctx, &f.text);
            ctx.class("source", "corpus_mixed");
        }
    }
    let mut n = 0u64;
    while !ctx.time_up() {
        n += 1;
        let mut rng = ctx.sub_rng("c19", n);
        if n % 6 == 0 {
            let nb = rng.range(64, 4096);
            let bytes = rng.bytes(nb);
            if let Some(t) = util::smith_text(&bytes, 3) {
                check_mixed(ctx, &t);
                ctx.class("source", "smith_mixed");
            }
            continue;
        }
        let opts = random_opts(&mut rng);
        let sdoc = gen_schema(&mut rng, &opts);
        let flat = FlatSchema::from_doc(&sdoc);
        let stext = print_plain(&sdoc);
        let ex = gen_executable(&mut rng, &flat, &ExecOpts::default());
        let etext = if rng.bool() { print_plain(&ex) } else { print_trivia(&ex, &mut rng) };
        check_doc(ctx, &stext, &etext, "model");
        if n % 3 == 0 {
            check_mixed(ctx, &format!("{stext}\n{etext}"));
            ctx.class("source", "model_mixed");
        }
        // field sets on object and interface types
        let cands: Vec<String> = flat
            .types
            .iter()
            .filter(|t| matches!(t.kind, Kind::Object | Kind::Interface) && !t.builtin)
            .map(|t| t.name.clone())
            .collect();
        if !cands.is_empty() {
            let ty = rng.pick(&cands).clone();
            if let Some(fs) = gen_field_set(&mut rng, &flat, &ty, 2) {
                let fs = if rng.bool() { format!("{{ {fs} }}") } else { fs };
                check_field_set(ctx, &stext, &ty, &fs);
            }
        }
        ctx.sample(|| json!({"executable": clip(&etext, 240)}));
    }
}

pub fn replay(ctx: &mut Ctx, case: &Value) {
    let g = |k: &str| case.get(k).and_then(|v| v.as_str()).unwrap_or("").to_string();
    match case.get("kind").and_then(|k| k.as_str()) {
        Some("field_set") => check_field_set(ctx, &g("schema"), &g("type"), &g("field_set")),
        Some("mixed") => check_mixed(ctx, &g("text")),
        _ => check_doc(ctx, &g("schema"), &g("executable"), "replay"),
    }
}
