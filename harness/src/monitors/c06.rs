//! C06 — String literals decode to their spec-defined values.
//!
//! For a literal that `RefLexer` accepts as exactly one StringValue token, the expected value is
//! `refmodel::string::value_of_literal`. Observed values: `String::from(&cst::StringValue)` for every
//! StringValue node of a host document (apollo-parser), and the values the compiler stores after
//! `ast::Document::parse` (argument, directive argument, variable default, input-field default,
//! field-argument default, description) and `Schema::parse` (description, input-field default,
//! field-argument default). Refuting events: any of them differs from the reference; a panic.
//!
//! One root cause, one signature: if the syntax-tree value is already wrong, the compiler hosts
//! that merely repeat it are not reported again; a compiler host is reported only when it differs
//! from what the syntax tree gave.

use crate::prng::Rng;
use crate::refmodel::lexer::{RefKind, RefLexer};
use crate::refmodel::string as refstring;
use crate::rt::{self, clip, Ctx};
use apollo_compiler::{ast, schema::ExtendedType, Schema};
use apollo_parser::cst::{self, CstNode};
use serde_json::{json, Value};

/// Is `lit` exactly one StringValue token of the lexical grammar?
pub fn is_one_string_token(lit: &str) -> bool {
    let l = RefLexer::strict().lex(lit);
    l.error.is_none()
        && l.tokens.len() == 1
        && matches!(l.tokens[0].kind, RefKind::Str | RefKind::BlockStr)
        && l.tokens[0].start == 0
        && l.tokens[0].end == lit.len()
}

fn mixed_host(lit: &str) -> String {
    format!(
        "{lit}\ntype T {{ f(a: String = {lit}): Int }}\ninput I {{ k: String = {lit} }}\nquery Q($v: String = {lit}) {{ f(a: {lit}) @d(x: {lit}) }}\n"
    )
}

fn schema_host(lit: &str) -> String {
    format!("{lit}\ntype T {{ f(a: String = {lit}): Int }}\ninput I {{ k: String = {lit} }}\ntype Query {{ q: Int }}\n")
}

pub const CST_NODES_EXPECTED: usize = 6;

struct Observed {
    /// (host, value) pairs; host names are stable identifiers used in signatures and coverage.
    values: Vec<(&'static str, String)>,
    /// hosts that could not be observed because apollo reported errors (C03/C05's subject).
    skipped: Vec<&'static str>,
}

fn value_string(v: &ast::Value) -> Option<String> {
    match v {
        ast::Value::String(s) => Some(s.clone()),
        _ => None,
    }
}

fn observe(lit: &str) -> Observed {
    let mut o = Observed {
        values: Vec::new(),
        skipped: Vec::new(),
    };
    let mixed = mixed_host(lit);
    // apollo-parser: every StringValue node of the host
    let tree = apollo_parser::Parser::new(&mixed).parse();
    if tree.errors().len() == 0 {
        let doc = tree.document();
        let mut n = 0;
        for node in doc.syntax().descendants() {
            if let Some(sv) = cst::StringValue::cast(node) {
                n += 1;
                o.values.push(("cst", String::from(&sv)));
            }
        }
        if n != CST_NODES_EXPECTED {
            o.skipped.push("cst-node-count");
        }
    } else {
        o.skipped.push("cst");
    }
    // compiler AST
    match ast::Document::parse(mixed.as_str(), "c06.graphql") {
        Ok(doc) => {
            for def in &doc.definitions {
                match def {
                    ast::Definition::ObjectTypeDefinition(t) => {
                        if let Some(d) = &t.description {
                            o.values.push(("ast_description", d.to_string()));
                        }
                        for f in &t.fields {
                            for a in &f.arguments {
                                if let Some(s) = a.default_value.as_ref().and_then(|v| value_string(v)) {
                                    o.values.push(("ast_field_argument_default", s));
                                }
                            }
                        }
                    }
                    ast::Definition::InputObjectTypeDefinition(t) => {
                        for f in &t.fields {
                            if let Some(s) = f.default_value.as_ref().and_then(|v| value_string(v)) {
                                o.values.push(("ast_input_field_default", s));
                            }
                        }
                    }
                    ast::Definition::OperationDefinition(op) => {
                        for v in &op.variables {
                            if let Some(s) = v.default_value.as_ref().and_then(|v| value_string(v)) {
                                o.values.push(("ast_variable_default", s));
                            }
                        }
                        for sel in &op.selection_set {
                            if let ast::Selection::Field(f) = sel {
                                for a in &f.arguments {
                                    if let Some(s) = value_string(&a.value) {
                                        o.values.push(("ast_argument", s));
                                    }
                                }
                                for d in f.directives.iter() {
                                    for a in &d.arguments {
                                        if let Some(s) = value_string(&a.value) {
                                            o.values.push(("ast_directive_argument", s));
                                        }
                                    }
                                }
                            }
                        }
                    }
                    _ => {}
                }
            }
        }
        Err(_) => o.skipped.push("ast"),
    }
    // compiler Schema
    let sh = schema_host(lit);
    match Schema::parse(sh.as_str(), "c06.graphql") {
        Ok(schema) => {
            if let Some(ExtendedType::Object(t)) = schema.types.get("T") {
                if let Some(d) = &t.description {
                    o.values.push(("schema_description", d.to_string()));
                }
                for f in t.fields.values() {
                    for a in &f.arguments {
                        if let Some(s) = a.default_value.as_ref().and_then(|v| value_string(v)) {
                            o.values.push(("schema_field_argument_default", s));
                        }
                    }
                }
            }
            if let Some(ExtendedType::InputObject(t)) = schema.types.get("I") {
                for f in t.fields.values() {
                    if let Some(s) = f.default_value.as_ref().and_then(|v| value_string(v)) {
                        o.values.push(("schema_input_field_default", s));
                    }
                }
            }
        }
        Err(_) => o.skipped.push("schema"),
    }
    o
}

pub const HOSTS: &[&str] = &[
    "cst",
    "ast_description",
    "ast_field_argument_default",
    "ast_input_field_default",
    "ast_variable_default",
    "ast_argument",
    "ast_directive_argument",
    "schema_description",
    "schema_field_argument_default",
    "schema_input_field_default",
];

/// Stable class of the difference between the expected and the observed value.
fn diff_class(block: bool, expected: &str, got: &str) -> &'static str {
    if block {
        let el: Vec<&str> = expected.split('\n').collect();
        let gl: Vec<&str> = got.split('\n').collect();
        if got.contains('\r') && !expected.contains('\r') {
            return "carriage return kept";
        }
        if el.len() != gl.len() {
            return "number of lines";
        }
        let ws = |c: char| c == ' ' || c == '\t';
        if el.iter().zip(&gl).all(|(a, b)| a.trim_start_matches(ws) == b.trim_start_matches(ws)) {
            return "indentation";
        }
        if el.iter().zip(&gl).all(|(a, b)| a.trim_matches(ws) == b.trim_matches(ws)) {
            return "trailing whitespace";
        }
        "line content"
    } else if expected.chars().count() != got.chars().count() {
        "number of characters"
    } else {
        "character value"
    }
}

fn block_features(ctx: &mut Ctx, lit: &str, expected: &str) {
    let body = &lit[3..lit.len() - 3];
    let raw: String = refstring::block_raw_value(body).into_iter().collect();
    let mut feats: Vec<&'static str> = Vec::new();
    if body.contains("\\\"\"\"") {
        feats.push("escaped triple quote");
    }
    if body.contains("\r\n") {
        feats.push("CRLF");
    }
    if body.replace("\r\n", "").contains('\r') {
        feats.push("lone CR");
    }
    if body.contains('\n') {
        feats.push("LF");
    }
    let norm = raw.replace("\r\n", "\n").replace('\r', "\n");
    let lines: Vec<&str> = norm.split('\n').collect();
    let ws = |c: char| c == ' ' || c == '\t';
    let wsonly = |l: &str| l.chars().all(ws);
    if let Some(f) = lines.first() {
        if !wsonly(f) && f.starts_with(ws) {
            feats.push("first line indented and kept");
        }
        if wsonly(f) && lines.len() > 1 {
            feats.push("leading blank line");
        }
    }
    if lines.len() > 1 && wsonly(lines[lines.len() - 1]) {
        feats.push("trailing blank line");
    }
    let indents: Vec<usize> = lines.iter().skip(1).filter(|l| !wsonly(l)).map(|l| l.len() - l.trim_start_matches(ws).len()).collect();
    if let Some(ci) = indents.iter().min() {
        if *ci > 0 {
            feats.push("common indent > 0");
            if lines.iter().skip(1).any(|l| wsonly(l) && l.len() < *ci && !l.is_empty()) {
                feats.push("whitespace-only line shorter than common indent");
            }
            if lines.iter().skip(1).any(|l| wsonly(l) && l.len() > *ci) {
                feats.push("whitespace-only line longer than common indent");
            }
            if lines.first().map(|f| !wsonly(f) && (f.len() - f.trim_start_matches(ws).len()) < *ci).unwrap_or(false) {
                feats.push("first line less indented than common indent");
            }
        }
        if indents.iter().any(|i| i != ci) {
            feats.push("unequal indents");
        }
    }
    if lines.iter().skip(1).any(|l| l.starts_with('\t') || l.starts_with(" \t")) {
        feats.push("tab in indentation");
    }
    if expected.is_empty() && !body.is_empty() {
        feats.push("non-empty body with empty value");
    }
    if lines.iter().any(|l| wsonly(l)) && lines.len() > 2 {
        feats.push("interior or edge whitespace-only line");
    }
    for f in feats {
        if !ctx.has_class("block_feature", f) {
            ctx.class("block_feature", f);
        }
    }
}

fn quoted_features(ctx: &mut Ctx, lit: &str) {
    let cs: Vec<char> = lit.chars().collect();
    let mut i = 1;
    while i + 1 < cs.len() {
        if cs[i] == '\\' {
            let name = match cs[i + 1] {
                '"' => "\\\"",
                '\\' => "\\\\",
                '/' => "\\/",
                'b' => "\\b",
                'f' => "\\f",
                'n' => "\\n",
                'r' => "\\r",
                't' => "\\t",
                'u' => "\\uXXXX",
                _ => "?",
            };
            if !ctx.has_class("escape", name) {
                ctx.class("escape", name);
            }
            i += 2;
        } else {
            if !cs[i].is_ascii() && !ctx.has_class("escape", "raw non-ASCII") {
                ctx.class("escape", "raw non-ASCII");
            }
            i += 1;
        }
    }
}

pub fn check_case(ctx: &mut Ctx, lit: &str, source: &str) {
    if !is_one_string_token(lit) {
        ctx.count("candidates_not_a_valid_literal", 1);
        return;
    }
    let Some(expected) = refstring::value_of_literal(lit) else {
        ctx.inconclusive("RefString has no value for a literal RefLexer accepts (harness bug)", json!({"literal": lit}));
        return;
    };
    ctx.eval();
    let block = refstring::is_block_literal(lit);
    if lit.len() > 64 {
        ctx.inflight("C06", lit.as_bytes());
    }
    let case = json!({"literal": lit});
    let kind = if block { "block" } else { "quoted" };
    match rt::catch(|| observe(lit)) {
        Err(p) => {
            ctx.violation(
                p.signature(&format!("string-decoding|{kind}")),
                format!("panic while decoding a valid {kind} string literal: {} at {}:{}", p.message, p.file, p.line),
                case,
            );
        }
        Ok(o) => {
            for s in &o.skipped {
                ctx.count(&format!("host_skipped_apollo_reported_errors:{s}"), 1);
            }
            let cst_val: Option<String> = o.values.iter().find(|(h, _)| *h == "cst").map(|(_, v)| v.clone());
            let mut cst_reported = false;
            for (host, got) in &o.values {
                ctx.count("values_compared", 1);
                if !ctx.has_class("host", host) {
                    ctx.class("host", host);
                }
                if *got == expected {
                    continue;
                }
                let dc = diff_class(block, &expected, got);
                if *host == "cst" {
                    if !cst_reported {
                        cst_reported = true;
                        ctx.violation(
                            format!("decode-mismatch|syntax-tree|{kind}|{dc}"),
                            format!("String::from(&cst::StringValue) = {:?}, specification value = {:?}", clip(got, 80), clip(&expected, 80)),
                            case.clone(),
                        );
                    }
                } else if cst_val.as_deref() == Some(got.as_str()) {
                    // same wrong value as the syntax tree: same root cause, already reported
                    ctx.count("compiler_hosts_repeating_syntax_tree_value", 1);
                } else {
                    let group = host.split('_').next().unwrap_or("ast");
                    let what = if host.ends_with("description") { "description" } else { "value" };
                    ctx.violation(
                        format!("decode-mismatch|compiler-{group}-{what}|{kind}|{dc}"),
                        format!(
                            "{host} = {:?}, specification value = {:?} (syntax tree gave {:?})",
                            clip(got, 80),
                            clip(&expected, 80),
                            cst_val.as_deref().map(|s| clip(s, 80))
                        ),
                        case.clone(),
                    );
                }
            }
            if block {
                block_features(ctx, lit, &expected);
                let body = &lit[3..lit.len() - 3];
                if expected != body {
                    ctx.nontrivial(lit);
                }
            } else {
                quoted_features(ctx, lit);
                if expected != lit[1..lit.len() - 1] {
                    ctx.nontrivial(lit);
                }
            }
        }
    }
    if !ctx.has_class("source", source) {
        ctx.class("source", source);
    }
}

pub const BLOCK_ALPHABET: &[&str] = &[" ", "\t", "\n", "\r", "a", "\"", "\\", "é"];
pub const QUOTED_ALPHABET: &[&str] = &["a", "\"", "\\", "n", "u", "0", "D", "8", "é", "\t"];

fn enumerate(ctx: &mut Ctx, name: &'static str, alphabet: &'static [&'static str], quote: &str, max: u32) {
    let k = alphabet.len() as u64;
    let mut global = 0u64;
    let mut buf = String::new();
    let before = ctx.evals;
    for len in 0..=max {
        let n = k.pow(len);
        let mut idx = (ctx.shard + ctx.nshards - global % ctx.nshards) % ctx.nshards;
        while idx < n {
            buf.clear();
            buf.push_str(quote);
            crate::monitors::c03::nth_string(alphabet, len, idx, &mut buf);
            buf.push_str(quote);
            let s = std::mem::take(&mut buf);
            check_case(ctx, &s, name);
            buf = s;
            idx += ctx.nshards;
        }
        global += n;
    }
    let valid = ctx.evals - before;
    ctx.count(&format!("exhaustive:{name}:valid_literals_checked"), valid);
    ctx.note(
        &format!("exhaustive:{name}"),
        json!({"alphabet": alphabet, "max_body_length": max, "candidate_bodies": global, "completed": true}),
    );
}

pub const REGRESSION: &[&str] = &[
    "\"\"",
    "\"\"\"\"\"\"",
    "\"a\"",
    "\"\\\"\\\\\\/\\b\\f\\n\\r\\t\"",
    "\"\\u0041\\u00e9\\uD7FF\\uE000\\uffff\\u0000\\u000A\"",
    "\"é中🚀\u{FEFF}\u{2028}\"",
    "\"\"\"\n    Hello,\n      World!\n\n    Yours,\n      GraphQL.\n  \"\"\"",
    "\"\"\"  first\n  second\"\"\"",
    "\"\"\"\n\n  a\n\n  b\n\n\"\"\"",
    "\"\"\"a\r\nb\rc\nd\"\"\"",
    "\"\"\"\r\n  a\r\n \r\n  b\r\n\"\"\"",
    "\"\"\"\n\ta\n\t b\n\"\"\"",
    "\"\"\"\n \ta\n\t b\n\"\"\"",
    "\"\"\" \\\"\"\" \"\"\"",
    "\"\"\"\\\"\"\"\"\"\"",
    "\"\"\"\\\\\"\"\"",
    "\"\"\"\\n\\u0041\"\"\"",
    "\"\"\"\n  \n    \n  a\n \n\"\"\"",
    "\"\"\"   \"\"\"",
    "\"\"\"\n\"\"\"",
    "\"\"\"\u{FEFF} a\n\u{FEFF} b\"\"\"",
    "\"\"\"é\n  é\n   é\"\"\"",
    "\"\"\"a\n  \"\" b\n   \" c\"\"\"",
];

/// Characters Unicode calls white space (or that look like it) which are not GraphQL WhiteSpace:
/// in a block string they are content and never count as indentation.
pub const UNICODE_SPACES: &[char] = &['\u{85}', '\u{A0}', '\u{1680}', '\u{2003}', '\u{200A}', '\u{2028}', '\u{2029}', '\u{202F}', '\u{3000}', '\u{FEFF}'];

/// Every 3-line block string whose lines are one of 11 (lead, content) shapes built from blanks and
/// one Unicode space, for each Unicode space and line terminator.
fn unicode_space_lines(ctx: &mut Ctx) {
    let mut idx = 0u64;
    for ws in UNICODE_SPACES {
        let leads = [String::new(), " ".to_string(), ws.to_string(), format!(" {ws}"), format!("{ws} ")];
        let mut shapes: Vec<String> = vec![String::new()];
        for l in &leads {
            shapes.push(format!("{l}a"));
            shapes.push(l.clone());
        }
        shapes.sort();
        shapes.dedup();
        for lt in ["\n", "\r\n"] {
            for a in &shapes {
                for b in &shapes {
                    for c in &shapes {
                        idx += 1;
                        if ctx.mine(idx) {
                            check_case(ctx, &format!("\"\"\"{a}{lt}{b}{lt}{c}\"\"\""), "unicode_space_lines");
                        }
                    }
                }
            }
        }
    }
}

fn random_block(rng: &mut Rng) -> String {
    const CONTENT: &[&str] = &["a", "b c", "é", "🚀", "\\\"\"\"", "\\", "\\n", "\"x", "\"\"y", "#", "\u{FEFF}", "z\t", "q  "];
    const LT: &[&str] = &["\n", "\n", "\r\n", "\r"];
    let mut s = String::from("\"\"\"");
    let nlines = rng.range(1, 9);
    let base = rng.below(5);
    for i in 0..nlines {
        // indentation: mixed spaces and tabs around a base
        let ind = match rng.below(6) {
            0 => 0,
            1 => base + rng.below(4),
            2 => base.saturating_sub(rng.below(3)),
            _ => base,
        };
        for _ in 0..ind {
            s.push(if rng.chance(1, 5) { '\t' } else { ' ' });
        }
        if rng.chance(1, 8) {
            // a Unicode space that is not GraphQL WhiteSpace: content, not indentation
            s.push(*rng.pick(UNICODE_SPACES));
            if rng.bool() {
                s.push(' ');
            }
        }
        match rng.below(5) {
            0 => {} // whitespace-only (or empty) line
            _ => {
                for _ in 0..rng.range(1, 3) {
                    s.push_str(rng.pick_str(CONTENT));
                }
            }
        }
        if i + 1 < nlines {
            s.push_str(rng.pick_str(LT));
        }
    }
    while s.ends_with('\\') || s.ends_with('"') && s.len() > 3 {
        s.push(' ');
    }
    s.push_str("\"\"\"");
    s
}

fn random_quoted(rng: &mut Rng) -> String {
    let mut s = String::from("\"");
    for _ in 0..rng.below(14) {
        match rng.below(12) {
            0 => s.push_str(rng.pick_str(&["\\\"", "\\\\", "\\/", "\\b", "\\f", "\\n", "\\r", "\\t"])),
            1..=2 => {
                // any non-surrogate BMP code point, random hex case
                let mut v = rng.below(0x10000) as u32;
                if (0xD800..=0xDFFF).contains(&v) {
                    v -= 0x800;
                }
                let h = if rng.bool() { format!("\\u{v:04x}") } else { format!("\\u{v:04X}") };
                s.push_str(&h);
            }
            3 => s.push_str(rng.pick_str(&["é", "中", "🚀", "\u{FEFF}", "\u{2028}", "\u{85}", "\u{7f}", "\t"])),
            4 => s.push_str(rng.pick_str(&["u", "n", "t", "0041", "{", "}", "#", "'", "/"])),
            _ => s.push(*rng.pick(&['a', 'b', ' ', 'Z', '0', '9', ',', ':'])),
        }
    }
    s.push('"');
    s
}

pub fn run(ctx: &mut Ctx) {
    if ctx.shard == 0 {
        for l in REGRESSION {
            check_case(ctx, l, "regression");
        }
    }
    // every \uXXXX escape: the lexically valid ones (all but the surrogates) must decode to
    // exactly that scalar value
    for cp in 0u32..=0xFFFF {
        if ctx.mine(cp as u64) {
            check_case(ctx, &format!("\"\\u{cp:04X}\""), "unicode_escape_sweep");
            check_case(ctx, &format!("\"x\\u{cp:04x}\""), "unicode_escape_sweep");
        }
    }
    let (bmax, qmax) = if ctx.quick() { (6, 5) } else { (6, 6) };
    unicode_space_lines(ctx);
    enumerate(ctx, "block-body-8", BLOCK_ALPHABET, "\"\"\"", bmax);
    enumerate(ctx, "quoted-body-10", QUOTED_ALPHABET, "\"", qmax);
    ctx.note("exhaustive_phase_finished_at_budget_fraction", json!(ctx.used()));
    let mut n = 0u64;
    while !ctx.time_up() {
        n += 1;
        let mut rng = ctx.sub_rng("c06-random", n);
        let (kind, lit) = match rng.below(10) {
            0..=4 => ("random_block", random_block(&mut rng)),
            5..=7 => ("random_quoted", random_quoted(&mut rng)),
            8 => ("c03_block", crate::monitors::c03::gen_block(&mut rng)),
            _ => ("c03_quoted", crate::monitors::c03::gen_quoted(&mut rng)),
        };
        check_case(ctx, &lit, kind);
        ctx.sample(|| json!({"source": kind, "literal": clip(&lit, 120), "reference_value": refstring::value_of_literal(&lit).map(|v| clip(&v, 120))}));
    }
}

pub fn replay(ctx: &mut Ctx, case: &Value) {
    if let Some(t) = case.get("literal").and_then(|t| t.as_str()) {
        check_case(ctx, t, "replay");
    }
}
