//! Helpers shared by several monitors: an ORDERED digest of apollo's `Schema` written against its
//! public API (needed because `Schema: PartialEq` ignores map order), serialization
//! configurations, and sources of schema texts.

use crate::corpus::CorpusFile;
use crate::gen::model::{print_plain, print_trivia, Doc};
use crate::gen::schema_gen::{gen_schema, SchemaOpts};
use crate::prng::Rng;
use apollo_compiler::ast;
use apollo_compiler::schema::{Component, ExtendedType, InputValueDefinition};
use apollo_compiler::Schema;
use std::fmt::Write;

fn dirs_digest(out: &mut String, dirs: &[Component<ast::Directive>]) {
    for d in dirs {
        let _ = write!(out, " @{}(", d.name);
        for a in &d.arguments {
            let _ = write!(out, "{}:{},", a.name, a.value.serialize().no_indent());
        }
        out.push(')');
    }
}

fn ast_dirs_digest(out: &mut String, dirs: &ast::DirectiveList) {
    for d in dirs.iter() {
        let _ = write!(out, " @{}(", d.name);
        for a in &d.arguments {
            let _ = write!(out, "{}:{},", a.name, a.value.serialize().no_indent());
        }
        out.push(')');
    }
}

fn input_digest(out: &mut String, a: &InputValueDefinition) {
    let _ = write!(out, "{:?} {}:{}", a.description.as_deref(), a.name, a.ty);
    if let Some(d) = &a.default_value {
        let _ = write!(out, "={}", d.serialize().no_indent());
    }
    ast_dirs_digest(out, &a.directives);
}

/// Ordered digest: one line per component, in the order the schema lists them. Built-in types and
/// built-in directive definitions that the user did not redefine are skipped (their position in
/// the maps is not part of what a schema document states).
pub fn schema_digest(s: &Schema) -> Vec<String> {
    let mut lines = Vec::new();
    {
        let sd = &s.schema_definition;
        let mut l = format!(
            "schema desc={:?} query={:?} mutation={:?} subscription={:?}",
            sd.description.as_deref(),
            sd.query.as_ref().map(|n| n.as_str()),
            sd.mutation.as_ref().map(|n| n.as_str()),
            sd.subscription.as_ref().map(|n| n.as_str())
        );
        dirs_digest(&mut l, &sd.directives.0);
        lines.push(l);
    }
    for (name, def) in &s.directive_definitions {
        if def.is_built_in() {
            continue;
        }
        let mut l = format!(
            "directive {:?} @{} repeatable={} on {:?}",
            def.description.as_deref(),
            name,
            def.repeatable,
            def.locations.iter().map(|x| x.name()).collect::<Vec<_>>()
        );
        for a in &def.arguments {
            l.push_str(" (");
            input_digest(&mut l, a);
            l.push(')');
        }
        lines.push(l);
    }
    for (name, ty) in &s.types {
        if ty.is_built_in() {
            continue;
        }
        match ty {
            ExtendedType::Scalar(t) => {
                let mut l = format!("scalar {:?} {}", t.description.as_deref(), name);
                dirs_digest(&mut l, &t.directives.0);
                lines.push(l);
            }
            ExtendedType::Object(t) => {
                let mut l = format!(
                    "type {:?} {} implements {:?}",
                    t.description.as_deref(),
                    name,
                    t.implements_interfaces.iter().map(|n| n.as_str()).collect::<Vec<_>>()
                );
                dirs_digest(&mut l, &t.directives.0);
                lines.push(l);
                for (fname, f) in &t.fields {
                    lines.push(field_digest(name.as_str(), fname.as_str(), f));
                }
            }
            ExtendedType::Interface(t) => {
                let mut l = format!(
                    "interface {:?} {} implements {:?}",
                    t.description.as_deref(),
                    name,
                    t.implements_interfaces.iter().map(|n| n.as_str()).collect::<Vec<_>>()
                );
                dirs_digest(&mut l, &t.directives.0);
                lines.push(l);
                for (fname, f) in &t.fields {
                    lines.push(field_digest(name.as_str(), fname.as_str(), f));
                }
            }
            ExtendedType::Union(t) => {
                let mut l = format!(
                    "union {:?} {} = {:?}",
                    t.description.as_deref(),
                    name,
                    t.members.iter().map(|n| n.as_str()).collect::<Vec<_>>()
                );
                dirs_digest(&mut l, &t.directives.0);
                lines.push(l);
            }
            ExtendedType::Enum(t) => {
                let mut l = format!("enum {:?} {}", t.description.as_deref(), name);
                dirs_digest(&mut l, &t.directives.0);
                lines.push(l);
                for (vname, v) in &t.values {
                    let mut l = format!("  {}.{} {:?}", name, vname, v.description.as_deref());
                    ast_dirs_digest(&mut l, &v.directives);
                    lines.push(l);
                }
            }
            ExtendedType::InputObject(t) => {
                let mut l = format!("input {:?} {}", t.description.as_deref(), name);
                dirs_digest(&mut l, &t.directives.0);
                lines.push(l);
                for (_fname, f) in &t.fields {
                    let mut l = format!("  {}.", name);
                    input_digest(&mut l, f);
                    lines.push(l);
                }
            }
        }
    }
    lines
}

fn field_digest(ty: &str, fname: &str, f: &Component<ast::FieldDefinition>) -> String {
    let mut l = format!("  {}.{} {:?} : {}", ty, fname, f.description.as_deref(), f.ty);
    for a in &f.arguments {
        l.push_str(" (");
        input_digest(&mut l, a);
        l.push(')');
    }
    ast_dirs_digest(&mut l, &f.directives);
    l
}

/// First index where two line lists differ, with a class of the line (its first word).
pub fn first_diff(a: &[String], b: &[String]) -> Option<(usize, String, String, String)> {
    let n = a.len().max(b.len());
    for i in 0..n {
        let x = a.get(i).map(|s| s.as_str()).unwrap_or("<missing>");
        let y = b.get(i).map(|s| s.as_str()).unwrap_or("<missing>");
        if x != y {
            let class = x.trim_start().split([' ', '.']).next().unwrap_or("").to_string();
            return Some((i, class, x.to_string(), y.to_string()));
        }
    }
    None
}

/// What a digest line is about, for signatures (no names).
pub fn line_class(l: &str) -> &'static str {
    let t = l.trim_start();
    if l.starts_with("  ") {
        "component"
    } else if t.starts_with("schema") {
        "schema-definition"
    } else if t.starts_with("directive") {
        "directive-definition"
    } else {
        "type-header"
    }
}

/// Serialization configurations shared by the round-trip monitors (C08's list).
#[derive(Clone, Debug)]
pub struct SerConfig {
    pub no_indent: bool,
    pub prefix: Option<&'static str>,
    pub initial: usize,
}

impl SerConfig {
    pub fn label(&self) -> String {
        if self.no_indent {
            "no_indent".into()
        } else {
            format!("prefix={:?} initial={}", self.prefix.unwrap_or("default"), self.initial)
        }
    }
    pub fn class(&self) -> &'static str {
        if self.no_indent {
            "no_indent"
        } else if self.initial > 0 {
            "indent+initial-level"
        } else if self.prefix.is_some() {
            "custom-prefix"
        } else {
            "default"
        }
    }
}

pub fn ser_configs() -> Vec<SerConfig> {
    let mut v = vec![
        SerConfig {
            no_indent: false,
            prefix: None,
            initial: 0,
        },
        SerConfig {
            no_indent: true,
            prefix: None,
            initial: 0,
        },
    ];
    for p in ["", " ", "\t", "    ", " \t"] {
        for initial in [0usize, 1, 3] {
            v.push(SerConfig {
                no_indent: false,
                prefix: Some(p),
                initial,
            });
        }
    }
    v
}

/// Apply a configuration to any `Serialize` builder.
#[macro_export]
macro_rules! apply_ser {
    ($ser:expr, $cfg:expr) => {{
        let mut s = $ser;
        if $cfg.no_indent {
            s = s.no_indent();
        } else {
            if let Some(p) = $cfg.prefix {
                s = s.indent_prefix(p);
            }
            if $cfg.initial > 0 {
                s = s.initial_indent_level($cfg.initial);
            }
        }
        s.to_string()
    }};
}

/// A generated schema: model + text.
pub struct GenSchema {
    pub doc: Doc,
    pub text: String,
    pub trivia: bool,
}

pub fn gen_schema_text(rng: &mut Rng, opts: &SchemaOpts) -> GenSchema {
    let doc = gen_schema(rng, opts);
    let trivia = rng.chance(1, 3);
    let text = if trivia { print_trivia(&doc, rng) } else { print_plain(&doc) };
    GenSchema { doc, text, trivia }
}

/// Corpus texts that hold type-system definitions (judged by apollo building them without error).
pub fn corpus_schema_texts(files: &[CorpusFile]) -> Vec<(String, String)> {
    let mut out = Vec::new();
    for f in files {
        if !matches!(
            f.group,
            "compiler_ok" | "compiler_diag" | "parser_ok" | "compiler_ser" | "compiler_introspection" | "examples_parser" | "examples_smith" | "examples_compiler"
        ) {
            continue;
        }
        if f.text.len() > 60_000 {
            continue;
        }
        out.push((format!("{}/{}", f.group, f.name), f.text.clone()));
    }
    out
}

/// Keep only the type-system definitions of a text (via apollo's AST; used to feed mixed corpus
/// documents to schema-only entry points). `None` if the text has syntax errors.
pub fn type_system_part(text: &str) -> Option<String> {
    let doc = ast::Document::parse(text, "x.graphql").ok()?;
    let mut out = ast::Document::new();
    for d in &doc.definitions {
        if !matches!(
            d,
            ast::Definition::OperationDefinition(_) | ast::Definition::FragmentDefinition(_)
        ) {
            out.definitions.push(d.clone());
        }
    }
    if out.definitions.is_empty() {
        return None;
    }
    Some(out.to_string())
}

/// apollo-smith document text for random bytes (None when the input is exhausted), with a bound on
/// the number of definitions per kind (the default of 50 makes documents needlessly large).
pub fn smith_text(bytes: &[u8], max: usize) -> Option<String> {
    let mut u = arbitrary::Unstructured::new(bytes);
    let doc = apollo_smith::DocumentBuilder::new(&mut u)
        .max_scalar_types(max)
        .max_enum_types(max)
        .max_interface_types(max)
        .max_object_types(max)
        .max_union_types(max)
        .max_input_object_types(max)
        .max_fragment_definitions(max)
        .max_directive_definitions(max)
        .max_operation_definitions(max)
        .build()
        .ok()?;
    Some(String::from(doc))
}
