//! C26 — Execution follows the GraphQL execution algorithm.
//!
//! For (valid schema, valid operation, coerced variables, resolver world):
//!  * apollo's `execute_sync` `data` equals `RefExecutor`'s data, object key order included;
//!  * the multiset of error paths lies between the reference's two ends of the one choice the
//!    specification leaves open (section 6.4.4: siblings / remaining items "may be cancelled" once a
//!    non-null error propagates): E(cancel everything) ⊆ E(apollo) ⊆ E(cancel nothing). On the
//!    pinned tree apollo equals the lower end exactly; that is counted, not demanded;
//!  * directly on apollo's response: no `null` at a non-null position, every error path designates
//!    the (null) position of its error, `data: null` iff a null propagated to the root;
//!  * mutations: root fields are resolved serially in document order (resolver call log).
//!
//! Signature: (clause, JSON path class with names masked, kind of difference).

use crate::gen::exec_gen::ExecOpts;
use crate::gen::from_ast::doc_from_ast;
use crate::gen::model::*;
use crate::monitors::execkit::*;
use crate::prng::{fnv64, Rng};
use crate::refmodel::executor::*;
use crate::rt::{clip, Ctx};
use apollo_compiler::response::JsonMap;
use apollo_compiler::validation::Valid;
use serde_json::{json, Map, Value as J};
use std::collections::BTreeMap;

pub struct Request<'a> {
    pub sc: &'a SchemaCase,
    pub ec: &'a ExecCase,
    pub op: &'a OpDef,
    pub raw_vars: Map<String, J>,
    pub coerced: Valid<JsonMap>,
    pub coerced_j: Map<String, J>,
    pub hash: u64,
}

impl<'a> Request<'a> {
    pub fn new(sc: &'a SchemaCase, ec: &'a ExecCase, op: &'a OpDef, raw_vars: Map<String, J>) -> Result<Request<'a>, String> {
        let coerced = coerce_vars(sc, ec, op.name.as_deref(), &raw_vars)?;
        let coerced_j = bytes_map_to_j(&coerced);
        let hash = fnv64(format!("{}\u{0}{}\u{0}{:?}\u{0}{}", sc.text, ec.text, op.name, J::Object(raw_vars.clone())).as_bytes());
        Ok(Request {
            sc,
            ec,
            op,
            raw_vars,
            coerced,
            coerced_j,
            hash,
        })
    }
    pub fn case_json(&self, world: &World) -> J {
        json!({
            "schema": self.sc.text,
            "exec": self.ec.text,
            "op": self.op.name,
            "variables": J::Object(self.raw_vars.clone()),
            "world": world.to_json(),
        })
    }
    pub fn root_type(&self) -> &str {
        self.sc.flat.root(&self.op.kind).unwrap_or("")
    }
}

fn multiset(paths: &[Path]) -> BTreeMap<&Path, usize> {
    let mut m = BTreeMap::new();
    for p in paths {
        *m.entry(p).or_insert(0) += 1;
    }
    m
}

/// First element of `a` that `b` does not contain often enough (multiset inclusion a ⊆ b).
fn not_included<'p>(a: &'p [Path], b: &[Path]) -> Option<&'p Path> {
    let mb = multiset(b);
    for (p, n) in multiset(a) {
        if mb.get(p).copied().unwrap_or(0) < n {
            return Some(p);
        }
    }
    None
}

/// Walk apollo's data with the declared types (runtime object types come from the world) and
/// report every `null` found at a non-null position.
fn nulls_at_non_null<'a>(ex: &RefExecutor<'a>, object_type: &str, sels: &[SSel<'a>], data: &Map<String, J>, path: &Path, out: &mut Vec<Path>) {
    for (key, fields) in ex.collect_fields(object_type, sels) {
        let Some(v) = data.get(&key) else { continue };
        let Sel::Field { name, .. } = fields[0].0 else { continue };
        let Some(ty) = ex.field_type(object_type, name) else { continue };
        let outcome = ex.world.get(object_type, name).cloned();
        let mut p = path.clone();
        p.push(Seg::Key(key.clone()));
        value_nulls(ex, v, &ty, outcome.as_ref(), &fields, &p, out);
    }
}

fn value_nulls<'a>(ex: &RefExecutor<'a>, v: &J, ty: &TyRef, outcome: Option<&Outcome>, fields: &[SSel<'a>], path: &Path, out: &mut Vec<Path>) {
    if v.is_null() {
        if ty.is_non_null() {
            out.push(path.clone());
        }
        return;
    }
    match (ty.nullable(), v) {
        (TyRef::List(item), J::Array(xs)) => {
            for (i, x) in xs.iter().enumerate() {
                let io = match outcome {
                    Some(Outcome::List(os)) => os.get(i),
                    _ => None,
                };
                let mut p = path.clone();
                p.push(Seg::Idx(i));
                value_nulls(ex, x, &item, io, fields, &p, out);
            }
        }
        (TyRef::Named(_), J::Object(m)) => {
            if let Some(Outcome::Object(runtime)) = outcome {
                let sub = ex.merged_sub_selections(fields);
                nulls_at_non_null(ex, runtime, &sub, m, path, out);
            }
        }
        _ => {}
    }
}

enum Located {
    /// the walk met `null` (at the position itself or at an ancestor)
    Null,
    /// the full path leads to a non-null value
    Value,
    /// the path cannot be followed after `n` segments
    Broken(usize),
}

fn locate(data: &Map<String, J>, path: &Path) -> Located {
    let root = J::Object(data.clone());
    let mut cur: &J = &root;
    for (i, seg) in path.iter().enumerate() {
        let next = match (cur, seg) {
            (J::Null, _) => return Located::Null,
            (J::Object(m), Seg::Key(k)) => m.get(k),
            (J::Array(xs), Seg::Idx(j)) => xs.get(*j),
            _ => None,
        };
        match next {
            Some(v) => cur = v,
            None => return Located::Broken(i),
        }
    }
    if cur.is_null() {
        Located::Null
    } else {
        Located::Value
    }
}

pub const SIG_STATIC_FIELD_TYPE: &str = "completion-type|field value completed with the static (interface) field type instead of the runtime object type's";

pub struct Judged {
    pub apollo: ApolloRun,
    pub reference: RefResponse,
}

/// Judge one (request, world). Returns the runs for reuse (C27 starts from the same request).
pub fn check_world(ctx: &mut Ctx, req: &Request, world: &World, source: &str) -> Option<Judged> {
    ctx.eval();
    let flat = &req.sc.flat;
    let run = match run_sync(&req.sc.schema, &req.ec.exec, req.op.name.as_deref(), req.root_type(), &req.coerced, world) {
        Ok(r) => r,
        Err(p) => {
            mark_violation_time(ctx);
            ctx.violation(
                p.signature("execute_sync"),
                format!("execute_sync panicked: {} at {}:{}", p.message, p.file, p.line),
                req.case_json(world),
            );
            return None;
        }
    };
    let resp = match &run.response {
        Ok(r) => r,
        Err(msg) => {
            mark_violation_time(ctx);
            ctx.violation(
                "request-error|valid request rejected",
                format!("execute_sync returned a request error for a validated operation with coerced variables: {msg}"),
                req.case_json(world),
            );
            return None;
        }
    };
    let lo = RefExecutor::new(flat, &req.ec.doc, &req.coerced_j, world, true).execute(req.op);
    let hi = RefExecutor::new(flat, &req.ec.doc, &req.coerced_j, world, false).execute(req.op);
    if lo.data != hi.data {
        ctx.inconclusive("harness: reference data differs between cancel modes", req.case_json(world));
        return None;
    }
    let calls = calls_of(&run.events);
    ctx.count("resolver_calls_logged", calls.len() as u64);
    ctx.count("errors_observed", resp.errors.len() as u64);
    ctx.class("source", source);
    ctx.class("operation_kind", &req.op.kind);
    for e in &lo.events {
        ctx.class("reference_event", e);
    }
    for c in &calls {
        if let Some(cell) = world.cells.get(&(c.object_type.clone(), c.field.clone())) {
            ctx.class("outcome_kind_resolved", &cell.kind);
        }
    }
    if !calls.is_empty() {
        ctx.nontrivial_hash(req.hash ^ fnv64(format!("{:?}", world.cells).as_bytes()).rotate_left(1));
    }
    let case = || req.case_json(world);

    let mut found: Vec<(String, String)> = Vec::new();
    let mut band_equal_low: Option<bool> = None;
    // ---- data, key order included -------------------------------------------------------------
    let got: Option<Map<String, J>> = resp.data.as_ref().map(bytes_map_to_j);
    match (&got, &lo.data) {
        (None, None) => {
            ctx.class("data", "null");
        }
        (None, Some(_)) => found.push((String::from("data|$|data-null-instead-of-object"), String::from("apollo: data is null; reference: data is an object (no null reaches the root)"))),
        (Some(_), None) => found.push((String::from("data|$|object-instead-of-data-null"), String::from("apollo: data is an object; reference: a null propagates to the root (data must be null)"))),
        (Some(g), Some(w)) => {
            ctx.class("data", "object");
            if let Some(d) = diff_ordered(&J::Object(g.clone()), &J::Object(w.clone()), &vec![]) {
                found.push((String::from(format!("data|{}|{}", path_class(&d.path), d.kind)), String::from(format!("data differs from the reference at {}: {}", path_to_json(&d.path), d.detail))));
            }
        }
    }

    // ---- error paths ----------------------------------------------------------------------------
    let got_errors: Vec<Path> = resp.errors.iter().map(|e| apollo_path(&e.path)).collect();
    if let Some(p) = not_included(&lo.errors, &got_errors) {
        found.push((String::from(format!("errors|{}|missing-error", path_class(p))), String::from(format!(
                "the reference reports a field error at {} (even when cancelling every sibling it may); apollo's error paths: {}",
                path_to_json(p),
                J::Array(got_errors.iter().map(path_to_json).collect())
            ))));
    } else if let Some(p) = not_included(&got_errors, &hi.errors) {
        found.push((String::from(format!("errors|{}|extra-error", path_class(p))), String::from(format!(
                "apollo reports a field error at {} that the reference does not produce (even when cancelling nothing); reference error paths: {}",
                path_to_json(p),
                J::Array(hi.errors.iter().map(path_to_json).collect())
            ))));
    } else {
        let mut a = got_errors.clone();
        let mut b = lo.errors.clone();
        a.sort();
        b.sort();
        band_equal_low = Some(a == b);
        if lo.errors.len() != hi.errors.len() {
            ctx.count("cases_where_cancellation_choice_matters", 1);
        }
    }

    // ---- direct checks on apollo's response ------------------------------------------------------
    let ex = RefExecutor::new(flat, &req.ec.doc, &req.coerced_j, world, true);
    let root_sels = ex.root_sels(req.op);
    if let Some(g) = &got {
        let mut bad = Vec::new();
        nulls_at_non_null(&ex, req.root_type(), &root_sels, g, &vec![], &mut bad);
        if let Some(p) = bad.first() {
            found.push((String::from(format!("direct|{}|null-at-non-null-position", path_class(p))), String::from(format!("apollo's data holds null at {} whose declared type is non-null", path_to_json(p)))));
        }
    }
    let mut some_error_reaches_root = false;
    for p in &got_errors {
        if p.is_empty() {
            found.push((String::from("direct|$|field-error-without-path"), String::from("a field error has an empty path")));
            continue;
        }
        if let Some(g) = &got {
            match locate(g, p) {
                Located::Null => {}
                Located::Value => found.push((String::from(format!("direct|{}|error-path-designates-a-value", path_class(p))), String::from(format!("error path {} leads to a non-null value in data", path_to_json(p))))),
                Located::Broken(n) => found.push((String::from(format!("direct|{}|error-path-not-in-data", path_class(p))), String::from(format!("error path {} cannot be followed in data after {} segments", path_to_json(p), n)))),
            }
        }
        match positions_along(&ex, req.op, p) {
            None => found.push((String::from(format!("direct|{}|error-path-not-a-position", path_class(p))), String::from(format!("error path {} is not a position this operation produces in this world", path_to_json(p))))),
            Some((chain, outcome)) => {
                // an iterator `Err` fails the list: propagation starts at the list's position
                let item_err = outcome == Outcome::Err && matches!(p.last(), Some(Seg::Idx(_)));
                let upto = if item_err { chain.len() - 1 } else { chain.len() };
                if chain[..upto].iter().all(|t| t.is_non_null()) {
                    some_error_reaches_root = true;
                }
            }
        }
    }
    match (got.is_none(), some_error_reaches_root) {
        (true, true) => {
            ctx.class("root", "null-propagated-to-root");
        }
        (false, false) => {}
        (true, false) => found.push((String::from("direct|$|data-null-without-propagation"), String::from("data is null but no reported error sits under an all-non-null chain of positions"))),
        (false, true) => found.push((String::from("direct|$|propagation-to-root-but-data-not-null"), String::from("an error sits under an all-non-null chain from the root but data is not null"))),
    }

    // ---- mutations: root fields serially, in document order --------------------------------------
    if req.op.kind == "mutation" {
        let order: Vec<String> = ex.collect_fields(req.root_type(), &root_sels).into_iter().map(|(k, _)| k).collect();
        let mut last = 0usize;
        for e in &run.events {
            if let Some(Seg::Key(k)) = e.path().first() {
                match order.iter().position(|x| x == k) {
                    Some(i) if i >= last => last = i,
                    _ => {
                        found.push((String::from("mutation|root-fields-not-serial-in-document-order"), String::from(format!("event {} after events of a later root field; root order {:?}", e.to_json(), order))));
                        break;
                    }
                }
            }
        }
        ctx.count("mutation_call_logs_checked", 1);
    }
    if found.is_empty() {
        match band_equal_low {
            Some(true) => ctx.count("error_multiset_equals_cancelling_reference", 1),
            Some(false) => {
                ctx.count("error_multiset_strictly_inside_band", 1);
                ctx.note("example_error_multiset_strictly_inside_band", json!({"case": case(), "apollo_error_paths": J::Array(got_errors.iter().map(path_to_json).collect()), "cancel_all": J::Array(lo.errors.iter().map(path_to_json).collect()), "cancel_none": J::Array(hi.errors.iter().map(path_to_json).collect())}));
            }
            None => {}
        }
        if calls == lo.calls {
            ctx.count("call_log_equals_cancelling_reference", 1);
        } else {
            ctx.count("call_log_differs_from_cancelling_reference", 1);
        }
    }
    // ---- classification of disagreements -------------------------------------------------------
    if !found.is_empty() {
        // One known root cause produces many path classes: apollo completes a field's value with
        // the type declared by the selection's static parent type (e.g. the interface) instead of
        // the runtime object type's declaration. If the reference run in exactly that mode
        // reproduces apollo's response completely, report under that one site-specific signature.
        let mut dev = RefExecutor::new(flat, &req.ec.doc, &req.coerced_j, world, true);
        dev.complete_with_static_type = true;
        let dev = dev.execute(req.op);
        let same_data = match (&got, &dev.data) {
            (None, None) => true,
            (Some(g), Some(w)) => diff_ordered(&J::Object(g.clone()), &J::Object(w.clone()), &vec![]).is_none(),
            _ => false,
        };
        let mut a = got_errors.clone();
        let mut b = dev.errors.clone();
        a.sort();
        b.sort();
        if ctx.replay_mode {
            eprintln!("apollo data: {}", serde_json::to_string(&got).unwrap());
            eprintln!("apollo errors: {}", J::Array(got_errors.iter().map(path_to_json).collect()));
            eprintln!("reference data: {}", serde_json::to_string(&lo.data).unwrap());
            eprintln!("reference errors (cancel all / cancel none): {} / {}", J::Array(lo.errors.iter().map(path_to_json).collect()), J::Array(hi.errors.iter().map(path_to_json).collect()));
            eprintln!("static-type model data: {}", serde_json::to_string(&dev.data).unwrap());
            eprintln!("static-type model errors: {}", J::Array(dev.errors.iter().map(path_to_json).collect()));
        }
        if same_data && a == b {
            mark_violation_time(ctx);
            ctx.violation(
                SIG_STATIC_FIELD_TYPE,
                format!(
                    "apollo's response is what the algorithm yields when CompleteValue uses the field type declared by the selection's static parent type instead of the runtime object type's (spec: \"Let fieldType be the return type defined for the field fieldName of objectType\"); first symptom: {}",
                    found[0].1
                ),
                case(),
            );
        } else {
            for (sig, msg) in found {
                mark_violation_time(ctx);
                ctx.violation(sig, msg, case());
            }
        }
    }
    ctx.sample(|| {
        json!({
            "schema": clip(&req.sc.text, 400),
            "exec": clip(&req.ec.text, 300),
            "variables": J::Object(req.raw_vars.clone()),
            "world": world.to_json(),
            "data": got.clone().map(J::Object),
            "error_paths": J::Array(got_errors.iter().map(path_to_json).collect()),
        })
    });
    Some(Judged {
        apollo: run,
        reference: lo,
    })
}

// ---------------------------------------------------------------------------------------------
// Workload
// ---------------------------------------------------------------------------------------------

pub fn small_opts(rng: &mut Rng) -> ExecOpts {
    ExecOpts {
        max_depth: rng.range(1, 2),
        max_fields: 2,
        subscriptions: false,
        max_ops: 2,
        ..ExecOpts::default()
    }
}

pub fn large_opts(rng: &mut Rng) -> ExecOpts {
    ExecOpts {
        max_depth: rng.range(2, 3),
        max_fields: 3,
        subscriptions: false,
        max_ops: 2,
        ..ExecOpts::default()
    }
}

/// Sometimes add `__schema` / `__type` to the root of a query (field errors: introspection is
/// disabled by default).
fn inject_meta(rng: &mut Rng, doc: &mut Doc) -> bool {
    let mut done = false;
    for d in doc.defs.iter_mut() {
        if let Def::Op(o) = d {
            if o.kind == "query" && rng.chance(1, 8) {
                let leaf = |n: &str| Sel::Field {
                    alias: None,
                    name: n.into(),
                    args: vec![],
                    dirs: vec![],
                    sels: vec![],
                };
                let sel = if rng.bool() {
                    Sel::Field {
                        alias: if rng.bool() { Some("meta_s".into()) } else { None },
                        name: "__schema".into(),
                        args: vec![],
                        dirs: vec![],
                        sels: vec![Sel::Field {
                            alias: None,
                            name: "queryType".into(),
                            args: vec![],
                            dirs: vec![],
                            sels: vec![leaf("name")],
                        }],
                    }
                } else {
                    Sel::Field {
                        alias: if rng.bool() { Some("meta_t".into()) } else { None },
                        name: "__type".into(),
                        args: vec![("name".into(), Val::Str("Query".into()))],
                        dirs: vec![],
                        sels: vec![leaf("name")],
                    }
                };
                let at = rng.below(o.sels.len() + 1);
                o.sels.insert(at, sel);
                done = true;
            }
        }
    }
    done
}

pub const MAX_FIELDS: usize = 40;
pub const EXHAUSTIVE_CELLS: usize = 5;
pub const PALETTE: usize = 6;

/// Generate requests and hand each (request, cells) to `f`. Shared with C27.
pub fn for_each_request(ctx: &mut Ctx, label: &str, mut f: impl FnMut(&mut Ctx, &Request, &BTreeMap<(String, String), TyRef>, &mut Rng)) {
    let mut n = 0u64;
    while !ctx.time_up() {
        n += 1;
        let mut rng = ctx.sub_rng(label, n);
        let sc = match gen_schema_case(&mut rng, &exec_schema_opts()) {
            Ok(s) => s,
            Err(_) => {
                ctx.count("filtered_schema_rejected_by_apollo", 1);
                continue;
            }
        };
        ctx.count("schemas", 1);
        for e in 0..6 {
            if ctx.time_up() {
                return;
            }
            let opts = if e % 2 == 0 { small_opts(&mut rng) } else { large_opts(&mut rng) };
            let mut doc = crate::gen::exec_gen::gen_executable(&mut rng, &sc.flat, &opts);
            let injected = inject_meta(&mut rng, &mut doc);
            let ec = match build_exec(&sc, doc) {
                Ok(x) => x,
                Err(_) => {
                    ctx.count("filtered_operation_rejected_by_apollo", 1);
                    continue;
                }
            };
            if count_fields(&ec.doc) > MAX_FIELDS {
                ctx.count("filtered_more_than_40_fields", 1);
                continue;
            }
            ctx.count("valid_pairs", 1);
            if injected {
                ctx.class("feature", "schema-introspection-meta-field");
            }
            if has_skip_include(&ec.doc) {
                ctx.class("feature", "skip-include");
            }
            if crate::monitors::execkit::has_skip_and_include_together(&ec.doc) {
                ctx.class("feature", "skip-and-include-on-one-selection");
            }
            if ec.doc.frags().next().is_some() {
                ctx.class("feature", "named-fragments");
            }
            let ops: Vec<&OpDef> = ec.doc.ops().collect();
            for op in ops {
                for _ in 0..2 {
                    let raw = gen_variables(&mut rng, &sc.flat, &ec.doc, op);
                    let req = match Request::new(&sc, &ec, op, raw) {
                        Ok(r) => r,
                        Err(_) => {
                            ctx.count("filtered_variables_rejected_by_coercion", 1);
                            continue;
                        }
                    };
                    let cells = touched_cells(&sc.flat, &ec.doc, op);
                    f(ctx, &req, &cells, &mut rng);
                    if op.vars.is_empty() {
                        break;
                    }
                }
            }
        }
    }
}

/// Minimal witness of the completion-type finding (checked at the start of every run on shard 0,
/// so that a repaired tree that regresses, or a recorded finding that still reproduces, is seen
/// independently of generator luck).
pub fn witness_completion_type() -> J {
    json!({
        "schema": "interface I { a: Int } type T implements I { a: Int! } type Query { i: I }",
        "exec": "{ i { a } }",
        "op": null,
        "variables": {},
        "world": {"Query.i": {"kind": "object_right", "outcome": {"object": "T"}}, "T.a": {"kind": "null", "outcome": "null"}},
    })
}

pub fn run(ctx: &mut Ctx) {
    if ctx.shard == 0 {
        let w = witness_completion_type();
        let r = with_replayed_request(&w, |req, world| {
            check_world(ctx, req, world, "witness");
        });
        if let Err(e) = r {
            ctx.inconclusive(&format!("witness: {e}"), w);
        }
    }
    let random_worlds = if ctx.quick() { 24 } else { 48 };
    for_each_request(ctx, "c26", |ctx, req, cells, rng| {
        let flat = &req.sc.flat;
        ctx.count_max("cells_touched_by_one_operation", cells.len() as u64);
        if cells.len() <= EXHAUSTIVE_CELLS {
            // ALL worlds over a 6-outcome palette per (type, field)
            let keys: Vec<&(String, String)> = cells.keys().collect();
            let palettes: Vec<Vec<Cell>> = keys.iter().map(|k| palette_for(rng, flat, &cells[*k], PALETTE, 2)).collect();
            let total = PALETTE.pow(keys.len() as u32);
            ctx.count("requests_with_exhaustive_worlds", 1);
            ctx.class("exhaustive_cells", &keys.len().to_string());
            for w in 0..total {
                let mut world = World::default();
                let mut x = w;
                for (i, k) in keys.iter().enumerate() {
                    let c = &palettes[i][x % PALETTE];
                    x /= PALETTE;
                    world.set(&k.0, &k.1, &c.kind, c.outcome.clone());
                }
                check_world(ctx, req, &world, "exhaustive-palette");
                if w % 64 == 63 && ctx.time_up() {
                    ctx.count("exhaustive_enumerations_cut_by_budget", 1);
                    return;
                }
            }
            ctx.count("exhaustive_enumerations_completed", 1);
        } else {
            ctx.count("requests_with_random_worlds", 1);
            for i in 0..random_worlds {
                let p_ok = [9, 7, 5][i % 3];
                let world = random_world(rng, flat, cells, p_ok, 3);
                check_world(ctx, req, &world, "random-world");
            }
        }
    });
}

/// Rebuild a request from a recorded case (texts are parsed by apollo and converted to the model).
pub fn with_replayed_request(case: &J, f: impl FnOnce(&Request, &World)) -> Result<(), String> {
    let schema_text = case.get("schema").and_then(|x| x.as_str()).ok_or("no schema")?;
    let exec_text = case.get("exec").and_then(|x| x.as_str()).ok_or("no exec")?;
    let sast = apollo_compiler::ast::Document::parse(schema_text, "schema.graphql").map_err(|e| e.errors.to_string())?;
    let sdoc = doc_from_ast(&sast).ok_or("schema not representable")?;
    let sc = build_schema(sdoc)?;
    let east = apollo_compiler::ast::Document::parse(exec_text, "op.graphql").map_err(|e| e.errors.to_string())?;
    let edoc = doc_from_ast(&east).ok_or("operation not representable")?;
    let ec = build_exec(&sc, edoc)?;
    let op_name = case.get("op").and_then(|x| x.as_str());
    let op = ec
        .doc
        .ops()
        .find(|o| o.name.as_deref() == op_name)
        .ok_or("operation not found")?;
    let raw = case.get("variables").and_then(|x| x.as_object()).cloned().unwrap_or_default();
    let world = World::from_json(case.get("world").ok_or("no world")?).ok_or("bad world")?;
    let req = Request::new(&sc, &ec, op, raw)?;
    f(&req, &world);
    Ok(())
}

pub fn replay(ctx: &mut Ctx, case: &J) {
    let r = with_replayed_request(case, |req, world| {
        check_world(ctx, req, world, "replay");
    });
    if let Err(e) = r {
        ctx.inconclusive(&format!("replay: {e}"), case.clone());
    }
}
