//! C28 — Variable coercion follows the specification.
//!
//! Oracle: `RefCoerce` (refmodel/coerce.rs). `request::coerce_variable_values(schema, op, json)`
//! must succeed iff the reference succeeds, and on success the resulting map must equal the
//! reference's (exactly the provided-or-defaulted variables; numbers by value, objects unordered).
//! Cases in a don't-care band of the reference are counted and not judged.
//!
//! Workload: random schemas (enum, custom scalar, 1-3 acyclic input object types with defaults,
//! non-null fields and list fields), 12 variable types per schema to list depth 3 over all named
//! kinds, operations with 1-3 variables (optional default literals), and JSON variable maps made of
//! well-typed values with 0-2 perturbations (wrong kind, null, missing, extra key, out of range,
//! float for int, numeric string, list wrap/unwrap).

use crate::prng::Rng;
use crate::refmodel::coerce::{json_diff, Def, InField, Lit, RefCoerce, VarDef, World, J};
use crate::refmodel::typerel::{parse_ty, Ty};
use crate::rt::{self, clip, Ctx};
use apollo_compiler::validation::Valid;
use apollo_compiler::{ExecutableDocument, Schema};
use serde_json::{json, Value};
use serde_json_bytes::Value as BV;

const SCALARS: [&str; 5] = ["Int", "Float", "String", "Boolean", "ID"];
const ENUM_VALUES: [&str; 3] = ["V1", "V2", "V3"];

pub struct Batch {
    pub world: World,
    /// argument types of `Query.f<i>(x: T)`, i.e. the types variables can have in this batch
    pub arg_types: Vec<Ty>,
    pub schema_text: String,
}

fn wrap(rng: &mut Rng, named: &str, max_lists: usize) -> Ty {
    let mut t = Ty::named(named);
    if rng.chance(1, 3) {
        t = t.non_null();
    }
    let lists = match rng.below(10) {
        0..=3 => 0,
        4..=6 => 1,
        7..=8 => 2,
        _ => 3,
    }
    .min(max_lists);
    for _ in 0..lists {
        t = t.list();
        if rng.chance(1, 3) {
            t = t.non_null();
        }
    }
    t
}

fn gen_world(rng: &mut Rng) -> World {
    let mut w = World::default();
    for s in SCALARS {
        w.types.insert(s.to_string(), Def::Builtin);
    }
    w.types.insert("E".into(), Def::Enum(ENUM_VALUES.iter().map(|s| s.to_string()).collect()));
    w.types.insert("S".into(), Def::CustomScalar);
    let n_inputs = rng.range(1, 3);
    for k in 0..n_inputs {
        let mut names: Vec<String> = SCALARS.iter().map(|s| s.to_string()).collect();
        names.push("E".into());
        names.push("S".into());
        for j in 0..k {
            // earlier input types only (acyclic); weighted so nesting is common
            names.push(format!("I{j}"));
            names.push(format!("I{j}"));
        }
        let n_fields = rng.range(1, 4);
        let mut fields = Vec::new();
        for f in 0..n_fields {
            let named = rng.pick(&names).clone();
            let ty = wrap(rng, &named, 2);
            let default = if rng.chance(2, 5) { Some(gen_lit(&w, &ty, rng, 0)) } else { None };
            fields.push(InField { name: format!("f{}", (b'a' + f as u8) as char), ty, default });
        }
        w.types.insert(format!("I{k}"), Def::Input(fields));
    }
    w
}

/// A literal that is a canonical value of the type: lists written as lists at every level, input
/// objects with every field spelled out (so that "is the default itself coerced?" never matters).
fn gen_lit(w: &World, ty: &Ty, rng: &mut Rng, depth: usize) -> Lit {
    match ty {
        Ty::NonNull(i) => gen_lit_nn(w, i, rng, depth),
        other => {
            if rng.chance(1, 7) {
                Lit::Null
            } else {
                gen_lit_nn(w, other, rng, depth)
            }
        }
    }
}

fn gen_lit_nn(w: &World, ty: &Ty, rng: &mut Rng, depth: usize) -> Lit {
    match ty {
        Ty::NonNull(i) => gen_lit_nn(w, i, rng, depth),
        Ty::List(item) => {
            let n = if depth > 3 { 0 } else { rng.range(0, 2) };
            Lit::List((0..n).map(|_| gen_lit(w, item, rng, depth + 1)).collect())
        }
        Ty::Named(n) => match (n.as_str(), w.types.get(n)) {
            ("Int", _) => Lit::Int(*rng.pick(&[0i64, 1, -1, 42, 2147483647, -2147483648])),
            ("Float", _) => {
                if rng.chance(1, 4) {
                    Lit::Int(*rng.pick(&[0i64, 3, -7]))
                } else {
                    Lit::Float(rng.pick_str(&["1.5", "-0.25", "2.0", "1e3", "6.02e23"]).to_string())
                }
            }
            ("String", _) => Lit::Str(rng.pick_str(&["", "s", "14", "hello world"]).to_string()),
            ("Boolean", _) => Lit::Bool(rng.bool()),
            ("ID", _) => {
                if rng.bool() {
                    Lit::Str(rng.pick_str(&["id1", "7"]).to_string())
                } else {
                    Lit::Int(*rng.pick(&[7i64, 0, 123456]))
                }
            }
            (_, Some(Def::Enum(vs))) => Lit::Enum(rng.pick(vs).clone()),
            (_, Some(Def::CustomScalar)) => match rng.below(4) {
                0 => Lit::Int(5),
                1 => Lit::Str("custom".into()),
                2 => Lit::Obj(vec![("k".into(), Lit::Int(1))]),
                _ => Lit::List(vec![Lit::Bool(true)]),
            },
            (_, Some(Def::Input(fields))) => {
                Lit::Obj(fields.iter().map(|f| (f.name.clone(), gen_lit(w, &f.ty, rng, depth + 1))).collect())
            }
            _ => Lit::Null,
        },
    }
}

/// A well-typed JSON value. `in_item`: we are producing an item of a JSON list (then a value for
/// a list type is always a list, to stay out of the nested-item band).
fn gen_value(w: &World, ty: &Ty, rng: &mut Rng, in_item: bool, depth: usize) -> J {
    match ty {
        Ty::NonNull(i) => gen_value_nn(w, i, rng, in_item, depth),
        other => {
            if rng.chance(1, 8) {
                J::Null
            } else {
                gen_value_nn(w, other, rng, in_item, depth)
            }
        }
    }
}

fn gen_value_nn(w: &World, ty: &Ty, rng: &mut Rng, in_item: bool, depth: usize) -> J {
    match ty {
        Ty::NonNull(i) => gen_value_nn(w, i, rng, in_item, depth),
        Ty::List(item) => {
            if !in_item && rng.chance(1, 5) {
                // single value in place of a list (recursively for nested lists)
                gen_value_nn(w, item, rng, false, depth)
            } else {
                let n = if depth > 4 { 0 } else { rng.range(0, 3) };
                J::List((0..n).map(|_| gen_value(w, item, rng, true, depth + 1)).collect())
            }
        }
        Ty::Named(n) => match (n.as_str(), w.types.get(n)) {
            ("Int", _) => J::Int(*rng.pick(&[0i128, 1, -1, 42, 1000, 2147483647, -2147483648])),
            ("Float", _) => match rng.below(5) {
                0 => J::Int(*rng.pick(&[0i128, 14, -3, (1 << 53) - 2, -((1 << 53) - 2)])),
                1 => J::Float(*rng.pick(&[1e300, -1e-300, 9007199254740991.5, 1.0e20])),
                _ => J::Float(*rng.pick(&[1.5, -0.25, 3.0, 0.1])),
            },
            ("String", _) => J::Str(rng.pick_str(&["", "s", "14", "true", "héllo"]).to_string()),
            ("Boolean", _) => J::Bool(rng.bool()),
            ("ID", _) => {
                if rng.bool() {
                    J::Str(rng.pick_str(&["id1", "7", ""]).to_string())
                } else {
                    J::Int(*rng.pick(&[7i128, 0, -1, i64::MAX as i128, i64::MIN as i128]))
                }
            }
            (_, Some(Def::Enum(vs))) => J::Str(rng.pick(vs).clone()),
            (_, Some(Def::CustomScalar)) => match rng.below(6) {
                0 => J::Int(5),
                1 => J::Str("custom".into()),
                2 => J::Obj(vec![("k".into(), J::List(vec![J::Int(1), J::Null]))]),
                3 => J::List(vec![J::Bool(true)]),
                4 => J::Float(2.5),
                _ => J::Bool(false),
            },
            (_, Some(Def::Input(fields))) => {
                let mut out = Vec::new();
                for f in fields {
                    let optional = f.default.is_some() || !f.ty.is_non_null();
                    if optional && rng.chance(2, 5) {
                        continue;
                    }
                    out.push((f.name.clone(), gen_value(w, &f.ty, rng, false, depth + 1)));
                }
                if rng.bool() {
                    rng.shuffle(&mut out);
                }
                J::Obj(out)
            }
            _ => J::Null,
        },
    }
}

// ---- perturbations -------------------------------------------------------------------------

#[derive(Clone, Debug)]
enum Step {
    Key(String),
    Index(usize),
}

fn collect_paths(v: &J, cur: &mut Vec<Step>, out: &mut Vec<Vec<Step>>) {
    match v {
        J::Obj(m) => {
            for (k, x) in m {
                cur.push(Step::Key(k.clone()));
                out.push(cur.clone());
                collect_paths(x, cur, out);
                cur.pop();
            }
        }
        J::List(l) => {
            for (i, x) in l.iter().enumerate() {
                cur.push(Step::Index(i));
                out.push(cur.clone());
                collect_paths(x, cur, out);
                cur.pop();
            }
        }
        _ => {}
    }
}

fn node_mut<'a>(v: &'a mut J, path: &[Step]) -> Option<&'a mut J> {
    let mut cur = v;
    for s in path {
        cur = match (cur, s) {
            (J::Obj(m), Step::Key(k)) => &mut m.iter_mut().find(|(kk, _)| kk == k)?.1,
            (J::List(l), Step::Index(i)) => l.get_mut(*i)?,
            _ => return None,
        };
    }
    Some(cur)
}

pub const PERTURBATIONS: [&str; 9] =
    ["wrong-kind", "null", "missing", "extra-key", "out-of-range", "float-for-int", "numeric-string", "wrap-in-list", "unwrap-list"];

/// Apply one perturbation somewhere in the variables object; returns its name if applied.
fn perturb(root: &mut J, rng: &mut Rng) -> Option<&'static str> {
    let mut paths = Vec::new();
    collect_paths(root, &mut Vec::new(), &mut paths);
    let kind = *rng.pick(&PERTURBATIONS);
    // candidates appropriate for the kind
    let is_num = |j: &J| matches!(j, J::Int(_) | J::Float(_));
    let mut cands: Vec<Vec<Step>> = Vec::new();
    for p in &paths {
        let mut tmp = root.clone();
        let Some(n) = node_mut(&mut tmp, p) else { continue };
        let ok = match kind {
            "out-of-range" | "float-for-int" | "numeric-string" => is_num(n) || (kind == "numeric-string" && matches!(n, J::Str(_))),
            "extra-key" => matches!(n, J::Obj(_)),
            "unwrap-list" => matches!(n, J::List(l) if !l.is_empty()),
            _ => true,
        };
        if ok {
            cands.push(p.clone());
        }
    }
    if kind == "extra-key" && (cands.is_empty() || rng.chance(1, 6)) {
        // an undeclared variable at the top level: must be ignored
        if let J::Obj(m) = root {
            m.push(("undeclared".into(), J::Int(1)));
            return Some("extra-key");
        }
    }
    if cands.is_empty() {
        return None;
    }
    let p = rng.pick(&cands).clone();
    if kind == "missing" {
        let (last, parent_path) = p.split_last()?;
        let parent = node_mut(root, parent_path)?;
        match (parent, last) {
            (J::Obj(m), Step::Key(k)) => m.retain(|(kk, _)| kk != k),
            (J::List(l), Step::Index(i)) => {
                l.remove(*i);
            }
            _ => return None,
        }
        return Some(kind);
    }
    let n = node_mut(root, &p)?;
    match kind {
        "wrong-kind" => {
            let repl = [
                J::Str("x".into()),
                J::Int(7),
                J::Bool(true),
                J::Obj(vec![]),
                J::List(vec![]),
                J::Float(1.5),
                J::Obj(vec![("zz".into(), J::Int(1))]),
                J::Str("V9".into()),
            ];
            let cur_kind = n.kind();
            let choices: Vec<&J> = repl.iter().filter(|r| r.kind() != cur_kind).collect();
            *n = (*rng.pick(&choices)).clone();
        }
        "null" => *n = J::Null,
        "extra-key" => {
            if let J::Obj(m) = n {
                m.push(("zz".into(), J::Int(1)));
            }
        }
        "out-of-range" => {
            *n = J::Int(*rng.pick(&[
                1i128 << 31,
                -(1i128 << 31) - 1,
                (1i128 << 53) + 1,
                -((1i128 << 53) + 1),
                i64::MAX as i128,
                i64::MIN as i128 + 1,
                u64::MAX as i128,
                (1i128 << 62) + 1,
            ]));
        }
        "float-for-int" => {
            let base = match n {
                J::Int(i) if i.abs() < 1_000_000 => *i as f64,
                _ => 3.0,
            };
            *n = J::Float(base + 0.5);
        }
        "numeric-string" => {
            *n = match n {
                J::Int(i) => J::Str(i.to_string()),
                J::Float(f) => J::Str(f.to_string()),
                J::Str(s) => s.parse::<i64>().map(|i| J::Int(i as i128)).unwrap_or(J::Int(14)),
                _ => return None,
            }
        }
        "wrap-in-list" => {
            let old = n.clone();
            *n = J::List(vec![old]);
        }
        "unwrap-list" => {
            if let J::List(l) = n {
                let first = l[0].clone();
                *n = first;
            }
        }
        _ => return None,
    }
    Some(kind)
}

// ---- batch ---------------------------------------------------------------------------------

fn schema_text(w: &World, arg_types: &[Ty]) -> String {
    let mut s = String::from("type Query {\n  a: Int\n");
    for (i, t) in arg_types.iter().enumerate() {
        s.push_str(&format!("  q{i}(x: {}): Int\n", t.text()));
    }
    s.push_str("}\nscalar S\nenum E { V1 V2 V3 }\n");
    for (name, def) in &w.types {
        if let Def::Input(fields) = def {
            s.push_str(&format!("input {name} {{\n"));
            for f in fields {
                s.push_str(&format!(
                    "  {}: {}{}\n",
                    f.name,
                    f.ty.text(),
                    f.default.as_ref().map(|d| format!(" = {}", d.to_graphql())).unwrap_or_default()
                ));
            }
            s.push_str("}\n");
        }
    }
    s
}

pub fn gen_batch(rng: &mut Rng) -> Batch {
    let world = gen_world(rng);
    let names: Vec<String> = world.types.keys().cloned().collect();
    let inputs: Vec<String> = names.iter().filter(|n| n.starts_with('I') && n.as_str() != "ID" && n.as_str() != "Int").cloned().collect();
    let mut arg_types = Vec::new();
    for i in 0..12 {
        // make sure every kind shows up: first the input objects, then round-robin
        let named = if i < inputs.len() { inputs[i].clone() } else if i % 3 == 0 { rng.pick(&inputs).clone() } else { rng.pick(&names).clone() };
        arg_types.push(wrap(rng, &named, 3));
    }
    let schema_text = schema_text(&world, &arg_types);
    Batch { world, arg_types, schema_text }
}

pub struct Case {
    pub vars: Vec<(usize, VarDef)>,
    pub provided: J,
    pub perturbations: Vec<&'static str>,
}

pub fn gen_case(b: &Batch, rng: &mut Rng) -> Case {
    let n_vars = rng.range(1, 3);
    let mut vars = Vec::new();
    let mut provided = Vec::new();
    for k in 0..n_vars {
        let ai = rng.below(b.arg_types.len());
        let ty = b.arg_types[ai].clone();
        let default = if rng.chance(1, 3) { Some(gen_lit(&b.world, &ty, rng, 0)) } else { None };
        let name = format!("v{k}");
        // mostly provided; sometimes absent so that defaults / absence are exercised
        if !rng.chance(1, 5) {
            provided.push((name.clone(), gen_value(&b.world, &ty, rng, false, 0)));
        }
        vars.push((ai, VarDef { name, ty, default }));
    }
    let mut provided = J::Obj(provided);
    let n_pert = match rng.below(20) {
        0..=5 => 0,
        6..=14 => 1,
        _ => 2,
    };
    let mut perturbations = Vec::new();
    for _ in 0..n_pert {
        if let Some(p) = perturb(&mut provided, rng) {
            perturbations.push(p);
        }
    }
    Case { vars, provided, perturbations }
}

pub fn operation_text(vars: &[(usize, VarDef)]) -> String {
    let defs: Vec<String> = vars
        .iter()
        .map(|(_, v)| {
            format!(
                "${}: {}{}",
                v.name,
                v.ty.text(),
                v.default.as_ref().map(|d| format!(" = {}", d.to_graphql())).unwrap_or_default()
            )
        })
        .collect();
    let uses: Vec<String> = vars.iter().enumerate().map(|(k, (ai, v))| format!("u{k}: q{ai}(x: ${})", v.name)).collect();
    format!("query Q({}) {{ {} }}\n", defs.join(", "), uses.join(" "))
}

fn to_bytes_value(j: &J) -> BV {
    match j {
        J::Null => BV::Null,
        J::Bool(b) => BV::Bool(*b),
        J::Int(i) => {
            if let Ok(x) = i64::try_from(*i) {
                BV::Number(x.into())
            } else if let Ok(x) = u64::try_from(*i) {
                BV::Number(x.into())
            } else {
                BV::Null
            }
        }
        J::Float(f) => serde_json::Number::from_f64(*f).map(BV::Number).unwrap_or(BV::Null),
        J::Str(s) => BV::String(s.as_str().into()),
        J::List(l) => BV::Array(l.iter().map(to_bytes_value).collect()),
        J::Obj(m) => BV::Object(m.iter().map(|(k, v)| (k.as_str().into(), to_bytes_value(v))).collect()),
    }
}

fn from_bytes_value(v: &BV) -> J {
    match v {
        BV::Null => J::Null,
        BV::Bool(b) => J::Bool(*b),
        BV::Number(n) => {
            if let Some(i) = n.as_i64() {
                J::Int(i as i128)
            } else if let Some(u) = n.as_u64() {
                J::Int(u as i128)
            } else {
                J::Float(n.as_f64().unwrap_or(f64::NAN))
            }
        }
        BV::String(s) => J::Str(s.as_str().to_string()),
        BV::Array(a) => J::List(a.iter().map(from_bytes_value).collect()),
        BV::Object(m) => J::Obj(m.iter().map(|(k, v)| (k.as_str().to_string(), from_bytes_value(v))).collect()),
    }
}

fn world_to_json(w: &World) -> Value {
    let mut m = serde_json::Map::new();
    for (k, d) in &w.types {
        m.insert(
            k.clone(),
            match d {
                Def::Builtin => json!("builtin"),
                Def::CustomScalar => json!("scalar"),
                Def::Enum(v) => json!({"enum": v}),
                Def::Input(f) => json!({"input": f.iter().map(|f| json!({"name": f.name, "ty": f.ty.text(), "has_default": f.default.is_some(), "default": f.default.as_ref().map(|d| d.to_tagged())})).collect::<Vec<_>>()}),
            },
        );
    }
    Value::Object(m)
}

fn world_from_json(v: &Value) -> Option<World> {
    let mut w = World::default();
    for (k, d) in v.as_object()? {
        let def = if d == "builtin" {
            Def::Builtin
        } else if d == "scalar" {
            Def::CustomScalar
        } else if let Some(e) = d.get("enum") {
            Def::Enum(e.as_array()?.iter().filter_map(|x| x.as_str().map(|s| s.to_string())).collect())
        } else {
            let mut fields = Vec::new();
            for f in d.get("input")?.as_array()? {
                let has_default = f.get("has_default")?.as_bool()?;
                fields.push(InField {
                    name: f.get("name")?.as_str()?.to_string(),
                    ty: parse_ty(f.get("ty")?.as_str()?)?,
                    default: if has_default { Some(Lit::from_tagged(f.get("default")?)?) } else { None },
                });
            }
            Def::Input(fields)
        };
        w.types.insert(k.clone(), def);
    }
    Some(w)
}

fn case_json(b: &Batch, c: &Case) -> Value {
    json!({
        "world": world_to_json(&b.world),
        "arg_types": b.arg_types.iter().map(|t| t.text()).collect::<Vec<_>>(),
        "vars": c.vars.iter().map(|(ai, v)| json!({"arg": ai, "name": v.name, "ty": v.ty.text(), "has_default": v.default.is_some(), "default": v.default.as_ref().map(|d| d.to_tagged())})).collect::<Vec<_>>(),
        "provided": c.provided.to_serde(),
        "perturbations": c.perturbations,
        "schema": b.schema_text,
        "operation": operation_text(&c.vars),
    })
}

/// The innermost position class of a path (`var`, `item`, `field`): signatures must not depend
/// on how deep a value happens to be nested.
fn site(path: &str) -> &str {
    path.rsplit('/').next().unwrap_or(path)
}

fn coarse_kind(kind: &str) -> String {
    // "expected list got integer" -> "expected list got scalar"
    let mut out = Vec::new();
    for w in kind.split(' ') {
        out.push(match w {
            "integer" | "float" | "string" | "boolean" => "scalar",
            other => other,
        });
    }
    out.join(" ")
}

fn first_words(s: &str, n: usize) -> String {
    s.split_whitespace().take(n).collect::<Vec<_>>().join(" ")
}

pub fn check_case(ctx: &mut Ctx, b: &Batch, schema: &Valid<Schema>, c: &Case) {
    ctx.eval();
    let op_text = operation_text(&c.vars);
    let mut reference = RefCoerce::new(&b.world);
    let defs: Vec<VarDef> = c.vars.iter().map(|(_, v)| v.clone()).collect();
    let expected = reference.coerce_variables(&defs, &c.provided);
    let trace = reference.trace;
    let provided_b = match to_bytes_value(&c.provided) {
        BV::Object(m) => m,
        _ => return,
    };
    let r = rt::catch(|| {
        let doc = match ExecutableDocument::parse_and_validate(schema, op_text.clone(), "op.graphql") {
            Ok(d) => d,
            Err(e) => return Err(e.errors.to_string()),
        };
        let op = doc.operations.get(None).map_err(|e| e.message().to_string())?;
        Ok(match apollo_compiler::request::coerce_variable_values(schema, op, &provided_b) {
            Ok(m) => Ok(from_bytes_value(&BV::Object(m.into_inner()))),
            Err(e) => Err(e.message().to_string()),
        })
    });
    let got = match r {
        Err(p) => {
            ctx.violation(p.signature("request::coerce_variable_values"), format!("panic: {}", p.message), case_json(b, c));
            return;
        }
        Ok(Err(invalid)) => {
            // generator bug or a validation disagreement (C17's subject): visible, never a verdict here
            ctx.inconclusive(&format!("generated operation did not validate: {}", clip(&invalid, 300)), case_json(b, c));
            return;
        }
        Ok(Ok(g)) => g,
    };
    if let Some(band) = trace.dont_care {
        ctx.count("dont_care_not_judged", 1);
        ctx.class("dont_care_band", band);
        return;
    }
    ctx.count("judged", 1);
    for f in &trace.features {
        ctx.class("feature", f);
    }
    for p in &c.perturbations {
        ctx.class("perturbation", p);
    }
    ctx.class("perturbation_count", &c.perturbations.len().to_string());
    for (_, v) in &c.vars {
        ctx.class("list_depth", &v.ty.list_depth().to_string());
    }
    if !trace.features.is_empty() || expected.is_err() {
        ctx.nontrivial(&format!("{}|{}|{:?}", b.schema_text, op_text, c.provided));
    }
    match (&expected, &got) {
        (Ok(exp), Ok(g)) => {
            ctx.class("verdict", "accept");
            let e = J::Obj(exp.clone());
            if let Some((path, kind)) = json_diff(&e, g, "result") {
                let feats: Vec<&str> = trace.features.iter().copied().collect();
                ctx.violation(
                    format!("coerced-value-differs|{}|{}", site(&path), coarse_kind(&kind)),
                    format!(
                        "coerce_variable_values succeeded with {} but CoerceVariableValues gives {} (reference branches: {})",
                        g.to_serde(),
                        e.to_serde(),
                        feats.join(",")
                    ),
                    case_json(b, c),
                );
            }
        }
        (Err(rej), Err(_)) => {
            ctx.class("verdict", "reject");
            ctx.class("reject_rule", rej.rule);
        }
        (Err(rej), Ok(g)) => {
            ctx.class("reject_rule", rej.rule);
            ctx.violation(
                format!("apollo-accepts/oracle-rejects|{}|{}", rej.rule, site(&rej.at)),
                format!("coerce_variable_values succeeded with {} but the specification rejects: {} at {}", g.to_serde(), rej.rule, rej.at),
                case_json(b, c),
            );
        }
        (Ok(exp), Err(msg)) => {
            let feats: Vec<&str> = trace.features.iter().copied().collect();
            ctx.violation(
                format!("apollo-rejects/oracle-accepts|{}", rt::mask_message(&first_words(msg, 4))),
                format!("coerce_variable_values failed with `{}` but CoerceVariableValues succeeds with {} (reference branches: {})", clip(msg, 200), J::Obj(exp.clone()).to_serde(), feats.join(",")),
                case_json(b, c),
            );
        }
    }
}

pub fn run(ctx: &mut Ctx) {
    let per_batch = if ctx.quick() { 400 } else { 2000 };
    let mut batch_n = 0u64;
    while !ctx.time_up() {
        batch_n += 1;
        let mut rng = ctx.sub_rng("c28-batch", batch_n);
        let b = gen_batch(&mut rng);
        let schema = match rt::catch(|| Schema::parse_and_validate(b.schema_text.clone(), "schema.graphql")) {
            Ok(Ok(s)) => s,
            Ok(Err(e)) => {
                ctx.inconclusive(&format!("generated schema did not validate: {}", clip(&e.errors.to_string(), 300)), json!({"schema": b.schema_text}));
                continue;
            }
            Err(p) => {
                ctx.inconclusive(&format!("schema validation panicked: {}", p.message), json!({"schema": b.schema_text}));
                continue;
            }
        };
        ctx.count("schemas", 1);
        for k in 0..per_batch {
            let mut rng = ctx.sub_rng("c28-case", batch_n * 100_000 + k);
            let c = gen_case(&b, &mut rng);
            check_case(ctx, &b, &schema, &c);
            if k % 64 == 0 {
                ctx.sample(|| json!({"operation": operation_text(&c.vars).trim(), "variables": c.provided.to_serde(), "perturbations": c.perturbations}));
                if ctx.time_up() {
                    break;
                }
            }
        }
    }
}

pub fn replay(ctx: &mut Ctx, case: &Value) {
    let Some(world) = case.get("world").and_then(world_from_json) else { return };
    let Some(arg_types) = case
        .get("arg_types")
        .and_then(|a| a.as_array())
        .and_then(|a| a.iter().map(|t| parse_ty(t.as_str()?)).collect::<Option<Vec<_>>>())
    else {
        return;
    };
    let schema_text = schema_text(&world, &arg_types);
    let b = Batch { world, arg_types, schema_text };
    let mut vars = Vec::new();
    for v in case.get("vars").and_then(|v| v.as_array()).into_iter().flatten() {
        let (Some(ai), Some(name), Some(ty)) = (
            v.get("arg").and_then(|x| x.as_u64()),
            v.get("name").and_then(|x| x.as_str()),
            v.get("ty").and_then(|x| x.as_str()).and_then(parse_ty),
        ) else {
            return;
        };
        let default = if v.get("has_default").and_then(|x| x.as_bool()).unwrap_or(false) {
            v.get("default").and_then(Lit::from_tagged)
        } else {
            None
        };
        vars.push((ai as usize, VarDef { name: name.to_string(), ty, default }));
    }
    let provided = case.get("provided").map(J::from_serde).unwrap_or(J::Obj(vec![]));
    let Ok(Ok(schema)) = rt::catch(|| Schema::parse_and_validate(b.schema_text.clone(), "schema.graphql")) else {
        return;
    };
    let c = Case { vars, provided, perturbations: Vec::new() };
    check_case(ctx, &b, &schema, &c);
}
