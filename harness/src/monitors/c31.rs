//! C31 — File ids are unique and shared state is thread-safe.
//!
//! Phases (in this order; the cold-start phase must be the first thing the process does):
//!  (e) cold start: all threads, released by a barrier, use the lazily initialised statics
//!      (`SchemaBuilder::built_in`, `MetaFieldDefinitions::get`, `BuiltInScalars::ALL`, the
//!      per-file ariadne `OnceLock`) for the first time simultaneously; every thread's digest must
//!      equal the digest computed sequentially afterwards.
//!  (a) `FileId::new()` from 2-16 threads released by a barrier: per-thread logs, offline sort +
//!      adjacent compare: pairwise distinct, never 0 / BUILT_IN (1) / NONE (2), never bit 63.
//!  (b) forced wrap through the `verif-hooks` counter setter: ids handed out before the wrap are
//!      pairwise distinct; every id is >= 3 and has no tag bit. Duplicates across or after the wrap
//!      are allowed by the property ("pairwise distinct until the 63-bit counter wraps").
//!  (c) pack/unpack through `Name::with_location` for ids over the whole 63-bit range, both tags.
//!  (d) N threads parse + validate + introspect against ONE shared `Valid<Schema>`; each thread's
//!      digest per input equals the sequential digest.
//!
//! Monitor state is per thread (logs returned through `join`) and judged after the join.

use crate::monitors::c30;
use crate::prng::{fnv64, Rng};
use crate::rt::{self, clip, Ctx};
use apollo_compiler::parser::{FileId, SourceFile};
use apollo_compiler::response::JsonMap;
use apollo_compiler::validation::Valid;
use apollo_compiler::{introspection, ExecutableDocument, Schema};
use serde_json::{json, Value};
use std::sync::{Arc, Barrier};

const TAG_BIT: u64 = 1 << 63;

// ---------------------------------------------------------------------------------------------
// (a), (b): id allocation
// ---------------------------------------------------------------------------------------------

#[derive(Clone, Copy, Debug)]
pub struct IdCase {
    pub threads: usize,
    pub per_thread: usize,
    /// `Some(k)`: set the counter to 2^63 - k before releasing the threads
    pub wrap_k: Option<u64>,
}

impl IdCase {
    pub fn to_json(&self) -> Value {
        json!({"kind": "ids", "threads": self.threads, "per_thread": self.per_thread, "wrap_k": self.wrap_k})
    }
    pub fn from_json(v: &Value) -> Option<IdCase> {
        Some(IdCase {
            threads: v.get("threads")?.as_u64()? as usize,
            per_thread: v.get("per_thread")?.as_u64()? as usize,
            wrap_k: v.get("wrap_k").and_then(|k| k.as_u64()),
        })
    }
}

/// Allocate ids concurrently. Returns the per-thread logs, or the panic raised by `FileId::new`.
fn allocate(c: &IdCase) -> Result<Vec<Vec<u64>>, rt::PanicReport> {
    let barrier = Barrier::new(c.threads);
    if let Some(k) = c.wrap_k {
        FileId::__verif_set_next(TAG_BIT - k);
    }
    let outs: Vec<Result<Vec<u64>, rt::PanicReport>> = std::thread::scope(|s| {
        let hs: Vec<_> = (0..c.threads)
            .map(|_| {
                let barrier = &barrier;
                let n = c.per_thread;
                s.spawn(move || {
                    let mut log = Vec::with_capacity(n);
                    barrier.wait();
                    let r = rt::catch(|| {
                        for _ in 0..n {
                            log.push(FileId::new().__verif_raw());
                        }
                    });
                    r.map(|_| log)
                })
            })
            .collect();
        hs.into_iter().map(|h| h.join().expect("harness: id thread")).collect()
    });
    outs.into_iter().collect()
}

#[derive(Default, Debug)]
struct IdVerdict {
    fail: Option<(&'static str, u64, u64)>,
    ids: u64,
    pre_wrap: u64,
    post_wrap: u64,
    /// which thread obtained the i-th smallest id (small cases only): the observed interleaving
    order: String,
}

fn judge_ids(c: &IdCase, logs: &[Vec<u64>]) -> IdVerdict {
    let mut v = IdVerdict::default();
    let mut all: Vec<(u64, u32)> = Vec::with_capacity(logs.iter().map(|l| l.len()).sum());
    for (t, l) in logs.iter().enumerate() {
        for &id in l {
            all.push((id, t as u32));
        }
    }
    v.ids = all.len() as u64;
    for &(id, _) in &all {
        if id & TAG_BIT != 0 {
            v.fail = Some(("tag_bit_set", 0, id));
            return v;
        }
        if id < 3 {
            v.fail = Some(("reserved_id", 3, id));
            return v;
        }
    }
    all.sort_unstable();
    if all.len() <= 64 {
        v.order = all.iter().map(|(_, t)| char::from_digit(*t % 36, 36).unwrap_or('?')).collect();
    }
    match c.wrap_k {
        None => {
            for w in all.windows(2) {
                if w[0].0 == w[1].0 {
                    v.fail = Some(("duplicate_id", w[0].0, w[1].0));
                    return v;
                }
            }
            v.pre_wrap = v.ids;
        }
        Some(k) => {
            // ids in [2^63-k, 2^63) were handed out before the wrap
            let lo = TAG_BIT - k;
            let mut prev = None;
            for &(id, _) in &all {
                if id >= lo {
                    v.pre_wrap += 1;
                    if prev == Some(id) {
                        v.fail = Some(("pre_wrap_duplicate_id", id, id));
                        return v;
                    }
                    prev = Some(id);
                } else {
                    v.post_wrap += 1;
                }
            }
        }
    }
    v
}

/// Judge one allocation case. `restore_to`: value the counter is set back to after a wrap case so
/// that ids handed out later in this process stay above everything handed out before.
pub fn check_ids(ctx: &mut Ctx, c: &IdCase, restore_to: u64) -> IdVerdictSummary {
    ctx.eval();
    if ctx.mode != "miri" {
        ctx.inflight("C31", c.to_json().to_string().as_bytes());
    }
    let r = allocate(c);
    if c.wrap_k.is_some() {
        FileId::__verif_set_next(restore_to);
    }
    let phase = if c.wrap_k.is_some() { "wrap" } else { "ids" };
    match r {
        Err(p) => {
            ctx.violation(
                format!("c31|{phase}|{}", p.signature("FileId::new")),
                format!("FileId::new panicked: {} at {}:{}", p.message, p.file, p.line),
                c.to_json(),
            );
            IdVerdictSummary::default()
        }
        Ok(logs) => {
            let v = judge_ids(c, &logs);
            ctx.count(if c.wrap_k.is_some() { "wrap_cases" } else { "id_rounds" }, 1);
            ctx.count("ids_allocated", v.ids);
            ctx.count("ids_pre_wrap_compared", v.pre_wrap);
            ctx.count("ids_post_wrap_checked", v.post_wrap);
            ctx.count_max("id_threads", c.threads as u64);
            ctx.class("phase", phase);
            ctx.class("id_threads", &c.threads.to_string());
            if let Some(k) = c.wrap_k {
                ctx.class("wrap_k", &k.to_string());
                if v.post_wrap > 0 && v.pre_wrap > 0 {
                    ctx.nontrivial(&format!("wrap|{}|{}|{}", k, c.threads, c.per_thread));
                }
            } else {
                ctx.nontrivial(&format!("ids|{}|{}|{}", c.threads, c.per_thread, logs.first().and_then(|l| l.first()).copied().unwrap_or(0)));
            }
            if let Some((inv, want, got)) = v.fail {
                ctx.violation(
                    format!("c31|{phase}|{inv}"),
                    format!(
                        "{} threads x {} FileId::new() calls{}: `{}` (expected {}, observed {})",
                        c.threads,
                        c.per_thread,
                        c.wrap_k.map(|k| format!(" with the counter preset to 2^63-{k}")).unwrap_or_default(),
                        inv,
                        want,
                        got
                    ),
                    c.to_json(),
                );
            }
            IdVerdictSummary { order: v.order }
        }
    }
}

#[derive(Default)]
pub struct IdVerdictSummary {
    pub order: String,
}

// ---------------------------------------------------------------------------------------------
// (c): pack / unpack
// ---------------------------------------------------------------------------------------------

pub fn check_pack(ctx: &mut Ctx, is_static: bool, t: usize, file: u64, start: u32) {
    ctx.eval();
    let case = json!({"kind": "pack", "static": is_static, "text": t, "file_id": file, "start": start});
    match rt::catch(|| c30::pack_roundtrip(is_static, t, file, start)) {
        Ok(Ok(())) => {
            ctx.count("pack_roundtrips", 1);
        }
        Ok(Err((inv, want, got))) => {
            ctx.violation(
                format!("c31|pack|{}|{}", if is_static { "static" } else { "arc" }, inv),
                format!(
                    "Name::with_location(file id {file}, start {start}) then location(): `{inv}` (expected {want}, observed {got}) for a {} name",
                    if is_static { "static" } else { "heap" }
                ),
                case,
            );
        }
        Err(p) => {
            ctx.violation(
                format!("c31|pack|{}", p.signature("with_location")),
                format!("panic in the pack/unpack round trip: {} at {}:{}", p.message, p.file, p.line),
                case,
            );
        }
    }
}

fn pack_sweep(ctx: &mut Ctx) {
    ctx.class("phase", "pack");
    // a debug assertion inside the packing code aborts the process: attribute it to this sweep
    ctx.inflight("C31", json!({"kind": "pack_sweep"}).to_string().as_bytes());
    // every single-bit id and its neighbours, every edge id, both tags
    let mut ids: Vec<u64> = c30::EDGE_FILE_IDS.to_vec();
    for b in 0..63 {
        let x = 1u64 << b;
        ids.extend([x.saturating_sub(1), x, x + 1]);
    }
    for id in ids {
        let id = id.clamp(1, c30::MAX_ID);
        for is_static in [false, true] {
            for start in [0u32, 1, u32::MAX] {
                check_pack(ctx, is_static, (id % 3) as usize, id, start);
            }
        }
    }
    ctx.note("pack_exhaustive", json!("all ids 2^b-1, 2^b, 2^b+1 for b in 0..63 and the edge list, both tags, starts {0,1,u32::MAX}"));
}

/// 2048 random round trips; the batch (not each case) is recorded as in flight.
fn pack_batch(ctx: &mut Ctx, n: u64) {
    let mut rng = ctx.sub_rng("c31-pack", n);
    let ids: Vec<(bool, usize, u64, u32)> = (0..2048)
        .map(|_| {
            let id = c30::sample_file_id(&mut rng);
            let start = c30::sample_start(&mut rng);
            (rng.bool(), rng.below(c30::N_VALID), id, start)
        })
        .collect();
    ctx.inflight("C31", json!({"kind": "pack_batch", "cases": ids.iter().map(|c| json!([c.0, c.1, c.2, c.3])).collect::<Vec<_>>()}).to_string().as_bytes());
    for (st, t, id, start) in ids {
        check_pack(ctx, st, t, id, start);
    }
    ctx.class("phase", "pack");
}

// ---------------------------------------------------------------------------------------------
// (d), (e): shared schema, cold start
// ---------------------------------------------------------------------------------------------

pub const SCHEMA_A: &str = crate::monitors::c01::HOST_SCHEMA;

pub const SCHEMA_B: &str = r#"
"""Root of B"""
type Query {
  "a field"
  f(a: Int = 3, b: [String!] = ["x"]): R @deprecated(reason: "no")
  n: Node
  d: Date
}
interface Node { id: ID! }
interface R implements Node { id: ID!, r: Int }
type X implements R & Node { id: ID!, r: Int, x(in: Inp = {a: 1}): Color }
enum Color { RED @deprecated GREEN }
input Inp { a: Int = 2, b: Inp }
scalar Date @specifiedBy(url: "https://example.com/date")
"#;

const FIELDS_A: &[&str] = &[
    "a", "b", "b(x: 1)", "b(x: \"s\")", "c { id a }", "c { t { t { e } } }", "l { id __typename }", "i { id }",
    "i { id ... on T { a } }", "u { __typename ... on T { id } }", "u { id }", "zz", "c", "alias: a",
    "a @d(x: [1, 2])", "a @skip(if: true)", "a @include(if: $v)", "c { ...F }", "c { nope }", "b(y: 2)",
];

const FIELDS_B: &[&str] = &[
    "f { id r }", "f(a: 1) { id }", "f(b: [\"q\"]) { ... on X { x } }", "n { id }", "n { ... on X { x(in: {a: 3}) } }",
    "d", "f", "n { zz }", "f(a: \"s\") { id }", "n { ...F }",
];

const INTROSPECTION: &[&str] = &[
    "__typename",
    "__schema { queryType { name } mutationType { name } subscriptionType { name } }",
    "__schema { types { name kind description } }",
    "__schema { types { name fields(includeDeprecated: true) { name isDeprecated deprecationReason args { name type { name kind } defaultValue } } } }",
    "__schema { directives { name locations isRepeatable args { name defaultValue } } }",
    "__type(name: \"T\") { name kind interfaces { name } fields { name type { kind name ofType { kind name } } } }",
    "__type(name: \"X\") { name interfaces { name } fields { name args { name defaultValue } } }",
    "__type(name: \"E\") { enumValues { name isDeprecated } }",
    "__type(name: \"Color\") { enumValues(includeDeprecated: true) { name isDeprecated } }",
    "__type(name: \"In\") { inputFields { name type { name kind } defaultValue } }",
    "__type(name: \"Inp\") { inputFields { name defaultValue } }",
    "__type(name: \"U\") { possibleTypes { name } }",
    "__type(name: \"Node\") { possibleTypes { name } }",
    "__type(name: \"Date\") { specifiedByURL kind }",
    "__type(name: \"Nope\") { name }",
    "__type { name }",
    "__schema { types { fields { type { ofType { ofType { ofType { name } } } } } } }",
];

/// A small executable document for schema A or B: mostly valid, sometimes with a validation or
/// syntax error, with and without introspection fields, fragments and variables.
pub fn gen_doc(rng: &mut Rng, schema_b: bool) -> String {
    let fields = if schema_b { FIELDS_B } else { FIELDS_A };
    let frag_type = if schema_b { "X" } else { "T" };
    let mut out = String::new();
    let nops = if rng.chance(1, 6) { 2 } else { 1 };
    let mut uses_v = false;
    let mut bodies = Vec::new();
    for _ in 0..nops {
        let mut body = String::new();
        for _ in 0..rng.range(1, 5) {
            let f = if rng.chance(2, 5) { rng.pick_str(INTROSPECTION) } else { rng.pick_str(fields) };
            uses_v |= f.contains("$v");
            body.push_str(f);
            body.push(' ');
        }
        bodies.push(body);
    }
    for (i, body) in bodies.iter().enumerate() {
        let vars = if uses_v || rng.chance(1, 8) { "($v: Boolean = true)" } else { "" };
        if nops == 1 && vars.is_empty() && rng.bool() {
            out.push_str(&format!("{{ {body}}}\n"));
        } else {
            out.push_str(&format!("query Q{i}{vars} {{ {body}}}\n"));
        }
    }
    if out.contains("...F") || rng.chance(1, 10) {
        out.push_str(&format!("fragment F on {frag_type} {{ id __typename }}\n"));
    }
    match rng.below(16) {
        0 => out.push('}'),
        1 => out.push_str("{"),
        2 => out.push_str("query { \"str\" }"),
        _ => {}
    }
    out
}

#[derive(Clone, Copy, Debug, PartialEq, Eq, Default)]
pub struct Digest {
    pub document: u64,
    pub diagnostics: u64,
    pub introspection: u64,
}

impl Digest {
    fn first_difference(&self, o: &Digest) -> &'static str {
        if self.document != o.document {
            "document"
        } else if self.diagnostics != o.diagnostics {
            "diagnostics"
        } else {
            "introspection"
        }
    }
}

/// Parse + validate one executable document against the shared schema, run schema introspection
/// for every query operation; digest the serialized document, the diagnostics as displayed and
/// the introspection responses as JSON. File ids never enter the digest.
pub fn digest_doc(schema: &Valid<Schema>, text: &str) -> Digest {
    let mut d = Digest::default();
    match ExecutableDocument::parse_and_validate(schema, text, "doc.graphql") {
        Ok(doc) => {
            d.document = fnv64(doc.to_string().as_bytes());
            let imap = schema.implementers_map();
            let mut acc = String::new();
            for op in doc.operations.iter() {
                if !op.is_query() {
                    continue;
                }
                let vars = match apollo_compiler::request::coerce_variable_values(schema, op, &JsonMap::default()) {
                    Ok(v) => v,
                    Err(e) => {
                        acc.push_str(&format!("coerce-error:{}\n", e.message()));
                        continue;
                    }
                };
                if let Err(e) = introspection::check_max_depth(&doc, op) {
                    acc.push_str(&format!("depth-error:{}\n", e.message()));
                    continue;
                }
                match introspection::partial_execute(schema, &imap, &doc, op, &vars) {
                    Ok(resp) => acc.push_str(&serde_json::to_string(&resp).unwrap_or_else(|e| format!("json-error:{e}"))),
                    Err(e) => acc.push_str(&format!("request-error:{}\n", e.message())),
                }
                acc.push('\n');
            }
            d.introspection = fnv64(acc.as_bytes());
        }
        Err(e) => {
            d.document = fnv64(e.partial.to_string().as_bytes());
            d.diagnostics = fnv64(e.errors.to_string().as_bytes());
        }
    }
    d
}

#[derive(Clone, Debug)]
pub struct SharedCase {
    pub schema_b: bool,
    pub threads: usize,
    pub docs: Vec<String>,
}

impl SharedCase {
    pub fn to_json(&self) -> Value {
        json!({"kind": "shared", "schema_b": self.schema_b, "threads": self.threads, "docs": self.docs})
    }
    pub fn from_json(v: &Value) -> Option<SharedCase> {
        Some(SharedCase {
            schema_b: v.get("schema_b")?.as_bool()?,
            threads: v.get("threads")?.as_u64()? as usize,
            docs: v.get("docs")?.as_array()?.iter().filter_map(|d| d.as_str().map(|s| s.to_string())).collect(),
        })
    }
}

pub fn check_shared(ctx: &mut Ctx, c: &SharedCase) {
    ctx.eval();
    ctx.inflight("C31", c.to_json().to_string().as_bytes());
    let text = if c.schema_b { SCHEMA_B } else { SCHEMA_A };
    let r = rt::catch(|| {
        let schema = Schema::parse_and_validate(text, "shared.graphql").expect("harness: shared schema is valid");
        // sequential reference, computed twice: only inputs with a stable sequential digest are compared
        let seq1: Vec<Digest> = c.docs.iter().map(|d| digest_doc(&schema, d)).collect();
        let seq2: Vec<Digest> = c.docs.iter().map(|d| digest_doc(&schema, d)).collect();
        let barrier = Barrier::new(c.threads);
        let per_thread: Vec<Result<Vec<Digest>, rt::PanicReport>> = std::thread::scope(|s| {
            let hs: Vec<_> = (0..c.threads)
                .map(|t| {
                    let (schema, barrier, docs) = (&schema, &barrier, &c.docs);
                    s.spawn(move || {
                        barrier.wait();
                        rt::catch(|| {
                            // every thread walks the inputs from a different starting point
                            let n = docs.len();
                            let mut out = vec![Digest::default(); n];
                            for i in 0..n {
                                let j = (i + t * 7) % n;
                                out[j] = digest_doc(schema, &docs[j]);
                            }
                            out
                        })
                    })
                })
                .collect();
            hs.into_iter().map(|h| h.join().expect("harness: shared-schema thread")).collect()
        });
        // a thread digest that differs is first re-checked against more sequential executions
        let mut mismatches = Vec::new();
        let mut unstable = 0u64;
        let mut compared = 0u64;
        let mut panics = Vec::new();
        for (t, r) in per_thread.into_iter().enumerate() {
            match r {
                Err(p) => panics.push(p),
                Ok(ds) => {
                    for (j, d) in ds.iter().enumerate() {
                        if seq1[j] != seq2[j] {
                            unstable += 1;
                            continue;
                        }
                        compared += 1;
                        if *d != seq1[j] {
                            let again = (0..20).any(|_| digest_doc(&schema, &c.docs[j]) == *d);
                            if again {
                                unstable += 1;
                            } else {
                                mismatches.push((t, j, seq1[j].first_difference(d)));
                            }
                        }
                    }
                }
            }
        }
        let with_diag = seq1.iter().filter(|d| d.diagnostics != 0).count() as u64;
        let with_intro = seq1.iter().filter(|d| d.introspection != fnv64(b"") && d.introspection != 0).count() as u64;
        (mismatches, unstable, compared, panics, with_diag, with_intro)
    });
    match r {
        Err(p) => {
            // a panic on the sequential path is C21's subject, not a concurrency finding
            ctx.count("shared_sequential_panics_skipped", 1);
            ctx.note("shared_sequential_panic", json!(format!("{} at {}:{}", p.message, p.file, p.line)));
        }
        Ok((mismatches, unstable, compared, panics, with_diag, with_intro)) => {
            ctx.count("shared_rounds", 1);
            ctx.count("shared_thread_digests_compared", compared);
            ctx.count("shared_inputs_with_diagnostics", with_diag);
            ctx.count("shared_inputs_with_introspection", with_intro);
            ctx.count("shared_sequentially_unstable_skipped", unstable);
            ctx.count("shared_threads_spawned", c.threads as u64);
            ctx.count_max("shared_threads", c.threads as u64);
            ctx.class("phase", "shared_schema");
            ctx.class("shared_threads", &c.threads.to_string());
            if with_diag > 0 && with_intro > 0 {
                ctx.nontrivial_hash(fnv64(c.docs.join("\u{0}").as_bytes()) ^ c.threads as u64);
            }
            for p in panics {
                ctx.violation(
                    format!("c31|shared_schema|{}", p.signature("thread")),
                    format!("a thread panicked while using the shared schema although the sequential run of the same inputs did not: {} at {}:{}", p.message, p.file, p.line),
                    c.to_json(),
                );
            }
            if let Some((t, j, part)) = mismatches.first() {
                let mut small = c.clone();
                small.docs = vec![c.docs[*j].clone()];
                ctx.violation(
                    format!("c31|shared_schema|{part}"),
                    format!(
                        "thread {t} of {}: the {part} digest for input #{j} differs from the sequential digest (and from 20 further sequential executions); {} mismatches in this round; input: {}",
                        c.threads,
                        mismatches.len(),
                        clip(&c.docs[*j], 200)
                    ),
                    json!({"kind": "shared", "schema_b": c.schema_b, "threads": c.threads, "docs": c.docs, "first_mismatch_input": j}),
                );
            }
        }
    }
}

const COLD_VALID: &str = "{ __typename __schema { queryType { name } types { name kind } } c { __typename id } l { e } }";
const COLD_INVALID: &str = "query Q($u: Int) { zz c b(x: \"s\") ...Missing }\nfragment Unused on T { id }\n";
const COLD_POSITIONS: &str = "{\n  a # é comment\n  c {\n    id\n  }\n  \"\"\"\n}\n";

fn cold_digest() -> Digest {
    let schema = Schema::parse_and_validate(SCHEMA_A, "cold.graphql").expect("harness: cold schema is valid");
    let d1 = digest_doc(&schema, COLD_VALID);
    let d2 = digest_doc(&schema, COLD_INVALID);
    let schema_b = Schema::builder().parse(SCHEMA_B, "cold_b.graphql").build().expect("harness: schema B builds");
    let sb = fnv64(schema_b.to_string().as_bytes());
    let vb = match schema_b.validate() {
        Ok(v) => fnv64(v.to_string().as_bytes()),
        Err(e) => fnv64(e.errors.to_string().as_bytes()),
    };
    Digest {
        document: d1.document ^ d2.document.rotate_left(1) ^ sb,
        diagnostics: d2.diagnostics ^ vb.rotate_left(3),
        introspection: d1.introspection,
    }
}

/// Line/column answers for every byte offset of one shared `SourceFile` (its ariadne cache is a
/// `OnceLock` initialised by whoever asks first).
fn positions(file: &SourceFile) -> u64 {
    let mut acc = String::new();
    let n = file.source_text().len();
    for off in 0..=n + 1 {
        match file.get_line_column(off) {
            Some(lc) => acc.push_str(&format!("{}:{};", lc.line, lc.column)),
            None => acc.push_str("-;"),
        }
    }
    fnv64(acc.as_bytes())
}

fn fresh_source_file(text: &str) -> Arc<SourceFile> {
    // parsing does not touch the line/column cache
    let doc = apollo_compiler::ast::Document::parse(text, "positions.graphql");
    let sources = match &doc {
        Ok(d) => d.sources.clone(),
        Err(e) => e.partial.sources.clone(),
    };
    sources.values().next().expect("harness: one source file").clone()
}

/// The cold-start race: must be the first use of apollo-compiler in this process.
pub fn cold_start(ctx: &mut Ctx, threads: usize) {
    ctx.eval();
    ctx.inflight("C31", json!({"kind": "cold", "threads": threads}).to_string().as_bytes());
    let barrier = Barrier::new(threads);
    let outs: Vec<Result<Digest, rt::PanicReport>> = std::thread::scope(|s| {
        let hs: Vec<_> = (0..threads)
            .map(|_| {
                let barrier = &barrier;
                s.spawn(move || {
                    barrier.wait();
                    rt::catch(cold_digest)
                })
            })
            .collect();
        hs.into_iter().map(|h| h.join().expect("harness: cold-start thread")).collect()
    });
    let case = json!({"kind": "cold", "threads": threads});
    let seq = rt::catch(cold_digest);
    let seq2 = rt::catch(cold_digest);
    ctx.count("cold_start_processes", 1);
    ctx.count("cold_start_threads", threads as u64);
    ctx.class("phase", "cold_start");
    let (Ok(seq), Ok(seq2)) = (seq, seq2) else {
        ctx.inconclusive("the sequential cold-start workload panicked (not a concurrency finding)", case);
        return;
    };
    if seq != seq2 {
        ctx.inconclusive("the sequential cold-start digest is not stable (not a concurrency finding)", case);
        return;
    }
    ctx.nontrivial(&format!("cold|{threads}|{}|{}", ctx.seed, ctx.shard));
    for (t, o) in outs.iter().enumerate() {
        match o {
            Err(p) => {
                ctx.violation(
                    format!("c31|cold_start|{}", p.signature("thread")),
                    format!("thread {t} panicked during the simultaneous first use of the lazily initialised statics: {} at {}:{}", p.message, p.file, p.line),
                    case.clone(),
                );
            }
            Ok(d) if *d != seq => {
                ctx.violation(
                    format!("c31|cold_start|{}", seq.first_difference(d)),
                    format!("thread {t} of {threads}: digest of the first (racing) use differs from the sequential digest in `{}`", seq.first_difference(d)),
                    case.clone(),
                );
            }
            Ok(_) => {}
        }
    }
    // per-file line/column cache: fresh files, all threads ask first at the same time
    for round in 0..8 {
        let text = format!("{}{}", COLD_POSITIONS, "# x\n".repeat(round));
        let file = fresh_source_file(&text);
        let barrier = Barrier::new(threads);
        let outs: Vec<Result<u64, rt::PanicReport>> = std::thread::scope(|s| {
            let hs: Vec<_> = (0..threads)
                .map(|_| {
                    let (barrier, file) = (&barrier, &file);
                    s.spawn(move || {
                        barrier.wait();
                        rt::catch(|| positions(file))
                    })
                })
                .collect();
            hs.into_iter().map(|h| h.join().expect("harness: position thread")).collect()
        });
        let want = positions(&fresh_source_file(&text));
        ctx.count("cold_source_files_raced", 1);
        for o in outs {
            match o {
                Ok(d) if d == want => {}
                Ok(_) => ctx.violation(
                    "c31|cold_start|line_column",
                    "line/column answers from the racing first use of a SourceFile differ from those of a fresh file asked sequentially",
                    json!({"kind": "cold", "threads": threads, "text": text}),
                ),
                Err(p) => ctx.violation(
                    format!("c31|cold_start|{}", p.signature("get_line_column")),
                    format!("panic in get_line_column during the racing first use: {} at {}:{}", p.message, p.file, p.line),
                    json!({"kind": "cold", "threads": threads, "text": text}),
                ),
            }
        }
    }
}

// ---------------------------------------------------------------------------------------------
// Driver
// ---------------------------------------------------------------------------------------------

const THREADS: &[usize] = &[2, 3, 4, 8, 16];

pub fn run(ctx: &mut Ctx) {
    if ctx.mode == "miri" {
        run_miri(ctx);
        return;
    }
    // (e) FIRST: nothing in this process has touched the statics yet.
    let cold_threads = THREADS[(ctx.shard as usize + ctx.seed as usize) % THREADS.len()].max(4);
    cold_start(ctx, cold_threads);
    if ctx.mode == "cold" {
        return;
    }
    // sanitizer builds run the same phases at a smaller scale
    let small = ctx.mode == "small";

    // (a) unique ids
    let mut round = ctx.shard as usize;
    let mut first = true;
    while first || ctx.until(0.30) {
        first = false;
        let threads = THREADS[round % THREADS.len()];
        let per_thread = if small {
            10_000
        } else if ctx.quick() {
            100_000
        } else {
            (4_000_000 / threads).min(1_000_000)
        };
        check_ids(ctx, &IdCase { threads, per_thread, wrap_k: None }, 0);
        round += 1;
        if ctx.violation_count() > 0 {
            break;
        }
    }

    // (b) forced wrap; the counter is restored above everything handed out so far after each case
    let high_water = FileId::new().__verif_raw() + 1;
    let mut n = 0u64;
    let mut sweeps = 0u64;
    'wrap: loop {
        for k in 1..=64u64 {
            n += 1;
            // rotate with the sweep so that every shard meets every k over time
            if !ctx.mine(n + sweeps) {
                continue;
            }
            let mut rng = ctx.sub_rng("c31-wrap", n);
            let threads = *rng.pick(THREADS);
            let per_thread = (k as usize + 16) / threads + rng.range(1, 8);
            check_ids(ctx, &IdCase { threads, per_thread, wrap_k: Some(k) }, high_water);
        }
        sweeps += 1;
        if !ctx.until(0.50) {
            break 'wrap;
        }
    }
    FileId::__verif_set_next(high_water);
    ctx.count("wrap_sweeps_over_k_1_to_64", sweeps);
    ctx.note("counter_restored_to", json!(high_water));

    // (c) pack / unpack
    if ctx.shard == 0 {
        pack_sweep(ctx);
    }
    let mut n = 0u64;
    let mut first = true;
    while first || ctx.until(0.58) {
        first = false;
        n += 1;
        pack_batch(ctx, n);
    }

    // (d) shared schema
    let mut n = 0u64;
    let mut first = true;
    while first || !ctx.time_up() {
        first = false;
        n += 1;
        let mut rng = ctx.sub_rng("c31-shared", n);
        let schema_b = rng.chance(1, 3);
        let ndocs = if small { 6 } else { rng.range(8, 24) };
        let c = SharedCase {
            schema_b,
            threads: *rng.pick(THREADS),
            docs: (0..ndocs).map(|_| gen_doc(&mut rng, schema_b)).collect(),
        };
        check_shared(ctx, &c);
        if n % 16 == 1 {
            ctx.sample(|| json!({"kind": "shared", "threads": c.threads, "schema_b": c.schema_b, "first_doc": clip(&c.docs[0], 200)}));
        }
    }
}

/// Tiny workload for Miri: 3 threads x 4 allocations (plain and across a forced wrap) and a few
/// hundred pack/unpack round trips. No parsing.
fn run_miri(ctx: &mut Ctx) {
    let mut orders = Vec::new();
    let s = check_ids(ctx, &IdCase { threads: 3, per_thread: 4, wrap_k: None }, 0);
    orders.push(s.order);
    let high_water = FileId::new().__verif_raw() + 1;
    for k in [1u64, 2, 5] {
        let s = check_ids(ctx, &IdCase { threads: 3, per_thread: 4, wrap_k: Some(k) }, high_water);
        orders.push(s.order);
    }
    let s = check_ids(ctx, &IdCase { threads: 3, per_thread: 4, wrap_k: None }, 0);
    orders.push(s.order);
    ctx.note("id_orders", json!(orders));
    let mut rng = ctx.sub_rng("c31-miri-pack", 0);
    for &id in c30::EDGE_FILE_IDS {
        for is_static in [false, true] {
            check_pack(ctx, is_static, (id % 3) as usize, id, 0);
        }
    }
    for _ in 0..64 {
        let id = c30::sample_file_id(&mut rng);
        let start = c30::sample_start(&mut rng);
        check_pack(ctx, rng.bool(), rng.below(c30::N_VALID), id, start);
    }
    ctx.class("phase", "pack");
}

pub fn replay(ctx: &mut Ctx, case: &Value) {
    let case = case.get("case").unwrap_or(case);
    match case.get("kind").and_then(|k| k.as_str()) {
        Some("ids") => {
            if let Some(c) = IdCase::from_json(case) {
                // a schedule is not replayable; repeat the case a number of times
                let hw = FileId::new().__verif_raw() + 1 + (1 << 40);
                for _ in 0..200 {
                    check_ids(ctx, &c, hw);
                }
            }
        }
        Some("pack") => {
            let g = |k: &str| case.get(k).and_then(|x| x.as_u64()).unwrap_or(1);
            check_pack(ctx, case.get("static").and_then(|x| x.as_bool()).unwrap_or(false), g("text") as usize, g("file_id"), g("start") as u32);
        }
        Some("shared") => {
            if let Some(c) = SharedCase::from_json(case) {
                for _ in 0..20 {
                    check_shared(ctx, &c);
                }
            }
        }
        Some("pack_sweep") => pack_sweep(ctx),
        Some("pack_batch") => {
            for c in case.get("cases").and_then(|c| c.as_array()).map(|c| c.as_slice()).unwrap_or(&[]) {
                let g = |i: usize| c.get(i).and_then(|x| x.as_u64()).unwrap_or(1);
                check_pack(ctx, c.get(0).and_then(|x| x.as_bool()).unwrap_or(false), g(1) as usize, g(2), g(3) as u32);
            }
        }
        Some("cold") => {
            let t = case.get("threads").and_then(|x| x.as_u64()).unwrap_or(8) as usize;
            cold_start(ctx, t);
        }
        _ => {}
    }
}
