//! C27 — Async execution does not depend on the schedule.
//!
//! For a request (C26's generator) and a resolver world, `execute_async` is driven by the harness's
//! instrumented single-thread executor (`execkit::run_instrumented`) under a schedule σ = (pending
//! count `k` per resolver future / list-stream item in creation order, wake order among parked
//! wakers). Refuting events:
//!  * response-differs: the response is not equal to `execute_sync`'s on the same request and world;
//!  * call-log-differs: the sequence of resolver calls `(object type, field, path)` differs;
//!  * mutation-overlap: a mutation root field's event is logged after an event of a later root field;
//!  * lost-wakeup: the root future returns `Pending` while no wake is recorded and no resolver future
//!    is parked — a logical deadlock, decided without a clock;
//!  * panic in `execute_async`.
//!
//! Signature: (clause, operation kind, class of the smallest pending-count vector that still shows
//! the clause: number of non-zero entries capped at 2, largest entry capped at 3).

use crate::monitors::c26::{for_each_request, with_replayed_request, Request};
use crate::monitors::execkit::*;
use crate::prng::{fnv64, Rng};
use crate::refmodel::executor::*;
use crate::rt::{clip, Ctx};
use serde_json::{json, Value as J};
use std::collections::HashSet;
use std::future::Future;
use std::pin::Pin;
use std::sync::{Arc, Mutex};
use std::task::{Context, Poll};

pub const EXHAUSTIVE_FUTURES: usize = 6;
pub const EXHAUSTIVE_K: u8 = 2;
pub const RANDOM_K: u8 = 5;

fn response_json(r: &Result<apollo_compiler::response::ExecutionResponse, String>) -> J {
    match r {
        Ok(resp) => serde_json::to_value(resp).unwrap_or(J::Null),
        Err(m) => json!({"request_error": m}),
    }
}

/// Which clause, if any, a run violates (first that applies).
fn judge(req: &Request, sync: &ApolloRun, sync_json: &J, run: &AsyncRun, root_order: &[String]) -> Option<(&'static str, String)> {
    if run.report.deadlock {
        return Some((
            "lost-wakeup",
            format!(
                "root future returned Pending after {} polls with no wake recorded and no resolver future parked ({} parked wakers were woken without reaching the root waker)",
                run.report.polls, run.report.wakes_not_reaching_root
            ),
        ));
    }
    let resp = run.response.as_ref()?;
    let got = response_json(resp);
    if got != *sync_json || serde_json::to_string(&got).ok() != serde_json::to_string(sync_json).ok() {
        return Some(("response-differs", format!("async response {} differs from sync response {}", clip(&got.to_string(), 300), clip(&sync_json.to_string(), 300))));
    }
    let a = calls_of(&run.events);
    let s = calls_of(&sync.events);
    if a != s {
        let i = a.iter().zip(&s).position(|(x, y)| x != y).unwrap_or(a.len().min(s.len()));
        return Some((
            "call-log-differs",
            format!(
                "resolver call #{i} differs: async {:?}, sync {:?} ({} vs {} calls)",
                a.get(i).map(|c| format!("{}.{} at {}", c.object_type, c.field, path_to_json(&c.path))),
                s.get(i).map(|c| format!("{}.{} at {}", c.object_type, c.field, path_to_json(&c.path))),
                a.len(),
                s.len()
            ),
        ));
    }
    if req.op.kind == "mutation" {
        let mut last = 0usize;
        for e in &run.events {
            if let Some(Seg::Key(k)) = e.path().first() {
                match root_order.iter().position(|x| x == k) {
                    Some(i) if i >= last => last = i,
                    _ => {
                        return Some((
                            "mutation-overlap",
                            format!("event {} is logged after an event of a later root field (root order {:?})", e.to_json(), root_order),
                        ))
                    }
                }
            }
        }
    }
    None
}

fn vector_class(ks: &[u8]) -> String {
    let nz = ks.iter().filter(|k| **k > 0).count().min(2);
    let mx = ks.iter().copied().max().unwrap_or(0).min(3);
    format!("nonzero={}{} max-k={}{}", nz, if nz == 2 { "+" } else { "" }, mx, if mx == 3 { "+" } else { "" })
}

struct Runner<'r, 'a> {
    req: &'r Request<'a>,
    world: &'r World,
    sync: ApolloRun,
    sync_json: J,
    root_order: Vec<String>,
}

impl<'r, 'a> Runner<'r, 'a> {
    fn run(&self, ks: &[u8], choices: &[usize], rng: &mut Rng) -> Result<AsyncRun, crate::rt::PanicReport> {
        run_async(
            &self.req.sc.schema,
            &self.req.ec.exec,
            self.req.op.name.as_deref(),
            self.req.root_type(),
            &self.req.coerced,
            self.world,
            ks,
            choices,
            rng,
        )
    }

    fn clause(&self, ks: &[u8], choices: &[usize], rng: &mut Rng) -> Option<(String, String)> {
        match self.run(ks, choices, rng) {
            Err(p) => Some((format!("panic:{}", p.signature("execute_async")), format!("execute_async panicked: {} at {}:{}", p.message, p.file, p.line))),
            Ok(run) => judge(self.req, &self.sync, &self.sync_json, &run, &self.root_order).map(|(c, m)| (c.to_string(), m)),
        }
    }

    /// Greedy reduction of a failing pending-count vector, keeping the same clause.
    fn minimise(&self, ks: &[u8], choices: &[usize], clause: &str, rng: &mut Rng) -> Vec<u8> {
        let mut v = ks.to_vec();
        let same = |v: &[u8], rng: &mut Rng| self.clause(v, choices, rng).map(|(c, _)| c == clause).unwrap_or(false);
        for i in 0..v.len() {
            while v[i] > 0 {
                let old = v[i];
                v[i] = 0;
                if same(&v, rng) {
                    break;
                }
                v[i] = old - 1;
                if old - 1 > 0 && same(&v, rng) {
                    continue;
                }
                v[i] = old;
                break;
            }
        }
        while v.last() == Some(&0) {
            v.pop();
        }
        v
    }
}

pub struct Stats {
    schedules: HashSet<u64>,
    floor_done: bool,
}

/// Execute one schedule (and all wake-order alternatives it opens), judge every run.
fn explore(ctx: &mut Ctx, r: &Runner, ks: &[u8], stats: &mut Stats, rng: &mut Rng, exhaustive: bool) -> usize {
    let mut choices: Vec<usize> = vec![];
    let mut runs = 0usize;
    let mut futures = 0usize;
    loop {
        runs += 1;
        ctx.eval();
        let case = |ks: &[u8], choices: &[usize]| {
            let mut c = r.req.case_json(r.world);
            c["pending_counts"] = json!(ks);
            c["wake_choices"] = json!(choices);
            c
        };
        let res = r.run(ks, &choices, rng);
        let arity: Vec<usize> = match &res {
            Ok(run) => run.report.choice_arity.clone(),
            Err(_) => vec![],
        };
        match res {
            Err(p) => {
                mark_violation_time(ctx);
                ctx.violation(
                    format!("{}|{}", p.signature("execute_async"), r.req.op.kind),
                    format!("execute_async panicked: {} at {}:{}", p.message, p.file, p.line),
                    case(ks, &choices),
                );
            }
            Ok(run) => {
                futures = run.report.futures;
                ctx.count("polls_of_root_future", run.report.polls as u64);
                ctx.count("pending_polls_observed", run.report.pending_returns as u64);
                ctx.count_max("pending_polls_in_one_run", run.report.pending_returns as u64);
                ctx.count_max("parked_wakers_at_once", run.report.max_parked as u64);
                ctx.count_max("futures_per_request", run.report.futures as u64);
                ctx.count("resolver_events_logged", run.events.len() as u64);
                if run.report.step_limit {
                    ctx.inconclusive("executor step limit reached (200000 polls)", case(ks, &choices));
                }
                if run.report.over_bound_choice {
                    ctx.count("runs_with_more_than_4_parked_wakers_sampled", 1);
                }
                let sched_sig = fnv64(format!("{:?}|{:?}", &ks[..ks.len().min(run.report.futures)], choices).as_bytes());
                if run.report.pending_returns > 0 {
                    stats.schedules.insert(sched_sig);
                    // distinct (request, world) pairs run under at least one schedule with a pending
                    // poll; the schedules themselves are counted (`schedules_with_pending_polls_executed`)
                    // and de-duplicated per worker (`distinct_schedules_with_pending_polls_in_one_shard`)
                    ctx.nontrivial_hash(r.req.hash ^ fnv64(format!("{:?}", r.world.cells).as_bytes()).rotate_left(1));
                    ctx.count("schedules_with_pending_polls_executed", 1);
                    ctx.class("schedule_class", "some-pending");
                    if !stats.floor_done && stats.schedules.len() >= 100 {
                        stats.floor_done = true;
                        ctx.class("floor", "100-distinct-schedules-with-pending-polls-in-one-shard");
                    }
                } else {
                    ctx.class("schedule_class", "all-ready");
                }
                if let Some((clause, msg)) = judge(r.req, &r.sync, &r.sync_json, &run, &r.root_order) {
                    let min = r.minimise(ks, &choices, clause, rng);
                    mark_violation_time(ctx);
                    ctx.violation(
                        format!("{}|{}|{}", clause, r.req.op.kind, vector_class(&min)),
                        format!("{msg}; smallest pending-count vector with the same clause: {:?}", min),
                        case(&min, &choices),
                    );
                }
            }
        }
        // next wake-order alternative (depth-first over the choice points this run met)
        let mut next: Option<Vec<usize>> = None;
        for i in (0..arity.len()).rev() {
            let cur = choices.get(i).copied().unwrap_or(0);
            if cur + 1 < arity[i] {
                let mut c: Vec<usize> = (0..i).map(|j| choices.get(j).copied().unwrap_or(0)).collect();
                c.push(cur + 1);
                next = Some(c);
                break;
            }
        }
        match next {
            Some(c) if runs < 256 => {
                ctx.count("wake_order_alternatives_explored", 1);
                choices = c;
            }
            Some(_) => {
                ctx.count("wake_order_enumerations_cut_at_256", 1);
                break;
            }
            None => break,
        }
    }
    let _ = exhaustive;
    futures
}

pub fn check_request_world(ctx: &mut Ctx, req: &Request, world: &World, stats: &mut Stats, rng: &mut Rng) {
    let sync = match run_sync(&req.sc.schema, &req.ec.exec, req.op.name.as_deref(), req.root_type(), &req.coerced, world) {
        Ok(s) => s,
        Err(_) => {
            ctx.count("skipped_sync_panicked", 1);
            return;
        }
    };
    let sync_json = response_json(&sync.response);
    let ex = RefExecutor::new(&req.sc.flat, &req.ec.doc, &req.coerced_j, world, true);
    let root_order: Vec<String> = ex
        .collect_fields(req.root_type(), &ex.root_sels(req.op))
        .into_iter()
        .map(|(k, _)| k)
        .collect();
    let r = Runner {
        req,
        world,
        sync,
        sync_json,
        root_order,
    };
    ctx.class("operation_kind", &req.op.kind);
    // all futures immediately ready: also tells how many futures this request creates
    let n = explore(ctx, &r, &[], stats, rng, true);
    ctx.class("futures_in_request", &n.min(12).to_string());
    if n == 0 {
        return;
    }
    if n <= EXHAUSTIVE_FUTURES {
        // EXHAUSTIVE: every k in {0,1,2} for every future
        let total = (EXHAUSTIVE_K as usize + 1).pow(n as u32);
        for x in 1..total {
            let mut ks = Vec::with_capacity(n);
            let mut y = x;
            for _ in 0..n {
                ks.push((y % (EXHAUSTIVE_K as usize + 1)) as u8);
                y /= EXHAUSTIVE_K as usize + 1;
            }
            explore(ctx, &r, &ks, stats, rng, true);
            if x % 32 == 0 && ctx.time_up() {
                ctx.count("exhaustive_schedule_enumerations_cut_by_budget", 1);
                return;
            }
        }
        ctx.count("requests_with_all_3_pow_n_schedules", 1);
        ctx.class("exhaustive_futures", &n.to_string());
    } else {
        let tries = if ctx.quick() { 24 } else { 64 };
        for t in 0..tries {
            let ks: Vec<u8> = (0..n)
                .map(|_| match t % 3 {
                    0 => rng.below(RANDOM_K as usize + 1) as u8,
                    1 => {
                        if rng.chance(1, 4) {
                            rng.range(1, RANDOM_K as usize) as u8
                        } else {
                            0
                        }
                    }
                    _ => rng.below(3) as u8,
                })
                .collect();
            explore(ctx, &r, &ks, stats, rng, false);
        }
        ctx.count("requests_with_random_schedules", 1);
        ctx.class("random_schedules", "k<=5");
    }
    ctx.sample(|| {
        json!({
            "exec": clip(&req.ec.text, 300),
            "operation": req.op.name,
            "world": world.to_json(),
            "futures": n,
            "sync_response": r.sync_json,
        })
    });
}

// ---------------------------------------------------------------------------------------------
// Self-check of the instrumented executor (so that "no deadlock seen" is not vacuous)
// ---------------------------------------------------------------------------------------------

/// Parks three wakers at once, then completes when all were woken, recording the order.
struct Gate3 {
    shared: Arc<AsyncShared>,
    started: bool,
    order: Arc<Mutex<Vec<usize>>>,
}

impl Future for Gate3 {
    type Output = ();
    fn poll(mut self: Pin<&mut Self>, cx: &mut Context<'_>) -> Poll<()> {
        if !self.started {
            self.started = true;
            let mut s = self.shared.sched.lock().unwrap();
            for id in 0..3 {
                s.parked.push((id, cx.waker().clone()));
            }
            s.next_id = 3;
            return Poll::Pending;
        }
        let parked: Vec<usize> = self.shared.sched.lock().unwrap().parked.iter().map(|(i, _)| *i).collect();
        let mut o = self.order.lock().unwrap();
        for id in 0..3 {
            if !parked.contains(&id) && !o.contains(&id) {
                o.push(id);
            }
        }
        if o.len() == 3 {
            Poll::Ready(())
        } else {
            Poll::Pending
        }
    }
}

/// Parks a no-op waker instead of the one it was polled with: a lost wake-up by construction.
struct LosesWake {
    shared: Arc<AsyncShared>,
    started: bool,
}

impl Future for LosesWake {
    type Output = ();
    fn poll(mut self: Pin<&mut Self>, _cx: &mut Context<'_>) -> Poll<()> {
        if !self.started {
            self.started = true;
            let mut s = self.shared.sched.lock().unwrap();
            s.parked.push((0, futures::task::noop_waker()));
            return Poll::Pending;
        }
        Poll::Ready(())
    }
}

fn executor_selfcheck(ctx: &mut Ctx) {
    let mut rng = Rng::new(7);
    // (1) all 3! wake orders of three simultaneously parked wakers are enumerated
    let mut orders: HashSet<Vec<usize>> = HashSet::new();
    let mut choices: Vec<usize> = vec![];
    let mut runs = 0;
    loop {
        runs += 1;
        let shared = AsyncShared::new(&World::default(), vec![]);
        let order = Arc::new(Mutex::new(vec![]));
        let fut = Gate3 {
            shared: shared.clone(),
            started: false,
            order: order.clone(),
        };
        let (out, rep) = run_instrumented(fut, &shared, &choices, &mut rng);
        if out.is_none() || rep.deadlock {
            ctx.inconclusive("executor self-check: Gate3 did not complete", json!({"choices": choices}));
            return;
        }
        orders.insert(order.lock().unwrap().clone());
        let arity = rep.choice_arity.clone();
        let mut next = None;
        for i in (0..arity.len()).rev() {
            let cur = choices.get(i).copied().unwrap_or(0);
            if cur + 1 < arity[i] {
                let mut c: Vec<usize> = (0..i).map(|j| choices.get(j).copied().unwrap_or(0)).collect();
                c.push(cur + 1);
                next = Some(c);
                break;
            }
        }
        match next {
            Some(c) if runs < 64 => choices = c,
            _ => break,
        }
    }
    ctx.note("selfcheck_wake_orders_enumerated_for_3_parked_wakers", json!(orders.len()));
    if orders.len() == 6 {
        ctx.class("selfcheck", "all-6-wake-orders-of-3-parked-wakers-enumerated");
    } else {
        ctx.inconclusive("executor self-check: wake-order enumeration incomplete", json!({"orders": orders.len()}));
    }
    // (2) a future that parks a no-op waker is reported as a logical deadlock
    let shared = AsyncShared::new(&World::default(), vec![]);
    let (out, rep) = run_instrumented(
        LosesWake {
            shared: shared.clone(),
            started: false,
        },
        &shared,
        &[],
        &mut rng,
    );
    if out.is_none() && rep.deadlock && rep.wakes_not_reaching_root == 1 {
        ctx.class("selfcheck", "lost-wakeup-detected-on-a-future-that-parks-a-noop-waker");
    } else {
        ctx.inconclusive("executor self-check: lost wake-up not detected", json!({"deadlock": rep.deadlock}));
    }
}

pub fn run(ctx: &mut Ctx) {
    executor_selfcheck(ctx);
    let mut stats = Stats {
        schedules: HashSet::new(),
        floor_done: false,
    };
    let worlds_per_request = 3;
    for_each_request(ctx, "c27", |ctx, req, cells, rng| {
        for i in 0..worlds_per_request {
            if ctx.time_up() {
                return;
            }
            // mostly successful worlds with short lists: execution goes deep, futures stay few
            let p_ok = [9, 8, 6][i % 3];
            let world = random_world(rng, &req.sc.flat, cells, p_ok, 2);
            check_request_world(ctx, req, &world, &mut stats, rng);
        }
    });
    ctx.count_max("distinct_schedules_with_pending_polls_in_one_shard", stats.schedules.len() as u64);
}

pub fn replay(ctx: &mut Ctx, case: &J) {
    let ks: Vec<u8> = case
        .get("pending_counts")
        .and_then(|x| x.as_array())
        .map(|a| a.iter().filter_map(|x| x.as_u64()).map(|x| x as u8).collect())
        .unwrap_or_default();
    let r = with_replayed_request(case, |req, world| {
        let mut stats = Stats {
            schedules: HashSet::new(),
            floor_done: false,
        };
        let mut rng = Rng::new(1);
        let Ok(sync) = run_sync(&req.sc.schema, &req.ec.exec, req.op.name.as_deref(), req.root_type(), &req.coerced, world) else { return };
        let sync_json = response_json(&sync.response);
        let ex = RefExecutor::new(&req.sc.flat, &req.ec.doc, &req.coerced_j, world, true);
        let root_order: Vec<String> = ex
            .collect_fields(req.root_type(), &ex.root_sels(req.op))
            .into_iter()
            .map(|(k, _)| k)
            .collect();
        let r = Runner {
            req,
            world,
            sync,
            sync_json,
            root_order,
        };
        explore(ctx, &r, &ks, &mut stats, &mut rng, false);
    });
    if let Err(e) = r {
        ctx.inconclusive(&format!("replay: {e}"), case.clone());
    }
}
