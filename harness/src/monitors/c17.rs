//! C17 — Executable validation agrees with the specification.
//!
//! Refuting event: for a schema that apollo accepts (`Schema::parse_and_validate` of the printed
//! schema model), `ExecutableDocument::parse_and_validate(&schema, text, path).is_ok()` differs
//! from `RefExecRules(flat_schema, doc).is_empty()` (src/refmodel/exec_rules.rs — a reference
//! model written in the harness from the October 2021 spec text and graphql-js v16 semantics,
//! NOT graphql-js / graphql-core, which do not exist offline).
//!
//! Two input paths, counted separately:
//!  (A) model path: `schema_gen` × `exec_gen` pairs and one mutator family per rule
//!      (`gen::exec_mut`), printed with `print_plain` / `print_trivia`; the oracle judges the
//!      model and never sees apollo's parser;
//!  (B) parsed path: corpus files of apollo-compiler/test_data/{ok,diagnostics} that hold both a
//!      schema and executable definitions, fixed witnesses, and apollo-smith documents, converted
//!      with `from_ast::doc_from_ast` and split into type system / executable parts. Only the
//!      validation logic is independent there.
//!
//! A replayed case is judged through path B (the texts are re-parsed), whatever its origin.
//!
//! Signature: (direction, sorted set of the reference rule ids that decide the case, construct
//! classes at which they fire); when apollo rejects what the reference accepts no reference rule
//! decides and the names of apollo's diagnostics take that place. Witnesses are minimised greedily
//! on the model (operations, fragments, selections, arguments, directives, variables, then schema
//! definitions) while the disagreement keeps the same signature.

use crate::corpus;
use crate::gen::exec_gen::{gen_executable, ExecOpts};
use crate::gen::exec_mut;
use crate::gen::from_ast::doc_from_ast;
use crate::gen::model::*;
use crate::gen::schema_gen::{gen_schema, SchemaOpts};
use crate::prng::{fnv_str, Rng};
use crate::refmodel::exec_rules::{Params, RefExecRules, Report, RULES};
use crate::rt::{self, clip, Ctx};
use apollo_compiler::validation::Valid;
use apollo_compiler::{ast, ExecutableDocument, Schema};
use serde_json::{json, Value};
use std::collections::BTreeSet;

/// A schema prepared once for many executable documents.
pub struct SchemaCase {
    pub doc: Doc,
    pub text: String,
    pub rules: RefExecRules,
    pub apollo: Valid<Schema>,
}

impl SchemaCase {
    /// `None` when apollo rejects the printed schema (not C17's business) or panics (C21's).
    pub fn new(doc: &Doc) -> Option<SchemaCase> {
        let text = print_plain(doc);
        let apollo = rt::catch(|| Schema::parse_and_validate(&text, "schema.graphql")).ok()?.ok()?;
        let flat = FlatSchema::from_doc(doc);
        Some(SchemaCase {
            doc: doc.clone(),
            text,
            rules: RefExecRules::new(&flat, Params::apollo()),
            apollo,
        })
    }
}

/// What apollo said about one executable text.
pub struct ApolloVerdict {
    pub ok: bool,
    /// `unstable_error_name`s of the diagnostics (`<unnamed>` for syntax errors and the like)
    pub names: BTreeSet<String>,
    pub first_message: String,
}

pub fn apollo_verdict(schema: &Valid<Schema>, text: &str) -> Result<ApolloVerdict, rt::PanicReport> {
    rt::catch(|| match ExecutableDocument::parse_and_validate(schema, text, "doc.graphql") {
        Ok(_) => ApolloVerdict { ok: true, names: BTreeSet::new(), first_message: String::new() },
        Err(e) => ApolloVerdict {
            ok: false,
            names: e
                .errors
                .iter()
                .map(|d| d.error.unstable_error_name().unwrap_or("<unnamed>").to_string())
                .collect(),
            first_message: e.errors.iter().next().map(|d| d.error.to_string()).unwrap_or_default(),
        },
    })
}

/// `None` when both sides agree.
pub fn signature(a: &ApolloVerdict, r: &Report) -> Option<String> {
    if a.ok == r.is_empty() {
        return None;
    }
    if a.ok {
        let rules: Vec<&str> = r.rule_ids().into_iter().collect();
        let classes: Vec<String> = r.classes().into_iter().collect();
        Some(format!("apollo-accepts/oracle-rejects|{}|{}", rules.join("+"), classes.join("; ")))
    } else {
        let names: Vec<&str> = a.names.iter().map(|s| s.as_str()).collect();
        Some(format!("apollo-rejects/oracle-accepts|{}", names.join("+")))
    }
}

fn judge(sc: &SchemaCase, exec: &Doc, text: &str) -> Option<(ApolloVerdict, Report)> {
    let a = apollo_verdict(&sc.apollo, text).ok()?;
    let r = sc.rules.check(exec);
    Some((a, r))
}

// ---------------------------------------------------------------------------------------------
// Greedy minimisation on the model
// ---------------------------------------------------------------------------------------------

fn val_reductions(v: &Val) -> Vec<Val> {
    let mut out = Vec::new();
    match v {
        Val::List(xs) => {
            for i in 0..xs.len() {
                let mut y = xs.clone();
                y.remove(i);
                out.push(Val::List(y));
                for r in val_reductions(&xs[i]) {
                    let mut y = xs.clone();
                    y[i] = r;
                    out.push(Val::List(y));
                }
            }
        }
        Val::Obj(fs) => {
            for i in 0..fs.len() {
                let mut y = fs.clone();
                y.remove(i);
                out.push(Val::Obj(y));
                for r in val_reductions(&fs[i].1) {
                    let mut y = fs.clone();
                    y[i].1 = r;
                    out.push(Val::Obj(y));
                }
            }
        }
        _ => {}
    }
    out
}

fn args_reductions(args: &[(String, Val)]) -> Vec<Vec<(String, Val)>> {
    let mut out = Vec::new();
    for i in 0..args.len() {
        let mut y = args.to_vec();
        y.remove(i);
        out.push(y);
        for r in val_reductions(&args[i].1) {
            let mut y = args.to_vec();
            y[i].1 = r;
            out.push(y);
        }
    }
    out
}

fn dirs_reductions(dirs: &[DirApp]) -> Vec<Vec<DirApp>> {
    let mut out = Vec::new();
    for i in 0..dirs.len() {
        let mut y = dirs.to_vec();
        y.remove(i);
        out.push(y);
        for a in args_reductions(&dirs[i].args) {
            let mut y = dirs.to_vec();
            y[i].args = a;
            out.push(y);
        }
    }
    out
}

fn sels_reductions(sels: &[Sel]) -> Vec<Vec<Sel>> {
    let mut out = Vec::new();
    for i in 0..sels.len() {
        let mut y = sels.to_vec();
        y.remove(i);
        out.push(y);
    }
    for i in 0..sels.len() {
        let mut variants: Vec<Sel> = Vec::new();
        match &sels[i] {
            Sel::Field { alias, name, args, dirs, sels: sub } => {
                if alias.is_some() {
                    variants.push(Sel::Field { alias: None, name: name.clone(), args: args.clone(), dirs: dirs.clone(), sels: sub.clone() });
                }
                for a in args_reductions(args) {
                    variants.push(Sel::Field { alias: alias.clone(), name: name.clone(), args: a, dirs: dirs.clone(), sels: sub.clone() });
                }
                for d in dirs_reductions(dirs) {
                    variants.push(Sel::Field { alias: alias.clone(), name: name.clone(), args: args.clone(), dirs: d, sels: sub.clone() });
                }
                for s in sels_reductions(sub) {
                    variants.push(Sel::Field { alias: alias.clone(), name: name.clone(), args: args.clone(), dirs: dirs.clone(), sels: s });
                }
            }
            Sel::Spread { name, dirs } => {
                for d in dirs_reductions(dirs) {
                    variants.push(Sel::Spread { name: name.clone(), dirs: d });
                }
            }
            Sel::Inline { on, dirs, sels: sub } => {
                // hoist the content
                let mut y = sels.to_vec();
                y.splice(i..=i, sub.iter().cloned());
                out.push(y);
                if on.is_some() {
                    variants.push(Sel::Inline { on: None, dirs: dirs.clone(), sels: sub.clone() });
                }
                for d in dirs_reductions(dirs) {
                    variants.push(Sel::Inline { on: on.clone(), dirs: d, sels: sub.clone() });
                }
                for s in sels_reductions(sub) {
                    variants.push(Sel::Inline { on: on.clone(), dirs: dirs.clone(), sels: s });
                }
            }
        }
        for v in variants {
            let mut y = sels.to_vec();
            y[i] = v;
            out.push(y);
        }
    }
    out
}

/// All documents one reduction step smaller than `doc`.
pub fn exec_reductions(doc: &Doc) -> Vec<Doc> {
    let mut out = Vec::new();
    for i in 0..doc.defs.len() {
        let mut d = doc.clone();
        d.defs.remove(i);
        out.push(d);
    }
    for i in 0..doc.defs.len() {
        let mut variants: Vec<Def> = Vec::new();
        match &doc.defs[i] {
            Def::Op(o) => {
                for j in 0..o.vars.len() {
                    let mut x = o.clone();
                    x.vars.remove(j);
                    variants.push(Def::Op(x));
                    if o.vars[j].default.is_some() {
                        let mut x = o.clone();
                        x.vars[j].default = None;
                        variants.push(Def::Op(x));
                    }
                    for d in dirs_reductions(&o.vars[j].dirs) {
                        let mut x = o.clone();
                        x.vars[j].dirs = d;
                        variants.push(Def::Op(x));
                    }
                }
                for d in dirs_reductions(&o.dirs) {
                    let mut x = o.clone();
                    x.dirs = d;
                    variants.push(Def::Op(x));
                }
                for s in sels_reductions(&o.sels) {
                    let mut x = o.clone();
                    x.sels = s;
                    variants.push(Def::Op(x));
                }
            }
            Def::Frag(f) => {
                for d in dirs_reductions(&f.dirs) {
                    let mut x = f.clone();
                    x.dirs = d;
                    variants.push(Def::Frag(x));
                }
                for s in sels_reductions(&f.sels) {
                    let mut x = f.clone();
                    x.sels = s;
                    variants.push(Def::Frag(x));
                }
            }
            _ => {}
        }
        for v in variants {
            let mut d = doc.clone();
            d.defs[i] = v;
            out.push(d);
        }
    }
    out
}

/// Schema documents one step smaller (definitions, fields, directive applications, descriptions).
pub fn schema_reductions(doc: &Doc) -> Vec<Doc> {
    let mut out = Vec::new();
    for i in 0..doc.defs.len() {
        let mut d = doc.clone();
        d.defs.remove(i);
        out.push(d);
    }
    for i in 0..doc.defs.len() {
        if let Def::Type(t) = &doc.defs[i] {
            let mut variants: Vec<TypeDef> = Vec::new();
            for j in 0..t.fields.len() {
                let mut x = t.clone();
                x.fields.remove(j);
                variants.push(x);
                for k in 0..t.fields[j].args.len() {
                    let mut x = t.clone();
                    x.fields[j].args.remove(k);
                    variants.push(x);
                }
            }
            for j in 0..t.input_fields.len() {
                let mut x = t.clone();
                x.input_fields.remove(j);
                variants.push(x);
            }
            for j in 0..t.values.len() {
                let mut x = t.clone();
                x.values.remove(j);
                variants.push(x);
            }
            for j in 0..t.members.len() {
                let mut x = t.clone();
                x.members.remove(j);
                variants.push(x);
            }
            for j in 0..t.implements.len() {
                let mut x = t.clone();
                x.implements.remove(j);
                variants.push(x);
            }
            let decorated = t.desc.is_some()
                || !t.dirs.is_empty()
                || t.fields.iter().any(|f| f.desc.is_some() || !f.dirs.is_empty() || f.args.iter().any(|a| a.desc.is_some() || !a.dirs.is_empty()))
                || t.input_fields.iter().any(|f| f.desc.is_some() || !f.dirs.is_empty())
                || t.values.iter().any(|f| f.desc.is_some() || !f.dirs.is_empty());
            if decorated {
                let mut x = t.clone();
                x.desc = None;
                x.dirs.clear();
                for f in x.fields.iter_mut() {
                    f.desc = None;
                    f.dirs.clear();
                    for a in f.args.iter_mut() {
                        a.desc = None;
                        a.dirs.clear();
                    }
                }
                for f in x.input_fields.iter_mut() {
                    f.desc = None;
                    f.dirs.clear();
                }
                for f in x.values.iter_mut() {
                    f.desc = None;
                    f.dirs.clear();
                }
                variants.push(x);
            }
            for v in variants {
                let mut d = doc.clone();
                d.defs[i] = Def::Type(v);
                out.push(d);
            }
        }
    }
    out
}

/// Greedy delta reduction of (schema, executable) while `keeps(schema case, executable)` holds.
pub fn minimise_with(schema: &Doc, exec: &Doc, budget: usize, keeps: &dyn Fn(&SchemaCase, &Doc) -> bool) -> (Doc, Doc) {
    let mut schema = schema.clone();
    let mut exec = exec.clone();
    let mut calls = 0usize;
    let Some(mut sc) = SchemaCase::new(&schema) else { return (schema, exec) };
    loop {
        let mut progressed = false;
        'exec: loop {
            for cand in exec_reductions(&exec) {
                calls += 1;
                if calls > budget {
                    return (schema, exec);
                }
                if keeps(&sc, &cand) {
                    exec = cand;
                    progressed = true;
                    continue 'exec;
                }
            }
            break;
        }
        'schema: loop {
            for cand in schema_reductions(&schema) {
                calls += 1;
                if calls > budget {
                    return (schema, exec);
                }
                let Some(sc2) = SchemaCase::new(&cand) else { continue };
                if keeps(&sc2, &exec) {
                    schema = cand;
                    sc = sc2;
                    progressed = true;
                    continue 'schema;
                }
            }
            break;
        }
        if !progressed {
            return (schema, exec);
        }
    }
}

/// Greedy delta reduction keeping the signature. Returns (schema doc, executable doc).
pub fn minimise(schema: &Doc, exec: &Doc, sig: &str, budget: usize) -> (Doc, Doc) {
    minimise_with(schema, exec, budget, &|sc, cand| {
        let text = print_plain(cand);
        match judge(sc, cand, &text) {
            Some((a, r)) => r.decided() && signature(&a, &r).as_deref() == Some(sig),
            None => false,
        }
    })
}

// ---------------------------------------------------------------------------------------------
// Judging one case
// ---------------------------------------------------------------------------------------------

pub struct Outcome {
    pub apollo_ok: bool,
    pub oracle_ok: bool,
    pub decided: bool,
}

/// Judge one executable model against a prepared schema. `path` is "A" or "B".
pub fn check_case(ctx: &mut Ctx, sc: &SchemaCase, exec: &Doc, text: &str, path: &str, origin: &str) -> Option<Outcome> {
    ctx.eval();
    ctx.count(&format!("path_{path}_cases"), 1);
    ctx.inflight("C17", json!({"schema": sc.text, "doc": text}).to_string().as_bytes());
    let a = match apollo_verdict(&sc.apollo, text) {
        Ok(a) => a,
        Err(_) => {
            // a panic is C21's finding
            ctx.count("apollo_panics_skipped", 1);
            return None;
        }
    };
    let r = sc.rules.check(exec);
    if !r.decided() {
        ctx.count("oracle_dont_care_or_budget", 1);
        for d in &r.dont_care {
            ctx.class("dont_care_band", d);
        }
        if r.budget_exhausted {
            ctx.inconclusive("reference merge budget exhausted", json!({"doc": clip(text, 400)}));
        }
        return Some(Outcome { apollo_ok: a.ok, oracle_ok: r.is_empty(), decided: false });
    }
    ctx.nontrivial_hash(fnv_str(&sc.text) ^ fnv_str(text).rotate_left(21));
    let violated = r.rule_ids();
    let set = if path == "A" { "rule" } else { "rule_parsed_path" };
    for id in RULES {
        let m = if violated.contains(id) { format!("{id}:violated") } else { format!("{id}:satisfied") };
        ctx.class(set, &m);
    }
    ctx.count(
        match (a.ok, r.is_empty()) {
            (true, true) => "both_accept",
            (false, false) => "both_reject",
            (true, false) => "apollo_accepts_oracle_rejects",
            (false, true) => "apollo_rejects_oracle_accepts",
        },
        1,
    );
    if path == "A" && a.names.contains("<unnamed>") {
        // the printed model did not parse: a harness limitation, never a verdict
        ctx.inconclusive("printed model rejected with an unnamed (syntax?) error", json!({"doc": clip(text, 400), "message": a.first_message}));
        return None;
    }
    if let Some(sig) = signature(&a, &r) {
        // minimise the first witness of a signature only; later ones just count
        let seen = ctx.has_class("violation_signature_seen", &sig);
        ctx.class("violation_signature_seen", &sig);
        let (ms, me) = if ctx.replay_mode || seen { (sc.doc.clone(), exec.clone()) } else { minimise(&sc.doc, exec, &sig, 1500) };
        let mtext = print_plain(&me);
        let stext = print_plain(&ms);
        let msg = if a.ok {
            format!(
                "apollo accepts, the reference rejects ({}). Minimised from origin {origin}.",
                r.violated.iter().map(|v| format!("{}: {}", v.rule, v.class)).collect::<Vec<_>>().join("; ")
            )
        } else {
            format!("apollo rejects ({}), the reference finds no violated rule. Minimised from origin {origin}.", a.first_message)
        };
        ctx.violation(sig, msg, json!({"path": path, "origin": origin, "schema": stext, "doc": mtext}));
    }
    Some(Outcome { apollo_ok: a.ok, oracle_ok: r.is_empty(), decided: true })
}

/// Path B: a mixed (or separate) pair of texts, parsed by apollo, converted and split.
pub fn check_parsed(ctx: &mut Ctx, schema_text: &str, exec_text: &str, origin: &str) -> Option<Outcome> {
    let sdoc = ast::Document::parse(schema_text, "s.graphql").ok()?;
    let edoc = ast::Document::parse(exec_text, "e.graphql").ok()?;
    let sm = doc_from_ast(&sdoc)?.type_system();
    let em = doc_from_ast(&edoc)?;
    let sc = SchemaCase::new(&sm)?;
    let text = print_plain(&em);
    check_case(ctx, &sc, &em, &text, "B", origin)
}

/// Split a mixed text into (type system text, executable text) through the model.
pub fn split_mixed(text: &str) -> Option<(Doc, Doc)> {
    let d = ast::Document::parse(text, "mixed.graphql").ok()?;
    let m = doc_from_ast(&d)?;
    let (ts, ex) = (m.type_system(), m.executable());
    if ts.defs.is_empty() || ex.defs.is_empty() {
        return None;
    }
    Some((ts, ex))
}

/// Fixed witnesses (DESIGN §3 rows 10–13 and the findings of the calibration): (schema, document).
pub const WITNESSES: &[(&str, &str)] = &[
    ("type Query { a(x: [Int]): Int }", "{ a(x: [1, 2]) a(x: [1]) }"),
    ("type Query { c(y: Int!): Int }", "query($v: Int = null) { c(y: $v) }"),
    ("type Query { a: Int } type Subscription { a: Int }", "subscription { a a }"),
    ("type Query { a(i: In): Int } input In { f: Int }", "{ a(i: {f: 1, f: 2}) }"),
    ("type Query { a(x: [Int]): Int }", "query($v: [Int]) { a(x: [$v]) }"),
    ("type Query { a(i: In): Int } input In { f: Int! }", "query($v: Int) { a(i: {f: $v}) }"),
];

pub fn smith_text(rng: &mut Rng) -> Option<String> {
    let n = 2048 + rng.below(4096);
    let bytes = rng.bytes(n);
    let mut u = apollo_smith::Unstructured::new(&bytes);
    let b = apollo_smith::DocumentBuilder::new(&mut u)
        .max_scalar_types(2)
        .max_enum_types(2)
        .max_interface_types(2)
        .max_object_types(3)
        .max_union_types(2)
        .max_input_object_types(2)
        .max_fragment_definitions(2)
        .max_directive_definitions(2)
        .max_operation_definitions(2);
    rt::catch(|| b.build().ok().map(String::from)).ok().flatten()
}

pub fn corpus_pairs() -> Vec<(String, Doc, Doc)> {
    let files = corpus::all();
    let mut out = Vec::new();
    for f in files.iter().filter(|f| matches!(f.group, "compiler_ok" | "compiler_diag")) {
        if let Some((ts, ex)) = split_mixed(&f.text) {
            out.push((format!("{}/{}", f.group, f.name), ts, ex));
        }
    }
    out
}

pub fn run(ctx: &mut Ctx) {
    // Phase 0 (shard 0): fixed witnesses, path B.
    if ctx.shard == 0 {
        for (s, d) in WITNESSES {
            check_parsed(ctx, s, d, "witness");
            ctx.class("source", "witness");
        }
    }
    // Phase 1: corpus pairs, path B.
    let pairs = corpus_pairs();
    ctx.note("corpus_pairs", json!(pairs.len()));
    for (i, (name, ts, ex)) in pairs.iter().enumerate() {
        if !ctx.mine(i as u64) {
            continue;
        }
        if let Some(sc) = SchemaCase::new(ts) {
            let text = print_plain(ex);
            check_case(ctx, &sc, ex, &text, "B", name);
            ctx.class("source", "corpus");
        } else {
            ctx.count("corpus_schema_rejected_by_apollo", 1);
        }
    }
    // Phase 2: model pairs and mutants (path A) with a share of smith documents (path B).
    let mut n = 0u64;
    let mut quota = exec_mut::Quota::new();
    while !ctx.time_up() {
        n += 1;
        let mut rng = ctx.sub_rng("c17-schema", n);
        if n % 12 == 0 {
            if let Some(t) = smith_text(&mut rng) {
                if let Some((ts, ex)) = split_mixed(&t) {
                    if let Some(sc) = SchemaCase::new(&ts) {
                        let text = print_plain(&ex);
                        check_case(ctx, &sc, &ex, &text, "B", "smith");
                        ctx.class("source", "smith");
                    } else {
                        ctx.count("smith_schema_rejected_by_apollo", 1);
                    }
                }
            }
            continue;
        }
        let sdoc = gen_schema(&mut rng, &SchemaOpts::default());
        let Some(sc) = SchemaCase::new(&sdoc) else {
            ctx.count("generated_schema_rejected_by_apollo", 1);
            continue;
        };
        let flat = FlatSchema::from_doc(&sdoc);
        for k in 0..4u64 {
            let mut r2 = ctx.sub_rng("c17-exec", n * 16 + k);
            let ex = gen_executable(&mut r2, &flat, &ExecOpts::default());
            let text = if r2.chance(1, 3) { print_trivia(&ex, &mut r2) } else { print_plain(&ex) };
            let base = check_case(ctx, &sc, &ex, &text, "A", "generated");
            ctx.class("source", "generated");
            ctx.sample(|| json!({"path": "A", "schema": clip(&sc.text, 300), "doc": clip(&text, 300)}));
            let base_valid = matches!(base, Some(Outcome { oracle_ok: true, decided: true, .. }));
            if !base_valid {
                ctx.count("generated_base_invalid_for_oracle", 1);
                continue;
            }
            // mutants: quota-driven choice of the rule family
            for _ in 0..6 {
                let rule = quota.next(&mut r2);
                match exec_mut::mutate(rule, &mut r2, &flat, &ex) {
                    Some(m) => {
                        let mtext = if r2.chance(1, 4) { print_trivia(&m, &mut r2) } else { print_plain(&m) };
                        let rep = sc.rules.check(&m);
                        let ids = rep.rule_ids();
                        ctx.class("mutator", &format!("{rule}:applied"));
                        if exec_mut::intended(rule).map(|r| ids.len() == 1 && ids.contains(r)).unwrap_or(ids.is_empty()) {
                            ctx.count("mutants_violating_exactly_the_intended_rule", 1);
                            quota.hit(rule);
                        }
                        ctx.count("mutants", 1);
                        check_case(ctx, &sc, &m, &mtext, "A", &format!("mutant:{rule}"));
                        ctx.class("source", "mutant");
                    }
                    None => ctx.count("mutator_not_applicable", 1),
                }
                if ctx.time_up() {
                    break;
                }
            }
        }
    }
}

pub fn replay(ctx: &mut Ctx, case: &Value) {
    let (Some(s), Some(d)) = (case.get("schema").and_then(|x| x.as_str()), case.get("doc").and_then(|x| x.as_str())) else {
        return;
    };
    if check_parsed(ctx, s, d, "replay").is_none() {
        ctx.inconclusive("replay case could not be parsed or its schema is rejected", case.clone());
    }
}
