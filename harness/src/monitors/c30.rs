//! C30 — Names and nodes are memory-safe shared values.
//!
//! Oracle: an operation interpreter with a shadow model. Every history is a list of operations on
//! a pool of at most 8 `Name` slots, 8 `Node` slots and a `HashSet<Name>`, over at most 3 valid
//! texts (plus one text that is not a GraphQL name, for the checked constructors' error path).
//! The model knows for every slot the text, the location (file id, start, end), whether the name
//! is static, and which backing `Arc<str>` it shares. The harness keeps at least one handle to
//! every backing `Arc<str>`, so after every step
//!
//!   Arc::strong_count(handle) == #live names sharing it + #handles the harness holds
//!
//! must hold (single-threaded: after every step; multi-threaded: at join points, where the live
//! names are counted by inspection with `Arc::ptr_eq`). Nodes: the model tracks which slots share
//! an allocation; a clone must be unchanged by `make_mut` on another clone, `get_mut` is `Some`
//! iff unshared, `ptr_eq` iff same allocation. A counter in the node payload's constructor and
//! destructor checks that payloads are dropped exactly once, and the counting global allocator
//! (`alloc_count`) checks that live bytes return to the baseline when a history ends.
//!
//! The monitor remembers no addresses (only `Arc::ptr_eq` on live handles), so it cannot hide a
//! leak or a use-after-free from ASan/LSan/Miri/memcheck. All monitor state is local to the thread
//! that runs the history; threads of a multi-threaded history report through their join value.

use crate::alloc_count;
use crate::prng::Rng;
use crate::rt::{self, Ctx};
use apollo_compiler::parser::{FileId, SourceSpan};
use apollo_compiler::schema::{ComponentName, ComponentOrigin};
use apollo_compiler::{name, Name, Node};
use serde_json::{json, Value};
use std::collections::HashSet;
use std::hash::{Hash, Hasher};
use std::sync::atomic::{AtomicBool, AtomicIsize, Ordering};
use std::sync::mpsc;
use std::sync::{Arc, Barrier};

// ---------------------------------------------------------------------------------------------
// Texts, file ids, locations (shared with C31)
// ---------------------------------------------------------------------------------------------

macro_rules! t0 { () => { "alpha" }; }
macro_rules! t1 { () => { "Bb" }; }
macro_rules! t2 { () => { "_c9_long_name_0123456789_abcdefghijklmnopqrstuvwxyz" }; }

/// Index 3 is not a valid GraphQL name: the checked constructors must refuse it.
pub const TEXTS: [&str; 4] = [t0!(), t1!(), t2!(), "9 not-a-name"];
pub const N_VALID: usize = 3;

pub fn macro_name(t: usize) -> Name {
    match t % N_VALID {
        0 => name!(t0!()),
        1 => name!(t1!()),
        _ => name!(t2!()),
    }
}

pub const TAG_BIT: u64 = 1 << 63;
pub const MAX_ID: u64 = TAG_BIT - 1;
/// raw value of the crate-private `FileId::NONE` ("no location" sentinel inside `Name`)
pub const NONE_RAW: u64 = 2;

pub const EDGE_FILE_IDS: &[u64] = &[
    1,
    2,
    3,
    4,
    255,
    0xFFFF_FFFF,
    1 << 32,
    (1 << 62) - 1,
    1 << 62,
    (1 << 62) + 1,
    MAX_ID - 1,
    MAX_ID,
];

/// A raw file id in 1..=2^63-1: edges, single bits and their neighbours, or uniform.
pub fn sample_file_id(rng: &mut Rng) -> u64 {
    let id = match rng.below(8) {
        0..=2 => *rng.pick(EDGE_FILE_IDS),
        3 => 1u64 << rng.below(63),
        4 => (1u64 << rng.below(63)).wrapping_sub(1),
        5 => (1u64 << rng.below(63)) + 1,
        _ => rng.next_u64() >> 1,
    };
    id.clamp(1, MAX_ID)
}

pub fn sample_start(rng: &mut Rng) -> u32 {
    match rng.below(6) {
        0 => 0,
        1 => 1,
        2 => u32::MAX,
        3 => 1 << rng.below(32),
        _ => rng.next_u32(),
    }
}

#[derive(Clone, Copy, Debug, PartialEq, Eq)]
pub struct Loc {
    pub file: u64,
    pub start: u32,
    pub end: u32,
}

pub fn span(l: Loc) -> SourceSpan {
    let id = FileId::__verif_from_raw(l.file).expect("harness: file id in 1..=2^63-1");
    SourceSpan::__verif_new(id, l.start, l.end)
}

pub fn read_loc(s: Option<SourceSpan>) -> Option<Loc> {
    s.map(|s| Loc {
        file: s.file_id().__verif_raw(),
        start: s.offset() as u32,
        end: s.end_offset() as u32,
    })
}

/// A location for a name of length `len` starting as close to `start` as the u32 range allows.
pub fn name_loc(file: u64, start: u32, len: usize) -> Loc {
    let len = len as u32;
    let start = start.min(u32::MAX - len);
    Loc {
        file,
        start,
        end: start + len,
    }
}

/// What `Name::location()` must return after `with_location(span(l))`: the crate documents file
/// id 2 (`FileId::NONE`, not constructible through the public API) as "no location".
pub fn name_expected_loc(l: Option<Loc>) -> Option<Loc> {
    match l {
        Some(l) if l.file == NONE_RAW => None,
        other => other,
    }
}

/// Pack/unpack round trip through `Name::with_location` for one (static?, file id, start).
/// Returns the failed invariant and the two differing numbers.
pub fn pack_roundtrip(is_static: bool, t: usize, file: u64, start: u32) -> Result<(), (&'static str, i128, i128)> {
    let text = TEXTS[t % N_VALID];
    let handle: Arc<str> = Arc::from(text);
    let n = if is_static {
        macro_name(t)
    } else {
        Name::from_arc_unchecked(handle.clone())
    };
    let l = name_loc(file, start, text.len());
    let n = n.with_location(span(l));
    let r = (|| {
        if n.as_str() != text {
            return Err(("text", 0, 0));
        }
        let got = read_loc(n.location());
        let want = name_expected_loc(Some(l));
        if got != want {
            let g = got.map(|g| g.file as i128).unwrap_or(-1);
            if got.map(|g| g.file) != want.map(|w| w.file) {
                return Err(("file_id", l.file as i128, g));
            }
            return Err(("range", l.start as i128, got.map(|g| g.start as i128).unwrap_or(-1)));
        }
        if n.as_static_str().is_some() != is_static {
            return Err(("tag", is_static as i128, !is_static as i128));
        }
        if n.to_cloned_arc().is_some() == is_static {
            return Err(("tag", is_static as i128, !is_static as i128));
        }
        let want_count = if is_static { 1 } else { 2 };
        if Arc::strong_count(&handle) != want_count {
            return Err(("strong_count", want_count as i128, Arc::strong_count(&handle) as i128));
        }
        Ok(())
    })();
    if r.is_err() {
        // the name's tag or pointer may be wrong: do not run its destructor
        std::mem::forget(n);
        std::mem::forget(handle);
    }
    r
}

// ---------------------------------------------------------------------------------------------
// Operations
// ---------------------------------------------------------------------------------------------

macro_rules! kinds {
    ($($id:ident => $name:expr),* $(,)?) => {
        #[derive(Clone, Copy, Debug, PartialEq, Eq)]
        #[repr(u8)]
        pub enum K { $($id),* }
        pub const KINDS: &[(K, &str)] = &[$((K::$id, $name)),*];
    };
}

kinds! {
    New => "new",
    NewStatic => "new_static",
    NewUnchecked => "new_unchecked",
    NewStaticUnchecked => "new_static_unchecked",
    FromArc => "from_arc_unchecked",
    TryFromArc => "try_from_arc",
    Macro => "name_macro",
    Clone => "clone",
    Drop => "drop",
    WithLocation => "with_location",
    Location => "location",
    AsStr => "as_str",
    AsStaticStr => "as_static_str",
    ToClonedArc => "to_cloned_arc",
    DropHandle => "drop_handle",
    IntoArc => "into_arc",
    ToComponent => "to_component",
    SetInsert => "set_insert",
    SetLookup => "set_lookup",
    SetRemove => "set_remove",
    EqHash => "eq_hash",
    NodeNew => "node_new",
    NodeNewParsed => "node_new_parsed",
    NodeNewStr => "node_new_str",
    NodeNewStrParsed => "node_new_str_parsed",
    NodeClone => "node_clone",
    NodeDrop => "node_drop",
    NodeMakeMut => "node_make_mut",
    NodeGetMut => "node_get_mut",
    NodePtrEq => "node_ptr_eq",
    NodeSameLocation => "node_same_location",
    NodeEq => "node_eq",
    NodeToComponent => "node_to_component",
}

impl K {
    pub fn name(self) -> &'static str {
        KINDS[self as usize].1
    }
    pub fn from_name(s: &str) -> Option<K> {
        KINDS.iter().find(|(_, n)| *n == s).map(|(k, _)| *k)
    }
}

/// Relative frequencies of operation kinds in generated histories.
const WEIGHTS: &[(K, usize)] = &[
    (K::New, 4),
    (K::NewStatic, 3),
    (K::NewUnchecked, 3),
    (K::NewStaticUnchecked, 2),
    (K::FromArc, 8),
    (K::TryFromArc, 4),
    (K::Macro, 3),
    (K::Clone, 14),
    (K::Drop, 8),
    (K::WithLocation, 9),
    (K::Location, 2),
    (K::AsStr, 2),
    (K::AsStaticStr, 2),
    (K::ToClonedArc, 5),
    (K::DropHandle, 4),
    (K::IntoArc, 4),
    (K::ToComponent, 3),
    (K::SetInsert, 4),
    (K::SetLookup, 3),
    (K::SetRemove, 3),
    (K::EqHash, 3),
    (K::NodeNew, 5),
    (K::NodeNewParsed, 4),
    (K::NodeNewStr, 2),
    (K::NodeNewStrParsed, 2),
    (K::NodeClone, 8),
    (K::NodeDrop, 5),
    (K::NodeMakeMut, 7),
    (K::NodeGetMut, 4),
    (K::NodePtrEq, 3),
    (K::NodeSameLocation, 3),
    (K::NodeEq, 2),
    (K::NodeToComponent, 2),
];

#[derive(Clone, Copy, Debug, PartialEq, Eq)]
pub struct Op {
    pub k: K,
    /// primary slot
    pub a: u8,
    /// secondary slot / backing index
    pub b: u8,
    /// text index
    pub t: u8,
    /// raw file id
    pub f: u64,
    /// start offset
    pub s: u32,
    /// value
    pub v: u32,
}

impl Op {
    pub fn to_json(&self) -> Value {
        json!([self.k.name(), self.a, self.b, self.t, self.f, self.s, self.v])
    }
    pub fn from_json(v: &Value) -> Option<Op> {
        let a = v.as_array()?;
        Some(Op {
            k: K::from_name(a.first()?.as_str()?)?,
            a: a.get(1)?.as_u64()? as u8,
            b: a.get(2)?.as_u64()? as u8,
            t: a.get(3)?.as_u64()? as u8,
            f: a.get(4)?.as_u64()?,
            s: a.get(5)?.as_u64()? as u32,
            v: a.get(6)?.as_u64()? as u32,
        })
    }
}

pub const SLOTS: usize = 8;

pub fn gen_op(rng: &mut Rng, nslots: usize, total_weight: usize) -> Op {
    let mut w = rng.below(total_weight);
    let mut k = K::Clone;
    for (kk, ww) in WEIGHTS {
        if w < *ww {
            k = *kk;
            break;
        }
        w -= ww;
    }
    Op {
        k,
        a: rng.below(nslots) as u8,
        b: rng.below(nslots) as u8,
        t: if rng.chance(1, 8) { 3 } else { rng.below(N_VALID) as u8 },
        f: sample_file_id(rng),
        s: sample_start(rng),
        v: rng.next_u32() % 1000,
    }
}

pub fn gen_history(rng: &mut Rng, len: usize) -> Vec<Op> {
    let total: usize = WEIGHTS.iter().map(|w| w.1).sum();
    let nslots = rng.range(2, SLOTS);
    (0..len).map(|_| gen_op(rng, nslots, total)).collect()
}

pub fn history_json(ops: &[Op]) -> Value {
    json!({"kind": "st", "ops": ops.iter().map(|o| o.to_json()).collect::<Vec<_>>()})
}

/// The same JSON as `history_json`, written directly (this runs once per history for the
/// in-flight file).
pub fn history_string(ops: &[Op]) -> String {
    use std::fmt::Write;
    let mut s = String::with_capacity(32 + ops.len() * 48);
    s.push_str("{\"kind\":\"st\",\"ops\":[");
    for (i, o) in ops.iter().enumerate() {
        if i > 0 {
            s.push(',');
        }
        let _ = write!(s, "[\"{}\",{},{},{},{},{},{}]", o.k.name(), o.a, o.b, o.t, o.f, o.s, o.v);
    }
    s.push_str("]}");
    s
}

fn history_hash(ops: &[Op]) -> u64 {
    let mut h = 0xcbf2_9ce4_8422_2325u64;
    for o in ops {
        for x in [o.k as u64 | (o.a as u64) << 8 | (o.b as u64) << 16 | (o.t as u64) << 24, o.f, o.s as u64 | (o.v as u64) << 32] {
            h = (h ^ x).wrapping_mul(0x0000_0100_0000_01B3).rotate_left(23);
        }
    }
    h
}

// ---------------------------------------------------------------------------------------------
// Node payload with construction/destruction accounting
// ---------------------------------------------------------------------------------------------

static LIVE_PAYLOADS: AtomicIsize = AtomicIsize::new(0);

/// Sanitizer / Miri / memcheck variants (`--mode san`, `threads+san`, `miri`): after the shadow
/// model's first refuting observation the history is still executed to its end and the pool is
/// dropped normally, so that the tool sees the real use-after-free / double free / leak itself.
/// In the plain build the pool is leaked instead (`mem::forget`) and the worker stops running
/// histories, because a heap with a wrong count must not be touched any further.
static KEEP_GOING: AtomicBool = AtomicBool::new(false);

fn keep_going() -> bool {
    KEEP_GOING.load(Ordering::Relaxed)
}

/// ThreadSanitizer does not model atomic fences, and triomphe (behind `Node`) synchronises the
/// last drop of an allocation with `fence(Acquire)`. Besides the report on the node allocation
/// itself (suppressed by frame, see checklib/memsan.py) this blind spot is transitive: a `Name`
/// inside a node payload that another thread only ever read through its node clone looks
/// unsynchronised with the final free of its `Arc<str>`. Under TSan (`--mode ...+tsan`) node
/// payloads of multi-threaded histories therefore carry no name; ASan, Miri (which models fences)
/// and the shadow model still run the full workload.
static NO_NAMES_IN_SHARED_NODES: AtomicBool = AtomicBool::new(false);

fn threads_only_mode(ctx: &Ctx) -> bool {
    mode_has(ctx, "threads")
}

fn mode_has(ctx: &Ctx, token: &str) -> bool {
    ctx.mode.split('+').any(|t| t == token)
}

#[derive(Debug, PartialEq, Eq, Hash)]
pub struct Payload {
    v: u32,
    name: Option<Name>,
}

impl Payload {
    fn new(v: u32, name: Option<Name>) -> Self {
        LIVE_PAYLOADS.fetch_add(1, Ordering::Relaxed);
        Payload { v, name }
    }
}

impl Clone for Payload {
    fn clone(&self) -> Self {
        Payload::new(self.v, self.name.clone())
    }
}

impl Drop for Payload {
    fn drop(&mut self) {
        LIVE_PAYLOADS.fetch_sub(1, Ordering::Relaxed);
    }
}

fn live_payloads() -> isize {
    LIVE_PAYLOADS.load(Ordering::Relaxed)
}

// ---------------------------------------------------------------------------------------------
// Shadow model and interpreter (single-threaded histories)
// ---------------------------------------------------------------------------------------------

#[derive(Clone, Copy, Debug, PartialEq, Eq)]
struct MName {
    text: usize,
    /// `None`: static name; `Some(i)`: shares `backings[i]`
    backing: Option<usize>,
    loc: Option<Loc>,
}

struct Backing {
    text: usize,
    /// handles the harness holds (at least one while the backing is alive)
    handles: Vec<Arc<str>>,
    /// model: live names sharing this backing
    live: usize,
}

#[derive(Clone, Copy, Debug, PartialEq, Eq)]
enum Body {
    Val { v: u32, name: Option<MName> },
    Str { text: usize },
}

#[derive(Clone, Copy, Debug)]
struct Group {
    refs: usize,
    loc: Option<Loc>,
    body: Body,
}

enum NodeObj {
    Val(Node<Payload>),
    Str(Node<str>),
}

/// A refuting observation. `Copy`, no heap: failures are recorded inside the allocation-accounting
/// window and turned into text outside it.
#[derive(Clone, Copy, Debug)]
pub struct Fail {
    pub step: usize,
    pub op: &'static str,
    pub inv: &'static str,
    pub want: i128,
    pub got: i128,
}

type Chk = Result<(), (&'static str, i128, i128)>;

fn ck(ok: bool, inv: &'static str, want: i128, got: i128) -> Chk {
    if ok {
        Ok(())
    } else {
        Err((inv, want, got))
    }
}

fn hash_of<T: Hash + ?Sized>(x: &T) -> u64 {
    // DefaultHasher::new() has fixed keys: a pure function of the hashed bytes
    let mut h = std::collections::hash_map::DefaultHasher::new();
    x.hash(&mut h);
    h.finish()
}

struct World {
    backings: Vec<Backing>,
    names: [Option<Name>; SLOTS],
    mnames: [Option<MName>; SLOTS],
    nodes: [Option<NodeObj>; SLOTS],
    mnodes: [Option<usize>; SLOTS],
    groups: Vec<Option<Group>>,
    set: HashSet<Name>,
    mset: [Option<MName>; 4],
    payload_base: isize,
    max_strong: usize,
    /// under Miri: the full pool is re-read every 16th step and at the end; counts every step
    light: bool,
    steps: usize,
}

const FIXED_BACKINGS: usize = 4;

impl World {
    fn new() -> World {
        let mut backings = Vec::with_capacity(16);
        for (t, text) in TEXTS.iter().enumerate() {
            backings.push(Backing {
                text: t,
                handles: vec![Arc::from(*text)],
                live: 0,
            });
        }
        World {
            backings,
            names: Default::default(),
            mnames: [None; SLOTS],
            nodes: Default::default(),
            mnodes: [None; SLOTS],
            groups: Vec::with_capacity(16),
            set: HashSet::new(),
            mset: [None; 4],
            payload_base: live_payloads(),
            max_strong: 0,
            light: false,
            steps: 0,
        }
    }

    // ---- model bookkeeping ----

    fn inc(&mut self, m: MName) {
        if let Some(b) = m.backing {
            self.backings[b].live += 1;
        }
    }

    fn dec(&mut self, m: MName) {
        if let Some(b) = m.backing {
            self.backings[b].live = self.backings[b].live.saturating_sub(1);
        }
    }

    fn put_name(&mut self, slot: usize, n: Option<Name>, m: Option<MName>) {
        if let Some(old) = self.mnames[slot].take() {
            self.dec(old);
        }
        self.names[slot] = n; // the old name (if any) is dropped here
        self.mnames[slot] = m;
    }

    fn new_group(&mut self, g: Group) -> usize {
        if let Some(i) = self.groups.iter().position(|x| x.is_none()) {
            self.groups[i] = Some(g);
            i
        } else {
            self.groups.push(Some(g));
            self.groups.len() - 1
        }
    }

    fn release_group_ref(&mut self, g: usize) {
        let grp = self.groups[g].as_mut().expect("harness: live group");
        grp.refs -= 1;
        if grp.refs == 0 {
            let body = grp.body;
            self.groups[g] = None;
            if let Body::Val { name: Some(m), .. } = body {
                self.dec(m);
            }
        }
    }

    fn put_node(&mut self, slot: usize, n: Option<NodeObj>, g: Option<usize>) {
        if let Some(old) = self.mnodes[slot].take() {
            self.release_group_ref(old);
        }
        self.nodes[slot] = n; // the old node (if any) is dropped here
        self.mnodes[slot] = g;
    }

    /// Register the backing of a name that allocated its own `Arc<str>` (`Name::new`,
    /// `new_unchecked`): the harness obtains its handle through `to_cloned_arc`.
    fn register_fresh(&mut self, n: &Name, text: usize) -> Result<MName, (&'static str, i128, i128)> {
        let Some(h) = n.to_cloned_arc() else {
            return Err(("to_cloned_arc_none_for_heap_name", 1, 0));
        };
        ck(&*h == TEXTS[text], "text", 0, 1)?;
        self.backings.push(Backing {
            text,
            handles: vec![h],
            live: 1,
        });
        Ok(MName {
            text,
            backing: Some(self.backings.len() - 1),
            loc: None,
        })
    }

    fn pick_backing(&self, b: u8) -> usize {
        let i = b as usize % self.backings.len();
        if self.backings[i].handles.is_empty() {
            b as usize % FIXED_BACKINGS
        } else {
            i
        }
    }

    // ---- observation ----

    fn observe_name(&self, n: &Name, m: &MName) -> Chk {
        let text = TEXTS[m.text];
        ck(n.len() == text.len(), "len", text.len() as i128, n.len() as i128)?;
        ck(n.as_str() == text, "text", 0, 1)?;
        let got = read_loc(n.location());
        let want = name_expected_loc(m.loc);
        if got != want {
            if got.map(|g| g.file) != want.map(|w| w.file) {
                return Err((
                    "location_file_id",
                    want.map(|w| w.file as i128).unwrap_or(-1),
                    got.map(|g| g.file as i128).unwrap_or(-1),
                ));
            }
            return Err((
                "location_range",
                want.map(|w| w.start as i128).unwrap_or(-1),
                got.map(|g| g.start as i128).unwrap_or(-1),
            ));
        }
        let is_static = m.backing.is_none();
        ck(n.as_static_str().is_some() == is_static, "static_flag", is_static as i128, !is_static as i128)?;
        if let Some(s) = n.as_static_str() {
            ck(s == text, "static_text", 0, 1)?;
        }
        match (n.to_cloned_arc(), m.backing) {
            (None, None) => {}
            (Some(a), Some(b)) => {
                let same = Arc::ptr_eq(&a, &self.backings[b].handles[0]);
                ck(same, "arc_identity", 1, 0)?;
            }
            (Some(_), None) => return Err(("to_cloned_arc_some_for_static", 0, 1)),
            (None, Some(_)) => return Err(("to_cloned_arc_none_for_heap_name", 1, 0)),
        }
        Ok(())
    }

    fn observe_all(&mut self) -> Chk {
        self.steps += 1;
        if self.light && self.steps % 16 != 0 {
            return self.observe_counts();
        }
        self.observe_pool()?;
        self.observe_counts()
    }

    fn observe_pool(&self) -> Chk {
        for i in 0..SLOTS {
            if let (Some(n), Some(m)) = (&self.names[i], &self.mnames[i]) {
                self.observe_name(n, m)?;
            }
        }
        for i in 0..SLOTS {
            let (Some(n), Some(g)) = (&self.nodes[i], self.mnodes[i]) else {
                continue;
            };
            let grp = self.groups[g].as_ref().expect("harness: live group");
            match (n, &grp.body) {
                (NodeObj::Val(n), Body::Val { v, name }) => {
                    ck(n.v == *v, "node_value_changed", *v as i128, n.v as i128)?;
                    ck(read_loc(n.location()) == grp.loc, "node_location", 0, 1)?;
                    match (&n.name, name) {
                        (None, None) => {}
                        (Some(nn), Some(mm)) => self.observe_name(nn, mm)?,
                        _ => return Err(("node_name_presence", 0, 1)),
                    }
                }
                (NodeObj::Str(n), Body::Str { text }) => {
                    ck(n.as_str() == TEXTS[*text], "node_str_text", 0, 1)?;
                    ck(read_loc(n.location()) == grp.loc, "node_location", 0, 1)?;
                }
                _ => unreachable!("harness: node variant and model disagree"),
            }
        }
        let mut in_set = 0;
        for n in &self.set {
            in_set += 1;
            let t = TEXTS.iter().position(|t| *t == n.as_str());
            let Some(t) = t else {
                return Err(("set_member_text", 0, 1));
            };
            let Some(m) = &self.mset[t] else {
                return Err(("set_member_unexpected", 0, 1));
            };
            self.observe_name(n, m)?;
        }
        let want_in_set = self.mset.iter().filter(|m| m.is_some()).count();
        ck(in_set == want_in_set, "set_len", want_in_set as i128, in_set as i128)
    }

    fn observe_counts(&mut self) -> Chk {
        // node payloads constructed and not yet dropped == live Val groups
        let want = self
            .groups
            .iter()
            .filter(|g| matches!(g, Some(Group { body: Body::Val { .. }, .. })))
            .count() as isize;
        let got = live_payloads() - self.payload_base;
        ck(got == want, "payload_live", want as i128, got as i128)?;
        // the count invariant
        let mut max = self.max_strong;
        for b in &self.backings {
            if let Some(h) = b.handles.first() {
                let want = b.live + b.handles.len();
                let got = Arc::strong_count(h);
                ck(got == want, "strong_count", want as i128, got as i128)?;
                max = max.max(b.live);
            }
        }
        self.max_strong = max;
        // dynamic backings nobody shares any more: release the harness handles
        for i in FIXED_BACKINGS..self.backings.len() {
            if self.backings[i].live == 0 && !self.backings[i].handles.is_empty() {
                self.backings[i].handles.clear();
            }
        }
        Ok(())
    }

    // ---- one operation; Ok(true) executed, Ok(false) skipped (operand slot empty) ----

    fn step(&mut self, op: &Op) -> Result<bool, (&'static str, i128, i128)> {
        let a = op.a as usize % SLOTS;
        let b = op.b as usize % SLOTS;
        let t = op.t as usize % TEXTS.len();
        let valid = t < N_VALID;
        match op.k {
            K::New => match Name::new(TEXTS[t]) {
                Ok(n) => {
                    ck(valid, "accepts_invalid_name", 0, 1)?;
                    let m = self.register_fresh(&n, t);
                    match m {
                        Ok(m) => self.put_name(a, Some(n), Some(m)),
                        Err(e) => {
                            std::mem::forget(n);
                            return Err(e);
                        }
                    }
                }
                Err(e) => {
                    ck(!valid, "rejects_valid_name", 1, 0)?;
                    ck(e.name == TEXTS[t], "error_text", 0, 1)?;
                }
            },
            K::NewStatic => match Name::new_static(TEXTS[t]) {
                Ok(n) => {
                    ck(valid, "accepts_invalid_name", 0, 1)?;
                    self.put_name(a, Some(n), Some(MName { text: t, backing: None, loc: None }));
                }
                Err(e) => {
                    ck(!valid, "rejects_valid_name", 1, 0)?;
                    ck(e.name == TEXTS[t], "error_text", 0, 1)?;
                }
            },
            K::NewUnchecked => {
                let n = Name::new_unchecked(TEXTS[t]);
                match self.register_fresh(&n, t) {
                    Ok(m) => self.put_name(a, Some(n), Some(m)),
                    Err(e) => {
                        std::mem::forget(n);
                        return Err(e);
                    }
                }
            }
            K::NewStaticUnchecked => {
                let n = Name::new_static_unchecked(TEXTS[t]);
                self.put_name(a, Some(n), Some(MName { text: t, backing: None, loc: None }));
            }
            K::FromArc => {
                let bi = self.pick_backing(op.b);
                let arc = self.backings[bi].handles[0].clone();
                let n = Name::from_arc_unchecked(arc);
                let m = MName { text: self.backings[bi].text, backing: Some(bi), loc: None };
                self.inc(m);
                self.put_name(a, Some(n), Some(m));
            }
            K::TryFromArc => {
                let bi = self.pick_backing(op.b);
                let bt = self.backings[bi].text;
                let arc = self.backings[bi].handles[0].clone();
                match Name::try_from(arc) {
                    Ok(n) => {
                        let m = MName { text: bt, backing: Some(bi), loc: None };
                        self.inc(m);
                        self.put_name(a, Some(n), Some(m));
                        ck(bt < N_VALID, "accepts_invalid_name", 0, 1)?;
                    }
                    Err(e) => {
                        ck(bt >= N_VALID, "rejects_valid_name", 1, 0)?;
                        ck(e.name == TEXTS[bt], "error_text", 0, 1)?;
                    }
                }
            }
            K::Macro => {
                let tt = t % N_VALID;
                self.put_name(a, Some(macro_name(tt)), Some(MName { text: tt, backing: None, loc: None }));
            }
            K::Clone => {
                let (Some(n), Some(m)) = (&self.names[a], self.mnames[a]) else {
                    return Ok(false);
                };
                let c = if op.v & 1 == 0 { n.clone() } else { Name::from(n) };
                self.inc(m);
                self.put_name(b, Some(c), Some(m));
            }
            K::Drop => {
                if self.names[a].is_none() {
                    return Ok(false);
                }
                self.put_name(a, None, None);
            }
            K::WithLocation => {
                let (Some(n), Some(mut m)) = (self.names[a].take(), self.mnames[a]) else {
                    return Ok(false);
                };
                let l = name_loc(op.f, op.s, n.len());
                let n = n.with_location(span(l));
                m.loc = Some(l);
                self.names[a] = Some(n);
                self.mnames[a] = Some(m);
            }
            K::Location | K::AsStr | K::AsStaticStr => {
                let (Some(n), Some(m)) = (&self.names[a], &self.mnames[a]) else {
                    return Ok(false);
                };
                self.observe_name(n, m)?;
                // the Deref/AsRef/Borrow/Display views are the same text
                let text = TEXTS[m.text];
                let d: &str = n;
                ck(d == text, "deref_text", 0, 1)?;
                ck(<Name as AsRef<str>>::as_ref(n) == text, "asref_text", 0, 1)?;
                ck(<Name as std::borrow::Borrow<str>>::borrow(n) == text, "borrow_text", 0, 1)?;
            }
            K::ToClonedArc => {
                let (Some(n), Some(m)) = (&self.names[a], self.mnames[a]) else {
                    return Ok(false);
                };
                match (n.to_cloned_arc(), m.backing) {
                    (None, None) => {}
                    (Some(h), Some(bi)) => {
                        let same = Arc::ptr_eq(&h, &self.backings[bi].handles[0]);
                        if !same {
                            std::mem::forget(h);
                            return Err(("arc_identity", 1, 0));
                        }
                        self.backings[bi].handles.push(h);
                    }
                    (Some(h), None) => {
                        std::mem::forget(h);
                        return Err(("to_cloned_arc_some_for_static", 0, 1));
                    }
                    (None, Some(_)) => return Err(("to_cloned_arc_none_for_heap_name", 1, 0)),
                }
            }
            K::DropHandle => {
                let bi = self.pick_backing(op.b);
                if self.backings[bi].handles.len() < 2 {
                    return Ok(false);
                }
                self.backings[bi].handles.pop();
            }
            K::IntoArc => {
                let (Some(n), Some(m)) = (self.names[a].take(), self.mnames[a].take()) else {
                    return Ok(false);
                };
                let arc: Arc<str> = n.into();
                match m.backing {
                    Some(bi) => {
                        // the name gave up its count, the returned Arc holds one
                        self.backings[bi].live = self.backings[bi].live.saturating_sub(1);
                        if self.backings[bi].handles.is_empty() {
                            return Err(("harness_backing_without_handle", 1, 0));
                        }
                        let same = Arc::ptr_eq(&arc, &self.backings[bi].handles[0]);
                        if !same {
                            std::mem::forget(arc);
                            return Err(("arc_identity", 1, 0));
                        }
                        self.backings[bi].handles.push(arc);
                    }
                    None => {
                        ck(&*arc == TEXTS[m.text], "text", 0, 1)?;
                        ck(Arc::strong_count(&arc) == 1, "fresh_arc_count", 1, Arc::strong_count(&arc) as i128)?;
                    }
                }
            }
            K::ToComponent => {
                let (Some(n), Some(m)) = (&self.names[a], self.mnames[a]) else {
                    return Ok(false);
                };
                let c: ComponentName = if op.v & 1 == 0 {
                    n.to_component(ComponentOrigin::Definition)
                } else {
                    ComponentName::from(n)
                };
                self.inc(m);
                let ComponentName { name, origin } = c;
                let is_def = matches!(origin, ComponentOrigin::Definition);
                self.put_name(b, Some(name), Some(m));
                ck(is_def, "component_origin", 1, 0)?;
            }
            K::SetInsert => {
                let (Some(n), Some(m)) = (&self.names[a], self.mnames[a]) else {
                    return Ok(false);
                };
                let c = n.clone();
                let inserted = self.set.insert(c);
                let want = self.mset[m.text].is_none();
                if inserted {
                    // whatever the model says, the set now owns a clone
                    self.inc(m);
                    if want {
                        self.mset[m.text] = Some(m);
                    }
                }
                ck(inserted == want, "set_insert", want as i128, inserted as i128)?;
            }
            K::SetLookup => {
                let got = self.set.get(TEXTS[t]);
                ck(got.is_some() == self.mset[t].is_some(), "set_lookup", self.mset[t].is_some() as i128, got.is_some() as i128)?;
                if let (Some(n), Some(m)) = (got, &self.mset[t]) {
                    self.observe_name(n, m)?;
                }
                if let (Some(n), Some(m)) = (&self.names[a], &self.mnames[a]) {
                    let want = self.mset[m.text].is_some();
                    ck(self.set.contains(n) == want, "set_contains", want as i128, !want as i128)?;
                }
            }
            K::SetRemove => {
                let got = self.set.take(TEXTS[t]);
                let want = self.mset[t].take();
                match (got, want) {
                    (None, None) => return Ok(false),
                    (Some(n), Some(m)) => {
                        let r = self.observe_name(&n, &m);
                        if r.is_err() {
                            std::mem::forget(n);
                            return r.map(|_| true);
                        }
                        self.dec(m);
                        drop(n);
                    }
                    (Some(n), None) => {
                        std::mem::forget(n);
                        return Err(("set_remove", 0, 1));
                    }
                    (None, Some(_)) => return Err(("set_remove", 1, 0)),
                }
            }
            K::EqHash => {
                let (Some(x), Some(mx), Some(y), Some(my)) = (&self.names[a], &self.mnames[a], &self.names[b], &self.mnames[b]) else {
                    return Ok(false);
                };
                let same = mx.text == my.text;
                ck((x == y) == same, "eq", same as i128, !same as i128)?;
                ck((hash_of(x) == hash_of(y)) == same, "hash", same as i128, !same as i128)?;
                ck(hash_of(x) == hash_of(TEXTS[mx.text]), "hash_borrow_str", 0, 1)?;
                ck(*x == TEXTS[mx.text], "eq_str", 1, 0)?;
                ck(x.cmp(y) == TEXTS[mx.text].cmp(TEXTS[my.text]), "ord", 0, 1)?;
            }
            K::NodeNew | K::NodeNewParsed => {
                let (pname, pm) = match (&self.names[b], self.mnames[b]) {
                    (Some(n), Some(m)) if op.t & 1 == 0 => (Some(n.clone()), Some(m)),
                    _ => (None, None),
                };
                if let Some(m) = pm {
                    self.inc(m);
                }
                let p = Payload::new(op.v, pname);
                let (node, loc) = if op.k == K::NodeNewParsed {
                    let l = Loc { file: op.f, start: op.s.min(u32::MAX - 1000), end: op.s.min(u32::MAX - 1000) + op.v };
                    (Node::new_parsed(p, span(l)), Some(l))
                } else if op.s & 1 == 0 {
                    (Node::new(p), None)
                } else {
                    (Node::from(p), None)
                };
                let g = self.new_group(Group { refs: 1, loc, body: Body::Val { v: op.v, name: pm } });
                self.put_node(a, Some(NodeObj::Val(node)), Some(g));
            }
            K::NodeNewStr | K::NodeNewStrParsed => {
                let (node, loc) = if op.k == K::NodeNewStrParsed {
                    let l = Loc { file: op.f, start: op.s.min(u32::MAX - 1000), end: op.s.min(u32::MAX - 1000) + op.v };
                    (Node::new_str_parsed(TEXTS[t], span(l)), Some(l))
                } else {
                    (Node::new_str(TEXTS[t]), None)
                };
                let g = self.new_group(Group { refs: 1, loc, body: Body::Str { text: t } });
                self.put_node(a, Some(NodeObj::Str(node)), Some(g));
            }
            K::NodeClone => {
                let (Some(n), Some(g)) = (&self.nodes[a], self.mnodes[a]) else {
                    return Ok(false);
                };
                let c = match n {
                    NodeObj::Val(n) => NodeObj::Val(n.clone()),
                    NodeObj::Str(n) => NodeObj::Str(n.clone()),
                };
                self.groups[g].as_mut().unwrap().refs += 1;
                self.put_node(b, Some(c), Some(g));
            }
            K::NodeDrop => {
                if self.nodes[a].is_none() {
                    return Ok(false);
                }
                self.put_node(a, None, None);
            }
            K::NodeMakeMut => {
                let (Some(NodeObj::Val(_)), Some(g)) = (&self.nodes[a], self.mnodes[a]) else {
                    return Ok(false);
                };
                let grp = self.groups[g].unwrap();
                // model: copy-on-write when shared
                let g2 = if grp.refs > 1 {
                    self.groups[g].as_mut().unwrap().refs -= 1;
                    if let Body::Val { name: Some(m), .. } = grp.body {
                        self.inc(m); // the payload clone clones its name
                    }
                    let g2 = self.new_group(Group { refs: 1, ..grp });
                    self.mnodes[a] = Some(g2);
                    g2
                } else {
                    g
                };
                // optionally also replace the payload's name by a clone of slot b's
                let repl = match (&self.names[b], self.mnames[b]) {
                    (Some(n), Some(m)) if op.t & 1 == 1 => Some((n.clone(), m)),
                    _ => None,
                };
                let Some(NodeObj::Val(node)) = &mut self.nodes[a] else { unreachable!() };
                let p = node.make_mut();
                p.v = op.v;
                let mut old_name = None;
                let mut new_m = None;
                if let Some((n, m)) = repl {
                    old_name = p.name.replace(n);
                    new_m = Some(m);
                }
                drop(old_name);
                let mut old_m = None;
                {
                    let Some(Group { body: Body::Val { v, name }, .. }) = self.groups[g2].as_mut() else { unreachable!() };
                    *v = op.v;
                    if let Some(m) = new_m {
                        old_m = name.replace(m);
                    }
                }
                if let Some(m) = new_m {
                    self.inc(m);
                    if let Some(o) = old_m {
                        self.dec(o);
                    }
                }
            }
            K::NodeGetMut => {
                let (Some(_), Some(g)) = (&self.nodes[a], self.mnodes[a]) else {
                    return Ok(false);
                };
                let refs = self.groups[g].unwrap().refs;
                match self.nodes[a].as_mut().unwrap() {
                    NodeObj::Val(node) => match node.get_mut() {
                        Some(p) => {
                            if refs != 1 {
                                return Err(("get_mut_some_while_shared", 1, refs as i128));
                            }
                            p.v = op.v;
                            let Some(Group { body: Body::Val { v, .. }, .. }) = self.groups[g].as_mut() else { unreachable!() };
                            *v = op.v;
                        }
                        None => ck(refs > 1, "get_mut_none_while_unique", 1, refs as i128)?,
                    },
                    NodeObj::Str(node) => match node.get_mut() {
                        Some(_) => ck(refs == 1, "get_mut_some_while_shared", 1, refs as i128)?,
                        None => ck(refs > 1, "get_mut_none_while_unique", 1, refs as i128)?,
                    },
                }
            }
            K::NodePtrEq | K::NodeEq => {
                let (Some(x), Some(gx), Some(y), Some(gy)) = (&self.nodes[a], self.mnodes[a], &self.nodes[b], self.mnodes[b]) else {
                    return Ok(false);
                };
                let same_alloc = gx == gy;
                let (bx, by) = (self.groups[gx].unwrap().body, self.groups[gy].unwrap().body);
                match (x, y) {
                    (NodeObj::Val(x), NodeObj::Val(y)) => {
                        ck(x.ptr_eq(y) == same_alloc, "ptr_eq", same_alloc as i128, !same_alloc as i128)?;
                        let (Body::Val { v: vx, name: nx }, Body::Val { v: vy, name: ny }) = (bx, by) else { unreachable!() };
                        let eq = vx == vy && nx.map(|m| m.text) == ny.map(|m| m.text);
                        ck((x == y) == eq, "node_eq", eq as i128, !eq as i128)?;
                        if eq {
                            ck(hash_of(x) == hash_of(y), "node_hash", 0, 1)?;
                        }
                    }
                    (NodeObj::Str(x), NodeObj::Str(y)) => {
                        ck(x.ptr_eq(y) == same_alloc, "ptr_eq", same_alloc as i128, !same_alloc as i128)?;
                        let eq = bx == by;
                        ck((x == y) == eq, "node_eq", eq as i128, !eq as i128)?;
                        ck((hash_of(x) == hash_of(y)) == eq, "node_hash", 0, 1)?;
                    }
                    _ => return Ok(false),
                }
            }
            K::NodeSameLocation => {
                let (Some(n), Some(g)) = (&self.nodes[a], self.mnodes[a]) else {
                    return Ok(false);
                };
                let p = Payload::new(op.v, None);
                let node = match n {
                    NodeObj::Val(n) => n.same_location(p),
                    NodeObj::Str(n) => n.same_location(p),
                };
                let loc = self.groups[g].unwrap().loc;
                let g2 = self.new_group(Group { refs: 1, loc, body: Body::Val { v: op.v, name: None } });
                self.put_node(b, Some(NodeObj::Val(node)), Some(g2));
            }
            K::NodeToComponent => {
                let (Some(n), Some(g)) = (&self.nodes[a], self.mnodes[a]) else {
                    return Ok(false);
                };
                let c = match n {
                    NodeObj::Val(n) => NodeObj::Val(n.to_component(ComponentOrigin::Definition).node),
                    NodeObj::Str(n) => NodeObj::Str(n.to_component(ComponentOrigin::Definition).node),
                };
                self.groups[g].as_mut().unwrap().refs += 1;
                self.put_node(b, Some(c), Some(g));
            }
        }
        Ok(true)
    }

    /// Drop the whole pool and check that every count returns to the harness's own handles.
    fn teardown(mut self) -> Chk {
        for i in 0..SLOTS {
            self.put_name(i, None, None);
            self.put_node(i, None, None);
        }
        for m in self.mset {
            if let Some(m) = m {
                self.dec(m);
            }
        }
        self.mset = [None; 4];
        self.set = HashSet::new();
        let r = (|| {
            ck(live_payloads() == self.payload_base, "payload_live_after_drop", 0, (live_payloads() - self.payload_base) as i128)?;
            for b in &self.backings {
                ck(b.live == 0, "harness_model_live_after_drop", 0, b.live as i128)?;
                if let Some(h) = b.handles.first() {
                    ck(Arc::strong_count(h) == b.handles.len(), "strong_count_after_drop", b.handles.len() as i128, Arc::strong_count(h) as i128)?;
                }
            }
            Ok(())
        })();
        if r.is_err() {
            std::mem::forget(self);
        }
        r
    }
}

#[derive(Clone, Copy, Debug, Default)]
pub struct Outcome {
    pub fail: Option<Fail>,
    pub executed: u32,
    pub skipped: u32,
    /// bit i set: operation kind i executed (not skipped) at least once
    pub kinds: u64,
    /// largest number of live names sharing one backing
    pub max_sharing: u32,
}

/// Run one single-threaded history. Allocates and frees everything inside; the result is `Copy`.
pub fn exec_history(ops: &[Op]) -> Outcome {
    exec_history_opt(ops, false)
}

pub fn exec_history_opt(ops: &[Op], light: bool) -> Outcome {
    let mut w = World::new();
    w.light = light;
    let mut out = Outcome::default();
    for (i, op) in ops.iter().enumerate() {
        let r = w.step(op).and_then(|ex| w.observe_all().map(|_| ex));
        match r {
            Ok(true) => {
                out.executed += 1;
                out.kinds |= 1 << (op.k as u64);
            }
            Ok(false) => out.skipped += 1,
            Err((inv, want, got)) => {
                out.fail = Some(Fail { step: i, op: op.k.name(), inv, want, got });
                if keep_going() {
                    // sanitizer variants: let the tool see what the rest of the history and the
                    // destructors do; the model's later observations are meaningless and ignored
                    for op in &ops[i + 1..] {
                        let _ = w.step(op);
                    }
                    drop(w);
                    return out;
                }
                // The heap can no longer be trusted (a count is off, or a tag is wrong): do not
                // run any more destructors of the pool.
                std::mem::forget(w);
                return out;
            }
        }
    }
    out.max_sharing = w.max_strong as u32;
    if light {
        if let Err((inv, want, got)) = w.observe_pool() {
            out.fail = Some(Fail { step: ops.len(), op: "final_observation", inv, want, got });
            std::mem::forget(w);
            return out;
        }
    }
    if let Err((inv, want, got)) = w.teardown() {
        out.fail = Some(Fail { step: ops.len(), op: "drop_pool", inv, want, got });
    }
    out
}

/// `exec_history` inside an allocation-accounting window. A mismatch is re-measured twice more on
/// the same history and only reported when the live bytes move again by the same non-zero amount
/// each time (a one-off lazy initialisation somewhere cannot look like a leak).
pub fn exec_history_accounted(ops: &[Op], light: bool) -> (Outcome, Option<(isize, isize)>) {
    let base = alloc_count::live_bytes();
    let out = exec_history_opt(ops, light);
    let after = alloc_count::live_bytes();
    if out.fail.is_some() || after == base {
        return (out, None);
    }
    let d1 = after - base;
    let o2 = exec_history(ops);
    let after2 = alloc_count::live_bytes();
    let o3 = exec_history(ops);
    let after3 = alloc_count::live_bytes();
    if o2.fail.is_none() && o3.fail.is_none() && after2 - after == d1 && after3 - after2 == d1 {
        return (out, Some((base, after)));
    }
    (out, None)
}

fn st_signature(f: &Fail) -> String {
    format!("c30|st|{}|{}", f.op, f.inv)
}

/// Greedy reduction keeping the signature: cut after the failing step, then drop single operations.
fn minimise(ops: &[Op], sig: &str, budget: usize) -> Vec<Op> {
    let mut cur: Vec<Op> = ops.to_vec();
    let mut runs = 0;
    let fails_same = |h: &[Op]| -> Option<usize> {
        match rt::catch(|| exec_history(h)) {
            Ok(Outcome { fail: Some(f), .. }) if st_signature(&f) == sig => Some(f.step),
            _ => None,
        }
    };
    if let Some(step) = fails_same(&cur) {
        cur.truncate((step + 1).min(cur.len()));
    } else {
        return cur;
    }
    let mut i = 0;
    while i < cur.len() && runs < budget {
        let mut cand = cur.clone();
        cand.remove(i);
        runs += 1;
        if !cand.is_empty() && fails_same(&cand).is_some() {
            cur = cand;
        } else {
            i += 1;
        }
    }
    cur
}

/// Judge one single-threaded history (used by `run` and `replay`). Returns false when the monitor
/// must stop running histories in this process (a count or tag was observed wrong).
pub fn check_history(ctx: &mut Ctx, ops: &[Op], source: &str) -> bool {
    ctx.eval();
    if ctx.mode != "miri" {
        ctx.inflight("C30", history_string(ops).as_bytes());
    }
    let light = ctx.mode == "miri";
    let r = rt::catch(|| exec_history_accounted(ops, light));
    match r {
        Err(p) => {
            let sig = format!("c30|st|{}", p.signature("history"));
            ctx.violation(
                sig,
                format!("panic while running a Name/Node history: {} at {}:{}", p.message, p.file, p.line),
                history_json(ops),
            );
            ctx.count("st_histories_panicked", 1);
            true
        }
        Ok((out, leak)) => {
            ctx.count("st_histories", 1);
            ctx.count("st_ops_executed", out.executed as u64);
            ctx.count("st_ops_skipped", out.skipped as u64);
            ctx.count("st_count_checks_steps", (out.executed + out.skipped) as u64);
            ctx.count("st_leak_checks", 1);
            ctx.count_max("st_names_sharing_one_arc", out.max_sharing as u64);
            for (k, name) in KINDS {
                if out.kinds & (1 << (*k as u64)) != 0 && !ctx.has_class("op", name) {
                    ctx.class("op", name);
                }
            }
            if !ctx.has_class("phase", "single_thread") {
                ctx.class("phase", "single_thread");
            }
            if !ctx.has_class("source", source) {
                ctx.class("source", source);
            }
            if out.max_sharing >= 3 {
                ctx.nontrivial_hash(history_hash(ops));
            }
            if let Some((base, after)) = leak {
                ctx.violation(
                    "c30|st|drop_pool|live_bytes",
                    format!(
                        "live heap bytes after dropping the whole pool differ from the baseline by {} (re-measured twice, same growth each time)",
                        after - base
                    ),
                    history_json(ops),
                );
            }
            if let Some(f) = out.fail {
                let sig = st_signature(&f);
                let small = if ctx.replay_mode || keep_going() { ops.to_vec() } else { minimise(ops, &sig, 300) };
                ctx.violation(
                    sig,
                    format!(
                        "after operation #{} `{}`: invariant `{}` failed (expected {}, observed {}); history of {} operations, minimised to {}",
                        f.step, f.op, f.inv, f.want, f.got, ops.len(), small.len()
                    ),
                    history_json(&small),
                );
                return false;
            }
            true
        }
    }
}

// ---------------------------------------------------------------------------------------------
// Multi-threaded histories
// ---------------------------------------------------------------------------------------------

/// A name travelling between threads together with what it must read back as.
struct Item {
    name: Name,
    text: usize,
    is_static: bool,
    loc: Option<Loc>,
}

struct NItem {
    node: Node<Payload>,
    v: u32,
    loc: Option<Loc>,
    name_text: Option<usize>,
}

enum Msg {
    N(Item),
    D(NItem),
}

#[derive(Clone, Copy, Debug)]
pub struct MtCase {
    pub threads: usize,
    pub rounds: usize,
    pub ops: usize,
    pub stream: u64,
}

impl MtCase {
    pub fn to_json(&self) -> Value {
        json!({"kind": "mt", "threads": self.threads, "rounds": self.rounds, "ops": self.ops, "stream": self.stream})
    }
    pub fn from_json(v: &Value) -> Option<MtCase> {
        Some(MtCase {
            threads: v.get("threads")?.as_u64()? as usize,
            rounds: v.get("rounds")?.as_u64()? as usize,
            ops: v.get("ops")?.as_u64()? as usize,
            stream: v.get("stream")?.as_u64()?,
        })
    }
}

fn check_item(it: &Item, op: &'static str, step: usize) -> Result<(), Fail> {
    let f = |inv, want: i128, got: i128| Fail { step, op, inv, want, got };
    let text = TEXTS[it.text];
    if it.name.as_str() != text {
        return Err(f("text", 0, 1));
    }
    let got = read_loc(it.name.location());
    let want = name_expected_loc(it.loc);
    if got != want {
        return Err(f(
            "location",
            want.map(|w| w.file as i128).unwrap_or(-1),
            got.map(|g| g.file as i128).unwrap_or(-1),
        ));
    }
    if it.name.as_static_str().is_some() != it.is_static {
        return Err(f("static_flag", it.is_static as i128, !it.is_static as i128));
    }
    Ok(())
}

fn check_nitem(it: &NItem, op: &'static str, step: usize) -> Result<(), Fail> {
    let f = |inv, want: i128, got: i128| Fail { step, op, inv, want, got };
    if it.node.v != it.v {
        return Err(f("node_value_changed", it.v as i128, it.node.v as i128));
    }
    if read_loc(it.node.location()) != it.loc {
        return Err(f("node_location", 0, 1));
    }
    match (&it.node.name, it.name_text) {
        (None, None) => {}
        (Some(n), Some(t)) => {
            if n.as_str() != TEXTS[t] {
                return Err(f("node_name_text", 0, 1));
            }
        }
        _ => return Err(f("node_name_presence", 0, 1)),
    }
    Ok(())
}

#[derive(Default)]
struct ThreadOut {
    items: Vec<Item>,
    nitems: Vec<NItem>,
    fail: Option<Fail>,
    panic: Option<rt::PanicReport>,
    ops: u64,
    sent: u64,
    received: u64,
    kinds: u64,
}

const MT_OPS: &[&str] = &[
    "mt_from_handle", "mt_static", "mt_new", "mt_clone", "mt_drop", "mt_with_location", "mt_check", "mt_to_cloned_arc",
    "mt_into_arc", "mt_send", "mt_send_clone", "mt_recv", "mt_node_new", "mt_node_clone", "mt_node_send_clone",
    "mt_node_make_mut", "mt_node_get_mut", "mt_node_drop", "mt_set",
];

#[allow(clippy::too_many_arguments)]
fn thread_body(
    me: usize,
    nthreads: usize,
    nops: usize,
    mut rng: Rng,
    handles: &[Arc<str>; N_VALID],
    mut items: Vec<Item>,
    mut nitems: Vec<NItem>,
    rx: mpsc::Receiver<Msg>,
    txs: Vec<mpsc::Sender<Msg>>,
    barrier: &Barrier,
) -> ThreadOut {
    let mut out = ThreadOut::default();
    let mut set: HashSet<Name> = HashSet::new();
    barrier.wait();
    let mut step = 0usize;
    let r: Result<Result<(), Fail>, rt::PanicReport> = rt::catch(|| {
        while step < nops {
            step += 1;
            let k = rng.below(MT_OPS.len());
            let op = MT_OPS[k];
            let fl = |inv, want: i128, got: i128| Fail { step, op, inv, want, got };
            let mut executed = true;
            match op {
                "mt_from_handle" => {
                    let t = rng.below(N_VALID);
                    let n = Name::from_arc_unchecked(handles[t].clone());
                    items.push(Item { name: n, text: t, is_static: false, loc: None });
                }
                "mt_static" => {
                    let t = rng.below(N_VALID);
                    let n = if rng.bool() { macro_name(t) } else { Name::new_static_unchecked(TEXTS[t]) };
                    items.push(Item { name: n, text: t, is_static: true, loc: None });
                }
                "mt_new" => {
                    let t = rng.below(N_VALID);
                    match Name::new(TEXTS[t]) {
                        Ok(n) => items.push(Item { name: n, text: t, is_static: false, loc: None }),
                        Err(_) => return Err(fl("rejects_valid_name", 1, 0)),
                    }
                }
                "mt_clone" if !items.is_empty() => {
                    let i = rng.below(items.len());
                    let it = &items[i];
                    let c = Item { name: it.name.clone(), text: it.text, is_static: it.is_static, loc: it.loc };
                    items.push(c);
                }
                "mt_drop" if !items.is_empty() => {
                    let i = rng.below(items.len());
                    let it = items.swap_remove(i);
                    check_item(&it, op, step)?;
                    drop(it);
                }
                "mt_with_location" if !items.is_empty() => {
                    let i = rng.below(items.len());
                    let it = items.swap_remove(i);
                    let l = name_loc(sample_file_id(&mut rng), sample_start(&mut rng), it.name.len());
                    let n = it.name.with_location(span(l));
                    items.push(Item { name: n, text: it.text, is_static: it.is_static, loc: Some(l) });
                }
                "mt_check" if !items.is_empty() => {
                    let i = rng.below(items.len());
                    check_item(&items[i], op, step)?;
                }
                "mt_to_cloned_arc" if !items.is_empty() => {
                    let i = rng.below(items.len());
                    let it = &items[i];
                    match it.name.to_cloned_arc() {
                        Some(a) => {
                            if it.is_static {
                                std::mem::forget(a);
                                return Err(fl("to_cloned_arc_some_for_static", 0, 1));
                            }
                            if &*a != TEXTS[it.text] {
                                return Err(fl("text", 0, 1));
                            }
                            // a shared backing is one of the harness handles or a private `Name::new`
                            let c = Arc::strong_count(&a);
                            if c < 2 {
                                return Err(fl("strong_count_below_holders", 2, c as i128));
                            }
                        }
                        None => {
                            if !it.is_static {
                                return Err(fl("to_cloned_arc_none_for_heap_name", 1, 0));
                            }
                        }
                    }
                }
                "mt_into_arc" if !items.is_empty() => {
                    let i = rng.below(items.len());
                    let it = items.swap_remove(i);
                    let t = it.text;
                    let a: Arc<str> = it.name.into();
                    if &*a != TEXTS[t] {
                        return Err(fl("text", 0, 1));
                    }
                }
                "mt_send" | "mt_send_clone" if !items.is_empty() && nthreads > 1 => {
                    let i = rng.below(items.len());
                    let mut j = rng.below(nthreads - 1);
                    if j >= me {
                        j += 1;
                    }
                    let it = if op == "mt_send" {
                        items.swap_remove(i)
                    } else {
                        let it = &items[i];
                        Item { name: it.name.clone(), text: it.text, is_static: it.is_static, loc: it.loc }
                    };
                    // a send can only fail when the peer already finished: then the item comes back
                    if let Err(mpsc::SendError(Msg::N(it))) = txs[j].send(Msg::N(it)) {
                        items.push(it);
                    } else {
                        out.sent += 1;
                    }
                }
                "mt_recv" => {
                    for _ in 0..4 {
                        match rx.try_recv() {
                            Ok(Msg::N(it)) => {
                                out.received += 1;
                                check_item(&it, op, step)?;
                                items.push(it);
                            }
                            Ok(Msg::D(it)) => {
                                out.received += 1;
                                check_nitem(&it, op, step)?;
                                nitems.push(it);
                            }
                            Err(_) => break,
                        }
                    }
                }
                "mt_node_new" => {
                    let with_name = rng.bool() && !NO_NAMES_IN_SHARED_NODES.load(Ordering::Relaxed);
                    let (pn, pt) = if !items.is_empty() && with_name {
                        let i = rng.below(items.len());
                        (Some(items[i].name.clone()), Some(items[i].text))
                    } else {
                        (None, None)
                    };
                    let v = rng.next_u32() % 1000;
                    let (node, loc) = if rng.bool() {
                        let s = sample_start(&mut rng).min(u32::MAX - 1000);
                        let l = Loc { file: sample_file_id(&mut rng), start: s, end: s + v };
                        (Node::new_parsed(Payload::new(v, pn), span(l)), Some(l))
                    } else {
                        (Node::new(Payload::new(v, pn)), None)
                    };
                    nitems.push(NItem { node, v, loc, name_text: pt });
                }
                "mt_node_clone" if !nitems.is_empty() => {
                    let i = rng.below(nitems.len());
                    let it = &nitems[i];
                    let c = NItem { node: it.node.clone(), v: it.v, loc: it.loc, name_text: it.name_text };
                    nitems.push(c);
                }
                "mt_node_send_clone" if !nitems.is_empty() && nthreads > 1 => {
                    let i = rng.below(nitems.len());
                    let mut j = rng.below(nthreads - 1);
                    if j >= me {
                        j += 1;
                    }
                    let it = &nitems[i];
                    let c = NItem { node: it.node.clone(), v: it.v, loc: it.loc, name_text: it.name_text };
                    if let Err(mpsc::SendError(Msg::D(c))) = txs[j].send(Msg::D(c)) {
                        nitems.push(c);
                    } else {
                        out.sent += 1;
                    }
                }
                "mt_node_make_mut" if !nitems.is_empty() => {
                    let i = rng.below(nitems.len());
                    let v = rng.next_u32() % 1000;
                    let it = &mut nitems[i];
                    check_nitem(it, op, step)?;
                    it.node.make_mut().v = v;
                    it.v = v;
                    // every other clone this thread holds must be unchanged
                    for it in &nitems {
                        check_nitem(it, op, step)?;
                    }
                }
                "mt_node_get_mut" if !nitems.is_empty() => {
                    let i = rng.below(nitems.len());
                    let shared_here = (0..nitems.len()).any(|j| j != i && nitems[j].node.ptr_eq(&nitems[i].node));
                    let v = rng.next_u32() % 1000;
                    let it = &mut nitems[i];
                    if let Some(p) = it.node.get_mut() {
                        if shared_here {
                            return Err(fl("get_mut_some_while_shared", 0, 1));
                        }
                        p.v = v;
                        it.v = v;
                    }
                }
                "mt_node_drop" if !nitems.is_empty() => {
                    let i = rng.below(nitems.len());
                    let it = nitems.swap_remove(i);
                    check_nitem(&it, op, step)?;
                    drop(it);
                }
                "mt_set" if !items.is_empty() => {
                    let i = rng.below(items.len());
                    let t = items[i].text;
                    let had = set.contains(TEXTS[t]);
                    if rng.bool() {
                        let ins = set.insert(items[i].name.clone());
                        if ins == had {
                            return Err(fl("set_insert", !had as i128, ins as i128));
                        }
                    } else {
                        let rem = set.take(TEXTS[t]);
                        if rem.is_some() != had {
                            return Err(fl("set_remove", had as i128, rem.is_some() as i128));
                        }
                    }
                }
                _ => executed = false,
            }
            if executed {
                out.ops += 1;
                out.kinds |= 1 << k;
            }
            // keep the local pools small: few keys, much sharing
            while items.len() > SLOTS {
                let i = rng.below(items.len());
                let it = items.swap_remove(i);
                check_item(&it, "mt_drop", step)?;
            }
            while nitems.len() > SLOTS {
                let i = rng.below(nitems.len());
                let it = nitems.swap_remove(i);
                check_nitem(&it, "mt_node_drop", step)?;
            }
        }
        Ok(())
    });
    // Hang up, then take everything still in flight towards this thread: nothing is lost in a
    // channel, so the join-point count sees every live name.
    drop(txs);
    barrier.wait(); // every thread has dropped its senders: the receiver below terminates
    for m in rx.try_iter() {
        match m {
            Msg::N(it) => items.push(it),
            Msg::D(it) => nitems.push(it),
        }
    }
    for n in set.drain() {
        let t = TEXTS.iter().position(|t| *t == n.as_str()).unwrap_or(0);
        let is_static = n.as_static_str().is_some();
        let loc = read_loc(n.location());
        items.push(Item { name: n, text: t, is_static, loc });
    }
    match r {
        Ok(Ok(())) => {}
        Ok(Err(f)) => out.fail = Some(f),
        Err(p) => {
            out.fail = Some(Fail { step, op: "mt_thread", inv: "panic", want: 0, got: 1 });
            out.panic = Some(p);
        }
    }
    out.items = items;
    out.nitems = nitems;
    out
}

#[derive(Default, Debug, Clone, Copy)]
pub struct MtStats {
    pub thread_ops: u64,
    pub sent: u64,
    pub received: u64,
    pub joins: u64,
    pub count_checks: u64,
    pub kinds: u64,
    pub max_live_at_join: u64,
}

/// One multi-threaded history: `rounds` rounds of `threads` threads × `ops` operations; counts are
/// checked at every join point by inspecting the surviving names.
pub fn exec_mt(c: &MtCase) -> (MtStats, Option<Fail>, Option<rt::PanicReport>) {
    let mut panic: Option<rt::PanicReport> = None;
    let mut st = MtStats::default();
    let handles: [Arc<str>; N_VALID] = [Arc::from(TEXTS[0]), Arc::from(TEXTS[1]), Arc::from(TEXTS[2])];
    let payload_base = live_payloads();
    let mut items: Vec<Item> = Vec::new();
    let mut nitems: Vec<NItem> = Vec::new();
    let mut fail: Option<Fail> = None;
    'rounds: for round in 0..c.rounds {
        let barrier = Barrier::new(c.threads);
        let mut txs = Vec::new();
        let mut rxs = Vec::new();
        for _ in 0..c.threads {
            let (tx, rx) = mpsc::channel::<Msg>();
            txs.push(tx);
            rxs.push(rx);
        }
        // deal the surviving pool round-robin
        let mut pools: Vec<(Vec<Item>, Vec<NItem>)> = (0..c.threads).map(|_| (Vec::new(), Vec::new())).collect();
        for (i, it) in items.drain(..).enumerate() {
            pools[i % c.threads].0.push(it);
        }
        for (i, it) in nitems.drain(..).enumerate() {
            pools[(i + 1) % c.threads].1.push(it);
        }
        let outs: Vec<ThreadOut> = std::thread::scope(|s| {
            let mut hs = Vec::new();
            for (t, (rx, (its, nits))) in rxs.into_iter().zip(pools).enumerate() {
                let txs = txs.clone();
                let rng = Rng::new(c.stream ^ ((round as u64) << 32) ^ ((t as u64 + 1).wrapping_mul(0x9E37_79B9_7F4A_7C15)));
                let (handles, barrier) = (&handles, &barrier);
                hs.push(s.spawn(move || thread_body(t, c.threads, c.ops, rng, handles, its, nits, rx, txs, barrier)));
            }
            drop(txs);
            hs.into_iter().map(|h| h.join().expect("harness: C30 worker thread panicked")).collect()
        });
        st.joins += 1;
        for o in outs {
            st.thread_ops += o.ops;
            st.sent += o.sent;
            st.received += o.received;
            st.kinds |= o.kinds;
            if fail.is_none() {
                fail = o.fail;
            }
            if panic.is_none() {
                panic = o.panic;
            }
            items.extend(o.items);
            nitems.extend(o.nitems);
        }
        if fail.is_some() {
            break 'rounds;
        }
        // ---- join point: everything is quiescent; count live names by inspection ----
        let fl = |inv, want: i128, got: i128| Fail { step: round, op: "mt_join", inv, want, got };
        for it in &items {
            if let Err(mut f) = check_item(it, "mt_join", round) {
                f.op = "mt_join";
                fail = Some(f);
                break 'rounds;
            }
        }
        for it in &nitems {
            if let Err(f) = check_nitem(it, "mt_join", round) {
                fail = Some(f);
                break 'rounds;
            }
        }
        let mut live = [0usize; N_VALID];
        let mut attribute = |n: &Name| {
            if let Some(a) = n.to_cloned_arc() {
                for (b, h) in handles.iter().enumerate() {
                    if Arc::ptr_eq(&a, h) {
                        live[b] += 1;
                    }
                }
            }
        };
        for it in &items {
            attribute(&it.name);
        }
        let mut distinct_payloads = 0isize;
        for (i, it) in nitems.iter().enumerate() {
            if nitems[..i].iter().any(|p| p.node.ptr_eq(&it.node)) {
                continue;
            }
            distinct_payloads += 1;
            if let Some(n) = &it.node.name {
                attribute(n);
            }
        }
        for b in 0..N_VALID {
            st.count_checks += 1;
            let got = Arc::strong_count(&handles[b]);
            st.max_live_at_join = st.max_live_at_join.max(live[b] as u64);
            if got != live[b] + 1 {
                fail = Some(fl("strong_count", (live[b] + 1) as i128, got as i128));
                break 'rounds;
            }
        }
        let lp = live_payloads() - payload_base;
        if lp != distinct_payloads {
            fail = Some(fl("payload_live", distinct_payloads as i128, lp as i128));
            break 'rounds;
        }
    }
    if fail.is_some() && keep_going() {
        drop(items);
        drop(nitems);
        drop(handles);
        return (st, fail, panic);
    }
    if fail.is_some() {
        // counts or tags are off: run no more destructors on the pool
        std::mem::forget(items);
        std::mem::forget(nitems);
        std::mem::forget(handles);
        return (st, fail, panic);
    }
    drop(items);
    drop(nitems);
    let fl = |inv, want: i128, got: i128| Fail { step: c.rounds, op: "mt_drop_pool", inv, want, got };
    for h in &handles {
        st.count_checks += 1;
        let got = Arc::strong_count(h);
        if got != 1 {
            fail = Some(fl("strong_count_after_drop", 1, got as i128));
            std::mem::forget(handles);
            return (st, fail, panic);
        }
    }
    if live_payloads() != payload_base {
        fail = Some(fl("payload_live_after_drop", 0, (live_payloads() - payload_base) as i128));
    }
    (st, fail, panic)
}

/// Judge one multi-threaded history. Live-byte accounting: growth is reported only when three
/// consecutive executions of the same case each leave more bytes behind than the one before.
pub fn check_mt(ctx: &mut Ctx, c: &MtCase) -> bool {
    ctx.eval();
    if ctx.mode != "miri" {
        ctx.inflight("C30", c.to_json().to_string().as_bytes());
    }
    let base = alloc_count::live_bytes();
    let r = rt::catch(|| exec_mt(c));
    let after = alloc_count::live_bytes();
    let (st, fail) = match r {
        Ok((st, fail, None)) => (st, fail),
        Ok((_, _, Some(p))) | Err(p) => {
            ctx.violation(
                format!("c30|mt|{}", p.signature("history")),
                format!("panic while running a multi-threaded Name/Node history: {} at {}:{}", p.message, p.file, p.line),
                c.to_json(),
            );
            return true;
        }
    };
    ctx.count("mt_histories", 1);
    ctx.count("mt_thread_ops_executed", st.thread_ops);
    ctx.count("mt_items_sent", st.sent);
    ctx.count("mt_items_received", st.received);
    ctx.count("mt_join_points", st.joins);
    ctx.count("mt_count_checks", st.count_checks);
    ctx.count("mt_threads_spawned", (c.threads * st.joins as usize) as u64);
    ctx.count_max("mt_threads", c.threads as u64);
    ctx.count_max("mt_names_sharing_one_arc_at_join", st.max_live_at_join);
    ctx.class("phase", "multi_thread");
    ctx.class("mt_threads", &c.threads.to_string());
    for (i, name) in MT_OPS.iter().enumerate() {
        if st.kinds & (1 << i) != 0 {
            ctx.class("op", name);
        }
    }
    if st.sent > 0 && st.max_live_at_join >= 2 {
        ctx.nontrivial_hash(c.stream ^ ((c.threads as u64) << 56) ^ ((c.ops as u64) << 40));
    }
    if let Some(f) = fail {
        ctx.violation(
            format!("c30|mt|{}|{}", f.op, f.inv),
            format!(
                "multi-threaded history ({} threads, {} rounds, {} ops/thread): at `{}` (step/round {}) invariant `{}` failed (expected {}, observed {})",
                c.threads, c.rounds, c.ops, f.op, f.step, f.inv, f.want, f.got
            ),
            c.to_json(),
        );
        return false;
    }
    if after != base {
        ctx.count("mt_live_bytes_remeasured", 1);
        let mut prev = after;
        let mut grew = after > base;
        for _ in 0..2 {
            match rt::catch(|| exec_mt(c)) {
                Ok((_, None, None)) => {}
                _ => return true,
            }
            let now = alloc_count::live_bytes();
            grew = grew && now > prev;
            prev = now;
        }
        if grew {
            ctx.violation(
                "c30|mt|mt_drop_pool|live_bytes",
                format!(
                    "live heap bytes grow with every execution of the same multi-threaded history ({} -> {} over three executions) although the whole pool was dropped",
                    base, prev
                ),
                c.to_json(),
            );
        }
    } else {
        ctx.count("mt_leak_checks_exact", 1);
    }
    true
}

// ---------------------------------------------------------------------------------------------
// Driver
// ---------------------------------------------------------------------------------------------

/// Fixed histories that walk every constructor through clone / with_location / conversions / drop
/// at both ends of the file id range (quota: every operation kind is exercised by construction).
fn scripted_histories() -> Vec<Vec<Op>> {
    let mut out = Vec::new();
    let o = |k, a: u8, b: u8, t: u8, f: u64, s: u32, v: u32| Op { k, a, b, t, f, s, v };
    for ctor in [K::New, K::NewStatic, K::NewUnchecked, K::NewStaticUnchecked, K::FromArc, K::TryFromArc, K::Macro] {
        for &f in EDGE_FILE_IDS {
            for t in 0..N_VALID as u8 {
                let h = vec![
                    o(ctor, 0, t, t, f, 0, 0),
                    o(K::Clone, 0, 1, t, f, 0, 0),
                    o(K::WithLocation, 1, 0, t, f, u32::MAX, 0),
                    o(K::Clone, 1, 2, t, f, 0, 1),
                    o(K::Location, 2, 0, t, f, 0, 0),
                    o(K::AsStaticStr, 1, 0, t, f, 0, 0),
                    o(K::AsStr, 0, 0, t, f, 0, 0),
                    o(K::ToClonedArc, 2, 0, t, f, 0, 0),
                    o(K::EqHash, 0, 1, t, f, 0, 0),
                    o(K::SetInsert, 1, 0, t, f, 0, 0),
                    o(K::SetInsert, 0, 0, t, f, 0, 0),
                    o(K::SetLookup, 0, 0, t, f, 0, 0),
                    o(K::ToComponent, 1, 3, t, f, 0, 0),
                    o(K::NodeNewParsed, 0, 1, 0, f, 7, 3),
                    o(K::NodeClone, 0, 1, 0, f, 0, 0),
                    o(K::NodeGetMut, 0, 0, 0, f, 0, 5),
                    o(K::NodeMakeMut, 1, 2, 1, f, 0, 9),
                    o(K::NodePtrEq, 0, 1, 0, f, 0, 0),
                    o(K::NodeEq, 0, 1, 0, f, 0, 0),
                    o(K::NodeGetMut, 0, 0, 0, f, 0, 6),
                    o(K::NodeSameLocation, 0, 2, 0, f, 0, 4),
                    o(K::NodeToComponent, 2, 3, 0, f, 0, 0),
                    o(K::NodeNewStrParsed, 4, 0, t, f, 1, 2),
                    o(K::NodeClone, 4, 5, 0, f, 0, 0),
                    o(K::NodeGetMut, 4, 0, 0, f, 0, 0),
                    o(K::NodeNewStr, 6, 0, t, f, 0, 0),
                    o(K::NodeNew, 7, 2, 0, f, 0, 8),
                    o(K::IntoArc, 2, 0, t, f, 0, 0),
                    o(K::DropHandle, 0, t, t, f, 0, 0),
                    o(K::SetRemove, 0, 0, t, f, 0, 0),
                    o(K::Drop, 0, 0, t, f, 0, 0),
                    o(K::NodeDrop, 0, 0, 0, f, 0, 0),
                    o(K::WithLocation, 3, 0, t, 3, 0, 0),
                ];
                out.push(h);
            }
        }
    }
    out
}

fn mt_case(ctx: &Ctx, n: u64, small: bool) -> MtCase {
    let mut rng = ctx.sub_rng("c30-mt", n);
    MtCase {
        threads: if small { 3 } else { *rng.pick(&[2usize, 2, 3, 4, 4, 6, 8]) },
        rounds: if small { 2 } else { rng.range(1, 3) },
        ops: if small { rng.range(20, 40) } else { rng.range(20, 200) },
        stream: rng.next_u64(),
    }
}

pub fn run(ctx: &mut Ctx) {
    // Warm-up outside any accounting window (thread-locals of the runtime, PRNG, hash keys).
    KEEP_GOING.store(mode_has(ctx, "san") || ctx.mode == "miri", Ordering::Relaxed);
    if ctx.mode == "miri" {
        run_miri(ctx);
        return;
    }
    // Warm-up (thread-locals of the runtime, PRNG, hash keys) as an ordinary judged history, so
    // that a crash in it is attributed through the in-flight file like any other.
    let warm = gen_history(&mut Rng::new(1), 50);
    if !threads_only_mode(ctx) && !check_history(ctx, &warm, "warmup") {
        ctx.note("stopped_early", json!("a count/tag invariant failed; the heap is no longer trusted"));
        return;
    }
    NO_NAMES_IN_SHARED_NODES.store(mode_has(ctx, "tsan"), Ordering::Relaxed);
    ctx.note("texts", json!(TEXTS));
    ctx.note("edge_file_ids", json!(EDGE_FILE_IDS));
    let threads_only = threads_only_mode(ctx);

    if !threads_only {
        // Phase 0: scripted histories (every operation kind, every constructor x edge file id).
        for (i, h) in scripted_histories().iter().enumerate() {
            if ctx.mine(i as u64) && !check_history(ctx, h, "scripted") {
                ctx.note("stopped_early", json!("a count/tag invariant failed; the heap is no longer trusted"));
                return;
            }
        }
        // Phase 1: random single-threaded histories.
        let mut n = 0u64;
        while ctx.until(0.6) {
            n += 1;
            let mut rng = ctx.sub_rng("c30-st", n);
            let len = rng.range(20, 200);
            let h = gen_history(&mut rng, len);
            if !check_history(ctx, &h, "random") {
                ctx.note("stopped_early", json!("a count/tag invariant failed; the heap is no longer trusted"));
                return;
            }
            if n % 4096 == 1 {
                ctx.sample(|| json!({"kind": "st", "len": h.len(), "first_ops": h.iter().take(12).map(|o| o.to_json()).collect::<Vec<_>>()}));
            }
        }
    }
    // Phase 2: multi-threaded histories.
    let mut n = 0u64;
    while !ctx.time_up() {
        n += 1;
        let c = mt_case(ctx, n, false);
        if !check_mt(ctx, &c) {
            ctx.note("stopped_early", json!("a count/tag invariant failed; the heap is no longer trusted"));
            return;
        }
        if n % 256 == 1 {
            ctx.sample(|| c.to_json());
        }
    }
}

/// Small workload for Miri (no clock, no in-flight file, no parsing): 1-2 scripted histories,
/// 1-2 random 100-200 operation histories, one 3-thread history. `-Zmiri-many-seeds` runs the same
/// command line once per seed; the interpreter's seed decides the (virtual) address of a fresh heap
/// allocation, which is used here only as entropy so that different Miri seeds also run different
/// histories (the witness is the history itself, so a finding does not depend on reproducing it).
fn run_miri(ctx: &mut Ctx) {
    let probe = Box::new(0u8);
    let entropy = ((&*probe as *const u8 as usize as u64) >> 3).wrapping_mul(0x9E37_79B9_7F4A_7C15) >> 16;
    drop(probe);
    let scripted = scripted_histories();
    let (n_scripted, n_random) = if ctx.quick() { (1, 1u64) } else { (2, 2u64) };
    for j in 0..n_scripted {
        let h = &scripted[(entropy as usize).wrapping_add(ctx.seed as usize * 7 + j * 37) % scripted.len()];
        if !check_history(ctx, h, "scripted") {
            return;
        }
    }
    for n in 0..n_random {
        let mut rng = ctx.sub_rng("c30-miri-st", n ^ (entropy << 8));
        let len = rng.range(100, 200);
        let h = gen_history(&mut rng, len);
        if !check_history(ctx, &h, "random") {
            return;
        }
    }
    let c = mt_case(ctx, entropy << 8, true);
    check_mt(ctx, &c);
    ctx.count("op_kinds_observed_under_miri", ctx.class_len("op") as u64);
}

pub fn replay(ctx: &mut Ctx, case: &Value) {
    let case = case.get("case").unwrap_or(case);
    match case.get("kind").and_then(|k| k.as_str()) {
        Some("mt") => {
            if let Some(c) = MtCase::from_json(case) {
                check_mt(ctx, &c);
            }
        }
        _ => {
            if let Some(ops) = case.get("ops").and_then(|o| o.as_array()) {
                let ops: Vec<Op> = ops.iter().filter_map(Op::from_json).collect();
                check_history(ctx, &ops, "replay");
            }
        }
    }
}
