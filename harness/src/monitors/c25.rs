//! C25 — The introspection depth limit does not depend on fragments.
//!
//! Oracle: `RefDepth` (refmodel/depth.rs): with named and inline fragments expanded, the operation
//! must be rejected by `introspection::check_max_depth` iff some path nests >= 3 of the list-valued
//! introspection fields `fields`, `interfaces`, `possibleTypes`, `inputFields`.
//!
//! Workload (exhaustive over *abstract* selection trees, see `Alphabet`):
//! * space A: every main selection tree of nesting depth <= D over {list field, non-list composite
//!   field, inline fragment, leaf, ...F0, ...F1} (each selection set = one item, optionally with one
//!   sibling spread before or after it) x a menu of fragment definitions;
//! * space B: every body of fragment F0 of nesting depth <= DB over the same kinds (spreading F1)
//!   x a menu of F1 bodies x a menu of operations that re-use F0/F1 at different depths.
//! The abstract kinds are made concrete per case from the seed: list field = one of the four names
//! (`fields`/`inputFields` continue through `type`), inline fragment with/without type condition,
//! leaf `name`/`kind`, optional unique aliases, root `__schema{types}` / `__type` / `__schema{queryType}`.
//! Every operation is first validated against a schema; invalid ones are counted and dropped.
//! For every operation two metamorphic variants are judged as well: all fragments inlined, and one
//! selection set extracted into a new named fragment.

use crate::prng::Rng;
use crate::refmodel::depth::{self, field, Doc, Frag, Sel};
use crate::rt::{self, Ctx};
use apollo_compiler::validation::Valid;
use apollo_compiler::{ExecutableDocument, Schema};
use serde_json::{json, Value};
use std::collections::HashSet;

#[derive(Clone, Copy, Debug, PartialEq, Eq)]
pub enum K {
    /// list-valued introspection field
    L,
    /// non-list composite field
    N,
    /// inline fragment
    I,
}

#[derive(Clone, Debug, PartialEq, Eq)]
pub enum AItem {
    Leaf,
    S0,
    S1,
    Comp(K, Vec<AItem>),
}

pub struct Alphabet {
    pub terminals: &'static [AItem],
    pub siblings: &'static [AItem],
}

pub const ALPHA_MAIN: Alphabet = Alphabet {
    terminals: &[AItem::Leaf, AItem::S0, AItem::S1],
    siblings: &[AItem::S0, AItem::S1],
};
pub const ALPHA_F0: Alphabet = Alphabet {
    terminals: &[AItem::Leaf, AItem::S1],
    siblings: &[AItem::S1],
};
const KINDS: [K; 3] = [K::L, K::N, K::I];

impl Alphabet {
    pub fn items(&self, d: usize) -> u64 {
        if d == 0 {
            self.terminals.len() as u64
        } else {
            self.terminals.len() as u64 + KINDS.len() as u64 * self.sets(d - 1)
        }
    }
    /// Number of selection sets of nesting depth <= d (d = 0: terminals only).
    pub fn sets(&self, d: usize) -> u64 {
        self.items(d) * (1 + 2 * self.siblings.len() as u64)
    }
    pub fn unrank_item(&self, d: usize, i: u64) -> AItem {
        let t = self.terminals.len() as u64;
        if i < t {
            return self.terminals[i as usize].clone();
        }
        let j = i - t;
        let k = KINDS[(j % KINDS.len() as u64) as usize];
        AItem::Comp(k, self.unrank_set(d - 1, j / KINDS.len() as u64))
    }
    pub fn unrank_set(&self, d: usize, i: u64) -> Vec<AItem> {
        let forms = 1 + 2 * self.siblings.len() as u64;
        let form = i % forms;
        let item = self.unrank_item(d, i / forms);
        if form == 0 {
            return vec![item];
        }
        let sib = self.siblings[((form - 1) / 2) as usize].clone();
        if (form - 1) % 2 == 0 {
            vec![sib, item]
        } else {
            vec![item, sib]
        }
    }
}

fn l(x: Vec<AItem>) -> AItem {
    AItem::Comp(K::L, x)
}
fn n(x: Vec<AItem>) -> AItem {
    AItem::Comp(K::N, x)
}
fn i_(x: Vec<AItem>) -> AItem {
    AItem::Comp(K::I, x)
}
use AItem::{Leaf, S0, S1};

/// Fragment definitions (F0 body, F1 body) combined with every main tree of space A.
fn menu_a() -> Vec<(Vec<AItem>, Vec<AItem>)> {
    let d0 = || vec![Leaf];
    let d1 = || vec![l(vec![Leaf])];
    let d2 = || vec![l(vec![l(vec![Leaf])])];
    // the first six are the quick tier's menu, the first eight the thorough tier's
    vec![
        (d1(), d1()),
        (d2(), d1()),
        (d1(), d2()),
        (vec![S1], d1()),
        (vec![S1, l(vec![S1])], d1()),
        (d2(), d0()),
        (d2(), d2()),
        (vec![S1], d2()),
        (vec![l(vec![S1])], d1()),
        (vec![l(vec![S1]), S1], d1()),
        (d0(), vec![l(vec![i_(vec![l(vec![Leaf])])])]),
        (vec![n(vec![S1])], d2()),
    ]
}

/// F1 bodies of space B.
fn menu_b_f1() -> Vec<Vec<AItem>> {
    vec![vec![Leaf], vec![l(vec![Leaf])], vec![l(vec![l(vec![Leaf])])], vec![n(vec![l(vec![Leaf])])]]
}

/// Operations of space B: F0 (and F1) re-used at different depths and in different orders.
fn menu_b_main() -> Vec<Vec<AItem>> {
    vec![
        vec![S0],
        vec![l(vec![S0])],
        vec![l(vec![l(vec![S0])])],
        vec![S0, l(vec![S0])],
        vec![l(vec![S0]), S0],
        vec![S0, l(vec![l(vec![S0])])],
        vec![l(vec![l(vec![S0])]), S0],
        vec![S1, l(vec![S0])],
        vec![S1, l(vec![l(vec![S0])])],
        vec![l(vec![S0]), l(vec![l(vec![S1])])],
        vec![S0, n(vec![l(vec![S0])])],
        vec![S0, i_(vec![l(vec![l(vec![S0])])])],
        vec![l(vec![S0, l(vec![S0])])],
        vec![S1, S0, l(vec![l(vec![S1])])],
        vec![l(vec![S0]), l(vec![S0])],
        vec![S0, S0],
    ]
}

fn uses(items: &[AItem], which: &AItem) -> bool {
    items.iter().any(|x| match x {
        AItem::Comp(_, b) => uses(b, which),
        t => t == which,
    })
}

struct Conc<'a> {
    rng: &'a mut Rng,
    alias_n: u32,
}

impl Conc<'_> {
    /// Make an abstract selection set (in `__Type` context) concrete.
    fn set(&mut self, items: &[AItem]) -> Vec<Sel> {
        items.iter().map(|x| self.item(x)).collect()
    }
    fn alias(&mut self) -> Option<String> {
        if self.rng.chance(1, 5) {
            self.alias_n += 1;
            Some(format!("a{}", self.alias_n))
        } else {
            None
        }
    }
    fn item(&mut self, x: &AItem) -> Sel {
        match x {
            AItem::Leaf => field(self.rng.pick_str(&["name", "kind"]), vec![]),
            AItem::S0 => Sel::Spread("F0".into()),
            AItem::S1 => Sel::Spread("F1".into()),
            AItem::Comp(K::N, b) => field("ofType", self.set(b)),
            AItem::Comp(K::I, b) => Sel::Inline {
                on: if self.rng.bool() { Some("__Type".into()) } else { None },
                sels: self.set(b),
            },
            AItem::Comp(K::L, b) => {
                let alias = self.alias();
                let v = self.rng.below(4);
                let (name, via_type) = match v {
                    0 => ("interfaces", false),
                    1 => ("possibleTypes", false),
                    2 => ("fields", true),
                    _ => ("inputFields", true),
                };
                let body = if via_type {
                    // `fields` yields __Field, `inputFields` yields __InputValue: continue through
                    // `type` unless the body is a bare leaf and the coin says `name` directly.
                    if b.len() == 1 && b[0] == AItem::Leaf && self.rng.bool() {
                        vec![field("name", vec![])]
                    } else {
                        let inner = self.set(b);
                        vec![field("type", inner)]
                    }
                } else {
                    self.set(b)
                };
                let args = if name == "fields" && self.rng.chance(1, 4) { "(includeDeprecated: true)" } else { "" };
                Sel::Field { alias, name: name.into(), args: args.into(), sels: body }
            }
        }
    }
    fn root(&mut self, body: Vec<Sel>) -> Vec<Sel> {
        match self.rng.below(3) {
            0 => vec![field("__schema", vec![field("types", body)])],
            1 => vec![Sel::Field { alias: None, name: "__type".into(), args: "(name: \"Q\")".into(), sels: body }],
            _ => vec![field("__schema", vec![field("queryType", body)])],
        }
    }
}

/// Build the concrete document: operation body + the fragments actually reachable from it.
fn build(rng: &mut Rng, main: &[AItem], f0: &[AItem], f1: &[AItem]) -> Doc {
    let mut c = Conc { rng, alias_n: 0 };
    let body = c.set(main);
    let sels = c.root(body);
    let need0 = uses(main, &S0);
    let need1 = uses(main, &S1) || (need0 && uses(f0, &S1));
    let mut frags = Vec::new();
    if need0 {
        frags.push(Frag { name: "F0".into(), on: "__Type".into(), sels: c.set(f0) });
    }
    if need1 {
        frags.push(Frag { name: "F1".into(), on: "__Type".into(), sels: c.set(f1) });
    }
    Doc { sels, frags }
}

pub struct Env {
    schema: Valid<Schema>,
}

impl Env {
    pub fn new() -> Env {
        Env {
            schema: Schema::parse_and_validate("type Query { a: Int }", "schema.graphql").expect("schema"),
        }
    }
}

enum Apollo {
    Invalid(Vec<String>),
    Verdict { rejected: bool, message: String },
}

fn apollo(env: &Env, text: &str) -> Result<Apollo, rt::PanicReport> {
    rt::catch(|| match ExecutableDocument::parse_and_validate(&env.schema, text.to_string(), "op.graphql") {
        Err(e) => Apollo::Invalid(
            e.errors
                .iter()
                .map(|d| d.error.unstable_error_name().unwrap_or("<unnamed>").to_string())
                .collect(),
        ),
        Ok(doc) => {
            let Ok(op) = doc.operations.get(None) else {
                return Apollo::Invalid(vec!["<no anonymous operation>".into()]);
            };
            match apollo_compiler::introspection::check_max_depth(&doc, op) {
                Ok(()) => Apollo::Verdict { rejected: false, message: String::new() },
                Err(e) => Apollo::Verdict { rejected: true, message: e.message().to_string() },
            }
        }
    })
}

/// `Some(rejected)` for a valid document, `None` if it is invalid or panicked.
fn apollo_rejects(env: &Env, d: &Doc) -> Option<bool> {
    match apollo(env, &d.to_text()) {
        Ok(Apollo::Verdict { rejected, .. }) => Some(rejected),
        _ => None,
    }
}

fn spread_counts(d: &Doc) -> (usize, bool) {
    // (max number of spread sites of one fragment, any spread inside a fragment)
    fn walk(sels: &[Sel], acc: &mut Vec<String>) {
        for s in sels {
            match s {
                Sel::Spread(n) => acc.push(n.clone()),
                Sel::Field { sels, .. } | Sel::Inline { sels, .. } => walk(sels, acc),
            }
        }
    }
    let mut all = Vec::new();
    walk(&d.sels, &mut all);
    let mut nested = Vec::new();
    for f in &d.frags {
        walk(&f.sels, &mut nested);
    }
    let any_nested = !nested.is_empty();
    all.extend(nested);
    let mut max = 0;
    for f in &d.frags {
        max = max.max(all.iter().filter(|n| **n == f.name).count());
    }
    (max, any_nested)
}

/// Where does the disagreement live? Decided with variants of the same operation.
fn classify_site(env: &Env, d: &Doc, expected_reject: bool) -> &'static str {
    let differs = |v: Option<Doc>| v.and_then(|v| apollo_rejects(env, &v)).is_some_and(|r| r != expected_reject);
    if !d.has_spread() || differs(d.inline_all()) {
        "without-named-fragments"
    } else if differs(d.unique_copies()) {
        "fragment-spread,each-fragment-spread-once"
    } else {
        "fragment-spread-more-than-once"
    }
}

pub fn check_doc(ctx: &mut Ctx, env: &Env, d: &Doc, origin: &str, with_variants: bool) {
    ctx.eval();
    let text = d.to_text();
    let case = || json!({"origin": origin, "text": text, "doc": d.to_json()});
    let Some(depth) = d.list_depth() else {
        ctx.inconclusive("generator produced a document the reference cannot expand", case());
        return;
    };
    let expected_reject = depth >= depth::LIMIT;
    match apollo(env, &text) {
        Err(p) => {
            ctx.violation(p.signature("introspection::check_max_depth"), format!("panic: {}", p.message), case());
            return;
        }
        Ok(Apollo::Invalid(names)) => {
            ctx.count("invalid_dropped", 1);
            ctx.class("invalid_reason", names.first().map(|s| s.as_str()).unwrap_or("?"));
            return;
        }
        Ok(Apollo::Verdict { rejected, message }) => {
            ctx.count("valid_judged", 1);
            let (max_sites, nested) = spread_counts(d);
            ctx.class("verdict", if expected_reject { "reject" } else { "accept" });
            ctx.class("ref_depth", &depth.min(9).to_string());
            ctx.class("origin", origin);
            if max_sites >= 2 {
                ctx.class("feature", "fragment-spread-more-than-once");
                ctx.class("reuse_x_verdict", if expected_reject { "reused,reject" } else { "reused,accept" });
                if depth == depth::LIMIT {
                    ctx.class("feature", "reused-fragment-at-exactly-the-limit");
                }
            }
            if nested {
                ctx.class("feature", "spread-inside-fragment");
            }
            if d.has_spread() {
                ctx.nontrivial(&text);
                ctx.count("judged_with_named_fragments", 1);
            }
            if rejected != expected_reject {
                let dir = if rejected { "apollo-rejects/oracle-accepts" } else { "apollo-accepts/oracle-rejects" };
                let site = classify_site(env, d, expected_reject);
                ctx.violation(
                    format!("max-depth|{dir}|{site}"),
                    format!(
                        "check_max_depth {} (`{message}`) but the expanded operation nests {depth} list fields (limit {}): {}",
                        if rejected { "rejects" } else { "accepts" },
                        depth::LIMIT,
                        text.trim().replace('\n', " ")
                    ),
                    case(),
                );
            }
        }
    }
    if with_variants {
        if d.has_spread() {
            if let Some(v) = d.inline_all() {
                if v.list_depth() != Some(depth) {
                    ctx.inconclusive("harness: inlining changed the reference depth", json!({"text": text}));
                } else {
                    ctx.count("variant_inline_all", 1);
                    ctx.class("variant", "inline_all");
                    check_doc(ctx, env, &v, "variant:inline_all", false);
                }
            }
        }
        let mut rng = Rng::new(crate::prng::fnv_str(&text) ^ ctx.seed);
        if let Some(v) = extract_one(d, &mut rng) {
            if v.list_depth() != Some(depth) {
                ctx.inconclusive("harness: extraction changed the reference depth", json!({"text": text}));
            } else {
                ctx.count("variant_extract", 1);
                ctx.class("variant", "extract");
                check_doc(ctx, env, &v, "variant:extract", false);
            }
        }
    }
}

fn result_type(parent: &str, field_name: &str) -> &'static str {
    match field_name {
        "__schema" => "__Schema",
        "__type" | "types" | "queryType" | "interfaces" | "possibleTypes" | "ofType" | "type" => "__Type",
        "fields" => "__Field",
        "inputFields" | "args" => "__InputValue",
        _ => {
            let _ = parent;
            ""
        }
    }
}

/// Move the content of one selection set of the operation into a new fragment `X` spread in place.
fn extract_one(d: &Doc, rng: &mut Rng) -> Option<Doc> {
    // enumerate candidate sets by pre-order number
    fn count(sels: &[Sel], ty: &str, n: &mut usize) {
        for s in sels {
            match s {
                Sel::Field { name, sels, .. } if !sels.is_empty() => {
                    let t = result_type(ty, name);
                    if !t.is_empty() {
                        *n += 1;
                        count(sels, t, n);
                    }
                }
                Sel::Inline { on, sels } => {
                    let t = on.as_deref().unwrap_or(ty);
                    *n += 1;
                    count(sels, t, n);
                }
                _ => {}
            }
        }
    }
    fn go(sels: &[Sel], ty: &str, n: &mut usize, target: usize, out: &mut Option<Frag>) -> Vec<Sel> {
        let mut v = Vec::new();
        for s in sels {
            v.push(match s {
                Sel::Field { alias, name, args, sels } if !sels.is_empty() && !result_type(ty, name).is_empty() => {
                    let t = result_type(ty, name);
                    *n += 1;
                    let body = if *n == target {
                        *out = Some(Frag { name: "X".into(), on: t.into(), sels: sels.clone() });
                        vec![Sel::Spread("X".into())]
                    } else {
                        go(sels, t, n, target, out)
                    };
                    Sel::Field { alias: alias.clone(), name: name.clone(), args: args.clone(), sels: body }
                }
                Sel::Inline { on, sels } => {
                    let t = on.as_deref().unwrap_or(ty).to_string();
                    *n += 1;
                    let body = if *n == target {
                        *out = Some(Frag { name: "X".into(), on: t.clone(), sels: sels.clone() });
                        vec![Sel::Spread("X".into())]
                    } else {
                        go(sels, &t, n, target, out)
                    };
                    Sel::Inline { on: on.clone(), sels: body }
                }
                other => other.clone(),
            });
        }
        v
    }
    let mut total = 0;
    count(&d.sels, "Query", &mut total);
    if total == 0 {
        return None;
    }
    let target = 1 + rng.below(total);
    let mut n = 0;
    let mut frag = None;
    let sels = go(&d.sels, "Query", &mut n, target, &mut frag);
    let mut frags = d.frags.clone();
    frags.push(frag?);
    Some(Doc { sels, frags })
}

/// Hand-written regression operations (re-used fragment at the limit; spread inside a fragment).
pub fn regression_docs() -> Vec<Doc> {
    let name = || field("name", vec![]);
    let f_d2 = Frag { name: "F".into(), on: "__Type".into(), sels: vec![field("interfaces", vec![field("interfaces", vec![name()])])] };
    let f_d1 = Frag { name: "F".into(), on: "__Type".into(), sels: vec![field("interfaces", vec![name()])] };
    let g = Frag { name: "G".into(), on: "__Type".into(), sels: vec![Sel::Spread("F".into())] };
    let ty = |sels| Sel::Field { alias: None, name: "__type".into(), args: "(name: \"Q\")".into(), sels };
    vec![
        // DESIGN §3 row 15: F (depth 2) spread at depth 0 and again at depth 1
        Doc { sels: vec![ty(vec![Sel::Spread("F".into()), field("interfaces", vec![Sel::Spread("F".into())])])], frags: vec![f_d2.clone()] },
        // same order reversed
        Doc { sels: vec![ty(vec![field("interfaces", vec![Sel::Spread("F".into())]), Sel::Spread("F".into())])], frags: vec![f_d2.clone()] },
        // G = { ...F } measured after F was memoised
        Doc {
            sels: vec![ty(vec![
                Sel::Spread("F".into()),
                Sel::Spread("G".into()),
                field("interfaces", vec![field("interfaces", vec![Sel::Spread("G".into())])]),
            ])],
            frags: vec![f_d2.clone(), g.clone()],
        },
        Doc {
            sels: vec![ty(vec![
                Sel::Spread("F".into()),
                Sel::Spread("G".into()),
                field("interfaces", vec![field("interfaces", vec![Sel::Spread("G".into())])]),
            ])],
            frags: vec![f_d1, g],
        },
    ]
}

pub fn run(ctx: &mut Ctx) {
    let env = Env::new();
    if ctx.shard == 0 {
        for d in regression_docs() {
            check_doc(ctx, &env, &d, "regression", true);
        }
    }
    let (da, db) = if ctx.quick() { (3usize, 2usize) } else { (4, 3) };
    ctx.note("space_a_depth_levels", json!(da + 1));
    ctx.note("space_b_fragment_depth_levels", json!(db + 1));
    let mut ma = menu_a();
    ma.truncate(if ctx.quick() { 6 } else { 8 });
    ctx.note("space_a_fragment_menu_size", json!(ma.len()));
    // metamorphic variants: every third case (all regression cases)
    let variant_every: u64 = 3;
    let mut case_n = 0u64;
    // Space B first (smaller): exhaustive F0 bodies.
    let f1s = menu_b_f1();
    let mains = menu_b_main();
    let nb = ALPHA_F0.sets(db);
    ctx.count_max("space_b_f0_bodies", nb);
    let mut complete_b = true;
    'b: for j in 0..nb {
        if !ctx.mine(j) {
            continue;
        }
        let f0 = ALPHA_F0.unrank_set(db, j);
        let f0_uses_f1 = uses(&f0, &S1);
        for (k1, f1) in f1s.iter().enumerate() {
            if !f0_uses_f1 && k1 > 0 {
                // F1 only matters if something spreads it
                // (operations that spread F1 themselves are still run with every F1 below)
            }
            for (km, main) in mains.iter().enumerate() {
                if !f0_uses_f1 && !uses(main, &S1) && k1 > 0 {
                    continue;
                }
                let mut rng = ctx.sub_rng("c25-b", j * 1000 + (k1 * 32 + km) as u64);
                let d = build(&mut rng, main, &f0, f1);
                case_n += 1;
                check_doc(ctx, &env, &d, "space-b", case_n % variant_every == 0);
            }
        }
        if ctx.time_up() {
            complete_b = false;
            ctx.note("space_b_cut_short_at", json!(j));
            ctx.inconclusive("budget used up before space B was exhausted", json!({"shard": ctx.shard, "at": j, "of": nb}));
            break 'b;
        }
    }
    if complete_b {
        ctx.class("completed", "space-b");
    }
    // Space A: exhaustive main trees.
    let na = ALPHA_MAIN.sets(da);
    ctx.count_max("space_a_main_trees", na);
    let mut complete_a = true;
    let mut seen: HashSet<u64> = HashSet::new();
    for i in 0..na {
        if !ctx.mine(i) {
            continue;
        }
        let main = ALPHA_MAIN.unrank_set(da, i);
        if !uses(&main, &S0) && !uses(&main, &S1) {
            let mut rng = ctx.sub_rng("c25-a", i * 64);
            let d = build(&mut rng, &main, &[], &[]);
            case_n += 1;
            check_doc(ctx, &env, &d, "space-a", case_n % variant_every == 0);
        } else {
            seen.clear();
            for (k, (f0, f1)) in ma.iter().enumerate() {
                // the same effective fragment set is not repeated for this main tree
                let need0 = uses(&main, &S0);
                let need1 = uses(&main, &S1) || (need0 && uses(f0, &S1));
                let key = crate::prng::fnv_str(&format!("{:?}|{:?}", need0.then_some(f0), need1.then_some(f1)));
                if !seen.insert(key) {
                    continue;
                }
                let mut rng = ctx.sub_rng("c25-a", i * 64 + k as u64);
                let d = build(&mut rng, &main, f0, f1);
                case_n += 1;
                check_doc(ctx, &env, &d, "space-a", case_n % variant_every == 0);
                if ctx.evals % 8192 == 0 {
                    ctx.sample(|| json!({"origin": "space-a", "text": d.to_text(), "ref_depth": d.list_depth()}));
                }
            }
        }
        if ctx.time_up() {
            complete_a = false;
            ctx.note("space_a_cut_short_at", json!(i));
            ctx.inconclusive("budget used up before space A was exhausted", json!({"shard": ctx.shard, "at": i, "of": na}));
            break;
        }
    }
    if complete_a {
        ctx.class("completed", "space-a");
    }
}

pub fn replay(ctx: &mut Ctx, case: &Value) {
    let env = Env::new();
    if let Some(d) = case.get("doc").and_then(Doc::from_json) {
        check_doc(ctx, &env, &d, "replay", true);
    }
}
