//! C21 — The compiler never panics on adversarial input.
//!
//! Refuting events: a panic / process death in building, validating, serializing, introspecting or
//! rendering diagnostics (text, "colour" mode, JSON); a DiagnosticList whose (file, offset) keys
//! are not non-decreasing (None first); a chain >= 2x a documented limit that validates Ok, or a
//! chain <= 1/2 of it that produces a recursion-limit diagnostic.

use crate::gen::exec_gen::{gen_executable, ExecOpts};
use crate::gen::inputs::TextSource;
use crate::gen::model::*;
use crate::gen::schema_gen::gen_schema;
use crate::gen::text;
use crate::monitors::c01::host_schema;
use crate::monitors::c12::random_opts;
use crate::monitors::util;
use crate::rt::{self, clip, Ctx};
use apollo_compiler::diagnostic::{Color, ToCliReport};
use apollo_compiler::validation::DiagnosticList;
use apollo_compiler::{ast, ExecutableDocument};
use serde_json::{json, Value};

pub const INTROSPECTION_QUERY: &str = r#"
query IntrospectionQuery { __schema { description queryType { name } mutationType { name } subscriptionType { name }
 types { ...FullType } directives { name description isRepeatable locations args(includeDeprecated: true) { ...InputValue } } } }
fragment FullType on __Type { kind name description specifiedByURL
 fields(includeDeprecated: true) { name description args(includeDeprecated: true) { ...InputValue } type { ...TypeRef } isDeprecated deprecationReason }
 inputFields(includeDeprecated: true) { ...InputValue } interfaces { ...TypeRef }
 enumValues(includeDeprecated: true) { name description isDeprecated deprecationReason } possibleTypes { ...TypeRef } }
fragment InputValue on __InputValue { name description type { ...TypeRef } defaultValue isDeprecated deprecationReason }
fragment TypeRef on __Type { kind name ofType { kind name ofType { kind name ofType { kind name ofType { kind name ofType { kind name ofType { kind name ofType { kind name } } } } } } } }
"#;

pub const KNOWN_SHIFTED_RENDER_PANIC: &str =
    "panic|diagnostic-rendering|span off a char boundary because the CST dropped the token after `[` of a list type (C02 finding)";

/// Does the document's CST exhibit known finding C02/1 on this text?
fn cst_drops_list_item_token(text: &str) -> bool {
    use apollo_parser::cst::CstNode;
    let tree = apollo_parser::Parser::new(text).parse();
    match crate::monitors::c02::check_tree(tree.document().syntax(), text, true) {
        Ok(w) => w.dropped.iter().any(|d| d.after_childless_list_bracket),
        Err(_) => false,
    }
}

#[derive(Default)]
struct Obs {
    diagnostics: usize,
    lists: usize,
    unsorted: Option<String>,
    stages: Vec<&'static str>,
    recursion_limit_diag: bool,
    schema_valid: bool,
    mixed_valid: bool,
}

fn render(list: &DiagnosticList, obs: &mut Obs, stage: &'static str) {
    obs.lists += 1;
    let mut prev: Option<Option<(apollo_compiler::parser::FileId, usize)>> = None;
    for d in list.iter() {
        obs.diagnostics += 1;
        let key = d.error.location().map(|l| (l.file_id(), l.offset()));
        if let Some(p) = prev {
            if key < p && obs.unsorted.is_none() {
                obs.unsorted = Some(format!("{stage}: key {:?} after {:?}", key.map(|k| k.1), p.map(|k| k.1)));
            }
        }
        prev = Some(key);
        let s1 = d.to_string();
        let s2 = format!("{:?}", d); // the "colours if stderr is a terminal" path
        let s3 = d.to_report(Color::Never).into_string();
        let j = d.to_json();
        let js = serde_json::to_string(&j).unwrap_or_default();
        let compat = d.error.unstable_compat_message();
        let name = d.error.unstable_error_name();
        let jc = d.unstable_to_json_compat();
        let lc = d.line_column_range();
        if name == Some("RecursionLimitError") || s1.contains("too much recursion") || s1.contains("too much nesting") {
            obs.recursion_limit_diag = true;
        }
        std::hint::black_box((s1.len(), s2.len(), s3.len(), js.len(), compat, jc.message.len(), lc.is_some()));
    }
    let all = list.to_string();
    std::hint::black_box(all.len());
    obs.stages.push(stage);
}

fn pipeline(text: &str) -> Obs {
    let mut obs = Obs::default();
    let ast = match ast::Document::parse(text, "c21.graphql") {
        Ok(d) => d,
        Err(e) => {
            render(&e.errors, &mut obs, "parse");
            e.partial
        }
    };
    std::hint::black_box(ast.to_string().len() + ast.serialize().no_indent().to_string().len());
    // schema
    let mut valid_schema = None;
    match ast.to_schema() {
        Ok(s) => {
            std::hint::black_box(s.to_string().len() + s.serialize().no_indent().to_string().len());
        }
        Err(e) => {
            render(&e.errors, &mut obs, "to_schema");
            std::hint::black_box(e.partial.to_string().len());
        }
    }
    match ast.to_schema_validate() {
        Ok(s) => {
            obs.schema_valid = true;
            valid_schema = Some(s);
        }
        Err(e) => {
            render(&e.errors, &mut obs, "to_schema_validate");
            std::hint::black_box(e.partial.serialize().no_indent().to_string().len());
        }
    }
    // executable, against the document's own schema when valid, else the host schema
    let schema = valid_schema.as_ref().unwrap_or_else(|| host_schema());
    match ast.to_executable(schema) {
        Ok(d) => {
            std::hint::black_box(d.to_string().len() + d.serialize().no_indent().to_string().len());
        }
        Err(e) => {
            render(&e.errors, &mut obs, "to_executable");
            std::hint::black_box(e.partial.to_string().len());
        }
    }
    if let Err(e) = ast.to_executable_validate(schema) {
        render(&e.errors, &mut obs, "to_executable_validate");
    }
    match ast.to_mixed_validate() {
        Ok((s, d)) => {
            obs.mixed_valid = true;
            std::hint::black_box(s.to_string().len() + d.to_string().len());
            for op in d.operations.iter() {
                let _ = apollo_compiler::introspection::check_max_depth(&d, op);
            }
        }
        Err(e) => render(&e, &mut obs, "to_mixed_validate"),
    }
    if let Err(e) = ast.validate_standalone_executable() {
        render(&e, &mut obs, "standalone");
    }
    // introspection of the document's own schema
    if let Some(s) = &valid_schema {
        if let Ok(doc) = ExecutableDocument::parse_and_validate(s, INTROSPECTION_QUERY, "introspection.graphql") {
            if let Ok(op) = doc.operations.get(None) {
                let _ = apollo_compiler::introspection::check_max_depth(&doc, op);
                let vars = apollo_compiler::request::coerce_variable_values(s, op, &Default::default());
                if let Ok(vars) = vars {
                    let imp = s.implementers_map();
                    let r = apollo_compiler::introspection::partial_execute(s, &imp, &doc, op, &vars);
                    if let Ok(resp) = r {
                        std::hint::black_box(serde_json::to_string(&resp).map(|s| s.len()).unwrap_or(0));
                        obs.stages.push("introspection");
                    }
                }
            }
        }
    }
    obs
}

pub fn check_case(ctx: &mut Ctx, text: &str, source: &str, expect: Option<(&str, bool)>) {
    ctx.eval();
    ctx.inflight("C21", json!({"text": text}).to_string().as_bytes());
    let case = json!({"text": text, "source": source, "expect": expect.map(|(k, over)| json!({"kind": k, "over_limit": over}))});
    let t0 = rt::thread_cpu_ns();
    let r = rt::on_stack(rt::SMALL_STACK, || pipeline(text));
    let _ = t0;
    match r {
        Err(p) => {
            // Known finding C02/1 (the token after `[` of a list type is dropped from the CST) shifts
            // every later offset by the dropped bytes; diagnostics then carry spans that can end
            // inside a multibyte character, which makes the report renderer slice off a char
            // boundary. Such panics are keyed on that root cause, all others on their own site.
            let shifted = p.message.contains("is not a char boundary") && cst_drops_list_item_token(text);
            let sig = if shifted {
                KNOWN_SHIFTED_RENDER_PANIC.to_string()
            } else {
                p.signature("compiler-pipeline")
            };
            ctx.violation(sig, format!("panic: {} at {}:{}", p.message, p.file, p.line), case);
        }
        Ok(obs) => {
            ctx.count("diagnostics_rendered", obs.diagnostics as u64);
            ctx.count("diagnostic_lists_checked_sorted", obs.lists as u64);
            for s in &obs.stages {
                ctx.class("stage_with_diagnostics_or_output", s);
            }
            ctx.class("source", source);
            if obs.diagnostics > 0 {
                ctx.nontrivial(text);
            }
            if let Some(u) = obs.unsorted {
                ctx.violation(
                    format!("unsorted-diagnostics|{}", u.split(':').next().unwrap_or("")),
                    format!("diagnostic list not sorted by source position: {u}"),
                    case.clone(),
                );
            }
            if let Some((kind, over)) = expect {
                ctx.class("limit_probe", &format!("{kind}:{}", if over { "2x-over" } else { "half-under" }));
                if over && (obs.mixed_valid || !obs.recursion_limit_diag) {
                    ctx.violation(
                        format!("limit-not-enforced|{kind}"),
                        format!("a {kind} chain of at least twice the documented limit produced no recursion-limit diagnostic (valid={})", obs.mixed_valid),
                        case.clone(),
                    );
                }
                if !over && obs.recursion_limit_diag {
                    ctx.violation(
                        format!("limit-too-eager|{kind}"),
                        format!("a {kind} chain of at most half the documented limit produced a recursion-limit diagnostic"),
                        case,
                    );
                }
            }
        }
    }
}

fn fragment_chain(size: usize, nested: bool) -> String {
    let mut q = String::from("type Query { a: Int }\nquery Introspection { __schema { types { ...typeFragment1 } } }\n");
    for i in 1..size {
        if nested {
            q.push_str(&format!("fragment typeFragment{i} on __Type {{ ofType {{ ...typeFragment{} }} }}\n", i + 1));
        } else {
            q.push_str(&format!("fragment typeFragment{i} on __Type {{ ...typeFragment{} }}\n", i + 1));
        }
    }
    q.push_str(&format!("fragment typeFragment{size} on __Type {{ name }}\n"));
    q
}

fn directive_chain(size: usize) -> String {
    let mut s = String::from("type Query { field: Int! @directive(arg: true) }\ndirective @directive(arg: Boolean @argDir1) on FIELD_DEFINITION\n{ field }\n");
    for i in 1..size {
        s.push_str(&format!("directive @argDir{i}(arg: Boolean @argDir{}) on ARGUMENT_DEFINITION\n", i + 1));
    }
    s.push_str(&format!("directive @argDir{size}(arg: Boolean) on ARGUMENT_DEFINITION\n"));
    s
}

fn input_chain(size: usize) -> String {
    let mut s = String::from("type Query { field(arg: VeryVeryDeep): Boolean }\ninput VeryVeryDeep { nest: VeryVeryDeep1! }\n{ field }\n");
    for i in 1..size {
        s.push_str(&format!("input VeryVeryDeep{i} {{ nest: VeryVeryDeep{}! }}\n", i + 1));
    }
    s.push_str(&format!("input VeryVeryDeep{size} {{ final: Boolean }}\n"));
    s
}

fn nested_selection(depth: usize) -> String {
    format!(
        "type Query {{ recur: Query leaf(arg: Boolean): Int }}\nquery {}{}{}",
        "{ recur ".repeat(depth),
        "{ leaf(arg: true) }",
        " }".repeat(depth)
    )
}

fn cycles() -> Vec<(&'static str, String)> {
    vec![
        ("fragment_self_cycle", "type Query { a: Query }\n{ ...F }\nfragment F on Query { a { ...F } }".into()),
        ("fragment_cycle_via_inline", "type Query { a: Query }\n{ ...F }\nfragment F on Query { a { ... on Query { a { ...G } } } }\nfragment G on Query { ... { ...F } }".into()),
        ("fragment_cycle_behind_acyclic_prefix", "type Query { a: Query }\n{ ...A }\nfragment A on Query { ...B }\nfragment B on Query { a { ...C } }\nfragment C on Query { ...B }".into()),
        ("fragment_cycle_behind_two_prefixes", "type Query { a: Query }\nquery Q { ...P1 ...P2 }\nfragment P1 on Query { ...X }\nfragment P2 on Query { a { ...Y } }\nfragment X on Query { ...Y }\nfragment Y on Query { ...Z }\nfragment Z on Query { a { ...Y } }".into()),
        ("introspection_fragment_cycle_behind_prefix", "type Query { a: Int }\n{ __schema { types { ...A } } }\nfragment A on __Type { ...B }\nfragment B on __Type { fields { type { ...C } } }\nfragment C on __Type { ofType { ...B } }".into()),
        ("fragment_two_cycle", "type Query { a: Query }\n{ ...A }\nfragment A on Query { ...B }\nfragment B on Query { ...A }".into()),
        ("directive_self_cycle", "directive @d(a: Int @d) on ARGUMENT_DEFINITION\ntype Query { a: Int }".into()),
        ("directive_cycle_via_enum_value", "directive @d(a: E) on ENUM_VALUE\nenum E { A @d(a: A) }\ntype Query { a: E }".into()),
        ("directive_cycle_via_input_field", "directive @d(a: I) on INPUT_FIELD_DEFINITION\ninput I { f: Int @d }\ntype Query { a(i: I): Int }".into()),
        ("input_self_cycle_nonnull", "input I { f: I! }\ntype Query { a(i: I): Int }".into()),
        ("input_cycle_via_list", "input I { f: [I!]! }\ntype Query { a(i: I): Int }".into()),
        ("input_cycle_behind_acyclic_prefix", "input A { b: B! }\ninput B { c: C! }\ninput C { b: B! }\ntype Query { a(i: A): Int }".into()),
        ("input_cycle_behind_two_prefixes", "input A { b: B! c: D! }\ninput D { b: B! }\ninput B { c: C! }\ninput C { d: E! }\ninput E { b: B! }\ntype Query { a(i: A): Int }".into()),
        ("directive_cycle_behind_acyclic_prefix", "directive @a(x: Int @b) on ARGUMENT_DEFINITION\ndirective @b(x: Int @c) on ARGUMENT_DEFINITION\ndirective @c(x: Int @b) on ARGUMENT_DEFINITION\ntype Query { a: Int }".into()),
        ("interface_cycle_behind_acyclic_prefix", "interface A implements B & C { a: Int }\ninterface B implements C { a: Int }\ninterface C implements B { a: Int }\ntype Query { a: A }".into()),
        ("interface_self_implements", "interface A implements A { a: Int }\ntype Query { a: A }".into()),
        ("interface_cycle", "interface A implements B { a: Int }\ninterface B implements A { a: Int }\ntype Query { a: A }".into()),
        ("union_of_itself", "union U = U\ntype Query { u: U }".into()),
        ("variable_in_own_default", "type Query { a(x: Int): Int }\nquery($v: Int = $v) { a(x: $v) }".into()),
        ("empty", "".into()),
        ("only_comment", "# nothing".into()),
        ("multibyte_at_eof", "type Query { a: Int } é".into()),
        ("error_at_eof", "type Query { a: Int".into()),
        ("bom_only", "\u{FEFF}".into()),
        // witness of the known finding: offsets shifted by the C02 list-item drop, then a multibyte char
        ("known_c02_shift_then_multibyte", "input{f:[!}interface\tf\u{FEFF}@i".into()),
    ]
}

pub fn run(ctx: &mut Ctx) {
    let src = TextSource::new();
    let _ = host_schema();
    // Phase 1: chains at half / twice each documented limit, and a sweep around them.
    // (kind, generator, documented limit)
    let mut idx = 0u64;
    let chains: Vec<(&str, Box<dyn Fn(usize) -> String>, usize)> = vec![
        ("nested-fragment-chain", Box::new(|n| fragment_chain(n, true)), 100),
        ("flat-fragment-chain", Box::new(|n| fragment_chain(n, false)), 100),
        ("directive-definition-chain", Box::new(directive_chain), 32),
        ("input-object-chain", Box::new(input_chain), 32),
        ("nested-selection", Box::new(nested_selection), 128),
    ];
    for (kind, gen, limit) in &chains {
        for (n, expect) in [
            (limit / 4, Some(false)),
            (limit / 2, Some(false)),
            (limit - 1, None),
            (*limit, None),
            (limit + 1, None),
            (limit * 2, Some(true)),
            (limit * 3, Some(true)),
            (600, Some(true)),
        ] {
            idx += 1;
            if !ctx.mine(idx) {
                continue;
            }
            if *kind == "nested-selection" && n > 480 {
                continue; // beyond the parser's own recursion limit: a syntax error, not this limit
            }
            let t = gen(n);
            check_case(ctx, &t, "limit_chain", expect.map(|o| (*kind, o)));
        }
    }
    // every surrogate \uXXXX escape (must be a syntax error, never reach string decoding)
    for cp in 0xD7F0u32..=0xE010 {
        if ctx.mine(cp as u64) {
            let t = format!("\"\\u{cp:04X}\" type Query {{ a(x: String = \"\\u{cp:04x}\"): Int }} {{ a(x: \"\\u{cp:04X}\") }}");
            check_case(ctx, &t, "surrogate_escape_sweep", None);
        }
    }
    if ctx.shard == 0 {
        for (name, t) in cycles() {
            check_case(ctx, &t, "cycle_or_edge", None);
            ctx.class("cycle", name);
        }
    }
    // Phase 2: corpus files as they are.
    for (i, f) in src.files.iter().enumerate() {
        if ctx.mine(i as u64) && f.text.len() < 64 * 1024 {
            check_case(ctx, &f.text, "corpus", None);
        }
    }
    // Phase 3: token mutants of corpus and model documents, smith, diagnostics-rich invalid documents.
    let mut n = 0u64;
    while !ctx.time_up() {
        n += 1;
        let mut rng = ctx.sub_rng("c21", n);
        match rng.below(10) {
            0..=3 => {
                let base = src.corpus_text_max(&mut rng, 8000).to_string();
                let mut s = base;
                for _ in 0..rng.range(1, 3) {
                    s = text::mutate_tokens(&mut rng, &s);
                }
                check_case(ctx, &s, "corpus_mutant", None);
            }
            4..=6 => {
                let opts = random_opts(&mut rng);
                let sdoc = gen_schema(&mut rng, &opts);
                let flat = FlatSchema::from_doc(&sdoc);
                let ex = gen_executable(&mut rng, &flat, &ExecOpts::default());
                let mut all = sdoc.clone();
                all.defs.extend(ex.defs);
                let t = print_trivia(&all, &mut rng);
                if rng.bool() {
                    check_case(ctx, &t, "model_mixed", None);
                } else {
                    let mut s = t;
                    for _ in 0..rng.range(1, 4) {
                        s = text::mutate_tokens(&mut rng, &s);
                    }
                    check_case(ctx, &s, "model_mutant", None);
                }
            }
            7 => {
                let nb = rng.range(64, 4096);
                let bytes = rng.bytes(nb);
                if let Some(t) = util::smith_text(&bytes, 3) {
                    let s = if rng.bool() { t } else { text::mutate_tokens(&mut rng, &t) };
                    check_case(ctx, &s, "smith", None);
                }
            }
            8 => {
                let (kind, t) = src.random(&mut rng);
                let _ = kind;
                check_case(ctx, &t, "hostile_text", None);
            }
            9 if rng.chance(1, 3) => {
                // random reference graphs between type-system definitions: input objects through
                // (non-)null / list fields, directive definitions through directives on their
                // arguments, interfaces through `implements` (cycles behind acyclic prefixes, diamonds)
                let n = rng.range(2, 7);
                let mut t = String::new();
                let kind = rng.below(3);
                for i in 0..n {
                    let mut refs: Vec<usize> = Vec::new();
                    for j in 0..n {
                        if rng.chance(1, 3) {
                            refs.push(j);
                        }
                    }
                    match kind {
                        0 => {
                            let mut body = String::from("x: Int ");
                            for j in &refs {
                                let ty = match rng.below(5) {
                                    0 | 1 | 2 => format!("I{j}!"),
                                    3 => format!("I{j}"),
                                    _ => format!("[I{j}!]!"),
                                };
                                body.push_str(&format!("f{j}: {ty} "));
                            }
                            t.push_str(&format!("input I{i} {{ {body}}}\n"));
                        }
                        1 => {
                            let apps: String = refs.iter().map(|j| format!(" @d{j}")).collect();
                            t.push_str(&format!("directive @d{i}(x: Int{apps}) on ARGUMENT_DEFINITION\n"));
                        }
                        _ => {
                            let imp = if refs.is_empty() { String::new() } else { format!(" implements {}", refs.iter().map(|j| format!("N{j}")).collect::<Vec<_>>().join(" & ")) };
                            t.push_str(&format!("interface N{i}{imp} {{ a: Int }}\n"));
                        }
                    }
                }
                t.push_str(match kind {
                    0 => "type Query { a(i: I0): Int }\n{ a }\n",
                    1 => "type Query { a(x: Int @d0): Int }\n",
                    _ => "type Query { a: N0 }\n",
                });
                check_case(ctx, &t, "random_definition_graph", None);
            }
            9 if rng.bool() => {
                // random fragment spread graphs (cycles reached behind acyclic prefixes, diamonds)
                let n = rng.range(2, 7);
                let mut t = String::from("type Query { a: Query b: Int }\n{ ...F0 }\n");
                for i in 0..n {
                    let mut body = String::from("b ");
                    for j in 0..n {
                        if rng.chance(1, 3) {
                            if rng.bool() {
                                body.push_str(&format!("...F{j} "));
                            } else {
                                body.push_str(&format!("a {{ ...F{j} }} "));
                            }
                        }
                    }
                    t.push_str(&format!("fragment F{i} on Query {{ {body}}}\n"));
                }
                check_case(ctx, &t, "random_fragment_graph", None);
            }
            _ => {
                // a chain of random length and kind, no expectation (sweeps all lengths)
                let (kind, gen, limit) = rng.pick(&chains);
                let nn = rng.range(1, (limit * 3).min(450));
                let _ = kind;
                check_case(ctx, &gen(nn), "limit_chain_random", None);
            }
        }
        if n % 64 == 0 {
            ctx.sample(|| json!({"n": n}));
        }
    }
    ctx.sample(|| json!({"example_chain": clip(&directive_chain(3), 300)}));
}

pub fn replay(ctx: &mut Ctx, case: &Value) {
    if let Some(t) = case.get("text").and_then(|t| t.as_str()) {
        let exp = case.get("expect").and_then(|e| {
            let k = e.get("kind")?.as_str()?.to_string();
            let o = e.get("over_limit")?.as_bool()?;
            Some((k, o))
        });
        match exp {
            Some((k, o)) => {
                let k: &'static str = Box::leak(k.into_boxed_str());
                check_case(ctx, t, "replay", Some((k, o)))
            }
            None => check_case(ctx, t, "replay", None),
        }
    }
}
